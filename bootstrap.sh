#!/bin/sh
# setup_cmd: install icontract (pure python) beside the repository's interpreter, offline.
# It is a convenience for class invariants; every check degrades to plain wrappers without it.
set -u
cd "$(dirname "$0")"
if [ ! -d .deps/icontract ]; then
  PIP_NO_INDEX=1 /venv/bin/pip install --quiet --no-index --find-links /opt/veriftools/wheels \
     --target .deps icontract >/dev/null 2>&1 || echo "bootstrap: icontract not installed (checks fall back to plain wrappers)"
fi
/venv/bin/python -c "import pynguin; print('pynguin from', pynguin.__file__)"
exit 0
