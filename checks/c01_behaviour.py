"""C01 — instrumentation does not change behaviour (differential execution, twin vs instrumented).

For each generated program x argument tuple x metric subset (seeding always on): the instrumented
function must return an equal value / raise the same exception type, print the same, leave mutable
arguments and module globals equal, call no user operator the original run did not call, and consume no
more items of one-shot iterators.  Instrumenting itself must not raise.
"""

from __future__ import annotations

import importlib
import importlib.util
import sys

ID = "C01"
LEVEL = "exploration"
CHUNK_TIMEOUT = 900
RULE = (
    "generated programs (vlib/progs.py: branches, loops with break/else, try/except/finally, with, match, inlined "
    "comprehensions, generators, closures, classes) x 4 typed argument tuples per function + 8 adversarial value pairs "
    "(NaN, ints > 2**53 / > 1e308, partial comparison protocols, tuple prefixes for startswith, one-shot iterators) per "
    "comparison function x all 8 metric subsets with dynamic seeding on; plus instrument-only runs over stdlib modules and "
    "a sample through the real import hook; oracle = the same source run uninstrumented; a case is distinct by "
    "(program, function, args, subset) and non-trivial when the function body was entered"
)
ASSUMPTIONS = [
    "duplicate calls of an operator the original also calls are tolerated (set inclusion of (class, dunder) pairs)",
    "exception *types* are compared, not messages; NaN-aware structural equality for values",
]


def floors(tier):
    subs = {f"subset:{'+'.join(s) or 'none'}": (30 if tier == "quick" else 300) for s in _subsets()}
    return {"evals": 6000 if tier == "quick" else 100000, "distinct": 3000,
            "classes": {**subs, "operand:nan": 20, "operand:int>2**53": 20, "operand:int>1e308": 10, "operand:partial": 40,
                        "operand:oneshot": 20, "startswith-tuple": 10, "feature:with": 30, "feature:try-finally": 30,
                        "feature:comprehension": 30, "feature:match": 30, "feature:generator": 10, "import-hook": 5, "stdlib-instrument": 15}}


def _subsets():
    from vlib.instr_family import ALL_SUBSETS

    return ALL_SUBSETS


def plan(tier, seed):
    n = 96 if tier == "quick" else 1600
    per = 6 if tier == "quick" else 40
    specs = [{"name": "directed"}, {"name": "stdlib", "part": 0}, {"name": "stdlib", "part": 1}]
    for i in range(0, n, per):
        specs.append({"name": "generated", "seed": seed, "start": i, "n": per})
    return specs


DIRECTED = '''
def d_with(a):
    class _C:
        def __enter__(self):
            return self
        def __exit__(self, *a):
            return False
    with _C() as c:
        if a > 0:
            return 1
    return 2

def d_try_comp(a, b):
    r = [i for i in range(a)]
    while b > 0:
        b -= 1
    try:
        if a < b:
            r.append(1)
    finally:
        r.append(2)
    return r

def d_startswith(s, p):
    if s.startswith(p):
        return 1
    if s.endswith(p):
        return 2
    return 0

def d_cmp(u, v):
    out = []
    if u < v:
        out.append("lt")
    if u == v:
        out.append("eq")
    if u != v:
        out.append("ne")
    if u >= v:
        out.append("ge")
    return out

def d_in(u, v):
    if u in v:
        return "in"
    return "out"

def d_truth(u):
    if u:
        return 1
    return 0

def d_gen(n):
    def g():
        for i in range(n):
            if i % 2:
                yield i
    return sum(x for x in g() if x > 1)

def d_match(x):
    match x:
        case [a, b] if a < b:
            return "lt"
        case {"k": v}:
            return v
        case str():
            return "s"
        case _:
            return None
'''

DIRECTED_CALLS = [
    ("d_with", "typed", (1,)), ("d_with", "typed", (0,)), ("d_try_comp", "typed", (3, 2)), ("d_try_comp", "typed", (0, 4)),
    ("d_startswith", "untyped", ("s-abc", "t-ab")), ("d_startswith", "untyped", ("s-abc", "s-a")), ("d_startswith", "untyped", ("s-abc", "t-empty")),
    ("d_cmp", "untyped", ("fnan", "fnan")), ("d_cmp", "untyped", ("int2^53", "int2^53+1")), ("d_cmp", "untyped", ("int10^400", "int1")),
    ("d_cmp", "untyped", ("u-onlylt1", "u-onlylt2")), ("d_cmp", "untyped", ("u-full1", "u-full2")), ("d_cmp", "untyped", ("u-onlyeq1", "int1")),
    ("d_cmp", "untyped", ("set-1", "set-3")), ("d_cmp", "untyped", ("dec1.5", "f1.5")), ("d_cmp", "untyped", ("int1", "s-a")),
    ("d_in", "untyped", ("int1", "oneshot-123")), ("d_in", "untyped", ("int7", "oneshot-123")), ("d_in", "untyped", ("int1", "gen-01")),
    ("d_in", "untyped", ("s-a", "oneshot-abc")), ("d_in", "untyped", ("int1", "u-contains")), ("d_in", "untyped", ("fnan", "l-nan")),
    ("d_in", "untyped", ("u-raiseq", "l-123")), ("d_in", "untyped", ("int1", "int7")),
    ("d_truth", "untyped", ("fnan",)), ("d_truth", "untyped", ("int10^400",)), ("d_truth", "untyped", ("u-len0",)), ("d_truth", "untyped", ("u-raisebool",)),
    ("d_truth", "untyped", ("decNaN",)), ("d_gen", "typed", (6,)), ("d_match", "typed", ([1, 2],)), ("d_match", "typed", ({"k": 5},)), ("d_match", "typed", ("s",)),
]


STDLIB_FAST = ["textwrap", "bisect", "heapq", "fnmatch", "shlex", "colorsys", "string", "json.encoder", "statistics", "glob", "copy",
               "keyword", "reprlib", "stat", "genericpath", "operator", "numbers", "quopri", "netrc", "base64"]


def _arg_classes(kind, args):
    from vlib import values as V

    out = []
    if kind != "untyped":
        if any(isinstance(a, int) and not isinstance(a, bool) and abs(a) > 2**53 for a in args):
            out.append("operand:int>2**53")
        return out
    for n in args:
        c = V.vclass(n)
        if c in ("nan", "int>2**53", "int>1e308", "oneshot"):
            out.append(f"operand:{c}")
        if c.startswith("partial:"):
            out.append("operand:partial")
    if len(args) == 2 and args[0].startswith("s-") and args[1].startswith("t-"):
        out.append("startswith-tuple")
    return out


def _run_program(ctx, source, filename, modname, calls, describe, features, subsets, materialise):
    from vlib import instr
    from vlib.instr_family import metric_set, msg_class, pynguin_frame

    twin = instr.Twin(source, filename)
    twin.do_import()
    refs = []
    for call in calls:
        fn, kind, args = call
        out, lines, branches, entered = twin.call(fn, materialise(kind, args))
        refs.append((out, bool(entered)))
    for names in subsets:
        tag = "+".join(names) or "none"
        inst = instr.Instrumented(source, filename, modname, metric_set(names))
        try:
            inst.instrument()
            inst.do_import()
        except Exception as e:  # noqa: BLE001
            import traceback

            frames = [(f.filename.rsplit("/", 1)[-1], f.name) for f in traceback.extract_tb(e.__traceback__)]
            ctx.ok(cls=[f"subset:{tag}"] + [f"feature:{f}" for f in features])
            ctx.witness(f"instrument:raises-{type(e).__name__}:{msg_class(str(e))}:{'CHECKED' if 'CHECKED' in names else 'no-CHECKED'}",
                        f"instrumenting/importing {modname} with {{{tag}}} raised {type(e).__name__}: {str(e)[:200]} at {pynguin_frame(frames)}",
                        {**describe(calls[0]), "subset": tag, "features": features})
            continue
        for call, (ref, entered) in zip(calls, refs):
            fn, kind, args = call
            got, trace, left_disabled = inst.call(fn, materialise(kind, args))
            cl = [f"subset:{tag}"] + _arg_classes(kind, args) + [f"feature:{f}" for f in features]
            ctx.ok(cls=cl, distinct=f"{modname}|{fn}|{args!r}|{tag}" if entered else None)
            case = {**describe(call), "subset": tag}
            diff = instr.same_outcome(ref, got)
            if diff:
                origin = pynguin_frame(got.tb_frames) if got.kind == "exc" else None
                if got.kind == "exc" and origin:
                    key = f"behaviour:raises-{got.exc_type}:{origin}:{msg_class(got.exc_msg)}"
                elif ref.kind == "exc" and got.kind == "ret":
                    key = f"behaviour:swallowed-{ref.exc_type}"
                else:
                    key = f"behaviour:{diff.split()[0]}-differs"
                    if any(c == "operand:oneshot" or (kind == "untyped" and any(a.startswith(("gen-", "oneshot-")) for a in args)) for c in cl):
                        key += ":operand-is-one-shot-iterator"
                ctx.witness(key, f"{fn}{args!r} under {{{tag}}}: {diff}", {**case, "reference": ref.summary(), "instrumented": got.summary()})
                continue
            extra = got.oplog - ref.oplog
            if extra:
                ctx.witness("oplog:extra-user-operator:" + ",".join(sorted(f"{c}.{d}" for c, d in extra)),
                            f"{fn}{args!r} under {{{tag}}}: instrumented run called {sorted(extra)} which the original never calls (original: {sorted(ref.oplog)})", case)
                continue
            if got.consumed != ref.consumed:
                ctx.witness("iterator:consumed-more:operand-is-one-shot-iterator", f"{fn}{args!r} under {{{tag}}}: one-shot iterator consumption {got.consumed} vs original {ref.consumed}", case)
                continue
            if left_disabled:
                ctx.anomaly("tracer-left-disabled-after-call")
        if len(ctx.samples) < 6 and names == ("BRANCH", "LINE"):
            c0 = calls[0]
            ctx.sample({"module": modname, "subset": tag, "call": f"{c0[0]}{c0[2]!r}", "reference": refs[0][0].summary()})


def run_chunk(spec, ctx):
    from vlib import progs
    from vlib.instr_family import ALL_SUBSETS, ProgramCase, metric_set, msg_class

    if spec["name"] == "directed":
        fn = str(ctx.scratch / "vp_directed.py")
        open(fn, "w").write(DIRECTED)
        _run_program(ctx, DIRECTED, fn, "vp_directed", DIRECTED_CALLS, lambda c: {"program": "directed", "function": c[0], "args": repr(c[2])},
                     ["with", "try-finally", "comprehension", "match", "generator"], ALL_SUBSETS, ProgramCase.materialise)
        # a sample through the real import hook (install_import_hook + importlib), all metrics
        import pynguin.configuration as config

        from pynguin.instrumentation.machinery import install_import_hook
        from pynguin.instrumentation.tracer import SubjectProperties
        from vlib import instr

        sys.path.insert(0, str(ctx.scratch))
        for i in range(6):
            pc = ProgramCase(9000 + i, i, ctx.scratch)
            twin = instr.Twin(pc.prog["source"], pc.filename)
            twin.do_import()
            sp = SubjectProperties()
            names = ALL_SUBSETS[(i * 3 + 1) % len(ALL_SUBSETS)] or ("BRANCH",)
            try:
                with install_import_hook(pc.modname, sp, metric_set(names), config.ToCoverConfiguration()):
                    with sp.instrumentation_tracer:
                        mod = importlib.import_module(pc.modname)
            except Exception as e:  # noqa: BLE001
                ctx.ok(cls="import-hook")
                ctx.witness(f"instrument:raises-{type(e).__name__}:{msg_class(str(e))}:{'CHECKED' if 'CHECKED' in names else 'no-CHECKED'}",
                            f"import hook on {pc.modname} with {names} raised {e!r}", {"program": [pc.seed, pc.index], "subset": "+".join(names)})
                continue
            ns = vars(mod)
            for call in pc.calls:
                fnm, kind, args = call
                ref, *_ = twin.call(fnm, pc.materialise(kind, args))
                sp.instrumentation_tracer.init_trace()
                with sp.instrumentation_tracer:
                    got = instr.run_call(ns, fnm, pc.materialise(kind, args))
                ctx.ok(cls="import-hook", distinct=f"hook|{pc.modname}|{fnm}|{args!r}")
                diff = instr.same_outcome(ref, got)
                if diff:
                    ctx.witness(f"behaviour:import-hook:{diff.split()[0]}-differs", f"{fnm}{args!r}: {diff}", pc.describe(call))
        return
    if spec["name"] == "stdlib":
        import pynguin.configuration as config

        from pynguin.instrumentation.machinery import build_transformer
        from pynguin.instrumentation.tracer import SubjectProperties
        from vlib.instr_family import pynguin_frame

        import signal

        class _Slow(BaseException):
            pass

        def _alarm(*_a):
            raise _Slow()

        signal.signal(signal.SIGALRM, _alarm)
        mods = STDLIB_FAST[spec["part"]::2]
        for m in mods:
            sp_ = importlib.util.find_spec(m)
            if sp_ is None or not str(sp_.origin).endswith(".py"):
                continue
            src = open(sp_.origin).read()
            for names in [("BRANCH", "LINE"), ("CHECKED",)]:
                sp = SubjectProperties()
                tr = build_transformer(sp, metric_set(names), config.ToCoverConfiguration(), None)
                signal.alarm(90)
                try:
                    tr.instrument_code(compile(src, sp_.origin, "exec"), m)
                    signal.alarm(0)
                    ctx.ok(cls="stdlib-instrument", distinct=f"stdlib|{m}|{names}")
                except _Slow:
                    # instrumentation is super-linear in block size for some modules; slowness is not a C01 verdict
                    ctx.anomaly("stdlib-instrumentation-slower-than-90s")
                except Exception as e:  # noqa: BLE001
                    signal.alarm(0)
                    ctx.ok(cls="stdlib-instrument", distinct=f"stdlib|{m}|{names}")
                    import traceback

                    frames = [(f.filename.rsplit("/", 1)[-1], f.name) for f in traceback.extract_tb(e.__traceback__)]
                    ctx.witness(f"instrument:raises-{type(e).__name__}:{msg_class(str(e))}:{'CHECKED' if 'CHECKED' in names else 'no-CHECKED'}",
                                f"instrumenting stdlib {m} with {names} raised {type(e).__name__}: {str(e)[:160]} at {pynguin_frame(frames)}", {"module": m, "subset": "+".join(names)})
        return
    for i in range(spec["start"], spec["start"] + spec["n"]):
        pc = ProgramCase(spec["seed"], i, ctx.scratch)
        # every program under 3 rotating subsets + always the full and the empty set => all 8 covered evenly
        subsets = [ALL_SUBSETS[(i + k) % len(ALL_SUBSETS)] for k in range(3)]
        if ("BRANCH", "LINE", "CHECKED") not in subsets:
            subsets.append(("BRANCH", "LINE", "CHECKED"))
        _run_program(ctx, pc.prog["source"], pc.filename, pc.modname, pc.calls, pc.describe, pc.prog["features"], subsets, pc.materialise)
