"""C02 — reported line coverage == lines the interpreter executed (sys.monitoring LINE ground truth).

For each generated program, metric subset containing LINE, and call: the covered line numbers in the
trace must equal (lines executed during import ∪ lines executed during the call) ∩ registered line goals,
every executed line must be a registered goal, and every goal must name the module's file and an int line.
"""

from __future__ import annotations

ID = "C02"
LEVEL = "exploration"
CHUNK_TIMEOUT = 900
RULE = (
    "generated programs (branches, loops with break/else, comprehensions, generators, try/except/finally, with, match, "
    "closures, classes; inputs that raise mid-line, break out of loops, take handlers) under {LINE}, {LINE,BRANCH}, "
    "{LINE,BRANCH,CHECKED}; oracle = sys.monitoring LINE events of the uninstrumented twin; distinct by (program, "
    "function, args, subset); non-trivial when the call executed at least 3 lines of the module"
)
ASSUMPTIONS = [
    "sys.monitoring LINE events of CPython 3.12 define 'executed line'",
    "line goals are compared by line number (pynguin dedups goals by (file, line))",
]
SUBSETS = [("LINE",), ("BRANCH", "LINE"), ("BRANCH", "LINE", "CHECKED")]


def floors(tier):
    return {"evals": 3000 if tier == "quick" else 60000, "distinct": 2000,
            "classes": {"subset:LINE": 300, "subset:BRANCH+LINE": 300, "subset:BRANCH+LINE+CHECKED": 300, "raised-mid-function": 50,
                        "feature:with": 100, "feature:try-finally": 100, "feature:comprehension": 100, "feature:match": 100,
                        "feature:generator": 30, "feature:loop-else": 100,
                        "history:previous-execution-ended-where-this-one-starts": 40}}


def plan(tier, seed):
    n = 80 if tier == "quick" else 1600
    per = 5 if tier == "quick" else 40
    return [{"name": "directed"}] + [{"name": "generated", "seed": seed, "start": i, "n": per} for i in range(0, n, per)]


DIRECTED = '''
import math


class CM:
    def __enter__(self):
        return self

    def __exit__(self, et, ev, tb):
        return et is ValueError


def boom(x):
    if x > 2:
        raise ValueError(x)
    return x


def d_lines(a, b):
    r = [i for i in range(a)
         if i != b]
    with CM():
        a = boom(a)
        b += 1
    try:
        b = boom(
            b)
    except ValueError:
        b = -1
    else:
        b += 10
    finally:
        a += 1
    g = (k * 2
         for k in r)
    for v in g:
        if v > 2:
            break
    else:
        a = 0
    match a:
        case 0:
            return "zero"
        case 1 | 2:
            return "small"
        case _:
            pass
    while b > 0: b -= 4
    return (a, b,
            sum(r))


def d_nested(n):
    def inner(q):
        return q + 1 if q else \\
            0
    total = 0
    for i in range(n):
        total += inner(i)
    lam = lambda z: z * 2  # noqa: E731
    return lam(total)


class K:
    x = 1
    if x:
        y = 2

    def m(self, v):
        if v:
            return self.y
        return self.x


def d_class(v):
    return K().m(v)


# consecutive executions: the previous execution ends on the very line the next one starts with
def h_scale(a, b):
    return a // b


def h_one(v):
    return v + 1


def h_drain(n):
    while n > 0:
        n -= 1


def h_first_raises(a, b):
    r = a % b
    if r:
        return r
    return -1


def h_loop_tail(n):
    for i in range(n):
        pass
'''
DIRECTED_CALLS = [("d_lines", "typed", (a, b)) for a in (0, 1, 3, 5) for b in (0, 2, 3)] + [("d_nested", "typed", (n,)) for n in (0, 1, 3)] + [
    ("d_class", "typed", (0,)), ("d_class", "typed", (1,))] + [
    # histories (order matters): an execution that raises on the first body line, then a normal one; a one-line body twice in a
    # row; a function that falls off its end in a loop header, then a zero-iteration call of the same function
    ("h_scale", "typed", (1, 0)), ("h_scale", "typed", (9, 2)), ("h_one", "typed", (1,)), ("h_one", "typed", (2,)), ("h_one", "typed", (3,)),
    ("h_drain", "typed", (2,)), ("h_drain", "typed", (0,)), ("h_drain", "typed", (0,)), ("h_first_raises", "typed", (1, 0)),
    ("h_first_raises", "typed", (4, 2)), ("h_first_raises", "typed", (5, 0)), ("h_first_raises", "typed", (5, 3)),
    ("h_loop_tail", "typed", (2,)), ("h_loop_tail", "typed", (0,)), ("h_loop_tail", "typed", (0,)), ("h_scale", "typed", (3, 0)), ("h_scale", "typed", (3, 0)),
    ("h_scale", "typed", (8, 2))]


def _stmt_kind(src_lines, ln):
    if not isinstance(ln, int) or ln < 1 or ln > len(src_lines):
        return "no-such-line"
    s = src_lines[ln - 1].strip()
    if not s:
        return "blank"
    w = s.split()[0].rstrip(":(")
    if w in ("for", "while", "if", "elif", "else", "try", "except", "finally", "with", "match", "case", "return", "def", "class", "assert",
             "break", "continue", "raise", "import", "from", "pass", "yield", "lambda"):
        return w
    return "continuation-or-expr" if not any(t in s for t in ("=",)) else "assign"


def _run_program(ctx, source, filename, modname, calls, describe, features, materialise):
    from vlib import instr
    from vlib.instr_family import metric_set, msg_class

    src_lines = source.splitlines()
    twin = instr.Twin(source, filename)
    twin.do_import()
    import_lines = {ln for _, ln in twin.import_lines}
    refs = []
    for call in calls:
        fn, kind, args = call
        out, lines, _b, entered = twin.call(fn, materialise(kind, args))
        refs.append((out, {ln for _, ln in lines}))
    for names in SUBSETS:
        tag = "+".join(names)
        inst = instr.Instrumented(source, filename, modname, metric_set(names))
        try:
            inst.instrument()
            inst.do_import()
        except Exception as e:  # noqa: BLE001
            ctx.ok(cls=[f"subset:{tag}"])
            ctx.witness(f"instrument:raises-{type(e).__name__}:{msg_class(str(e))}", f"instrumenting {modname} with {{{tag}}} raised {e!r}",
                        {**describe(calls[0]), "subset": tag})
            continue
        # goals: file and line sanity
        registered = set()
        for meta in inst.sp.existing_lines.values():
            if meta.file_name != filename:
                ctx.witness("line-goal:foreign-file", f"line goal {meta} names {meta.file_name}, module is {filename}", {"program": describe(calls[0])["program"], "subset": tag})
            if not isinstance(meta.line_number, int):
                ctx.witness("line-goal:line_number-not-int", f"line goal {meta} has line_number={meta.line_number!r}", {"program": describe(calls[0])["program"], "subset": tag})
            else:
                registered.add(meta.line_number)
        for call, (ref, call_lines) in zip(calls, refs):
            fn, kind, args = call
            got, trace, _ld = inst.call(fn, materialise(kind, args))
            executed = import_lines | call_lines
            reported = {ln for _, ln in inst.covered_lines(trace)}
            cl = [f"subset:{tag}"] + [f"feature:{f}" for f in features] + (["raised-mid-function"] if ref.kind == "exc" else []) + (
                ["history:previous-execution-ended-where-this-one-starts"] if fn.startswith("h_") else [])
            ctx.ok(cls=cl, distinct=f"{modname}|{fn}|{args!r}|{tag}" if len(call_lines) >= 3 else None)
            case = {**describe(call), "subset": tag}
            if instr.same_outcome(ref, got):
                ctx.anomaly("behaviour-differs(C01)-call-skipped")
                continue
            not_goal = executed - registered
            if not_goal:
                ln = min(not_goal)
                ctx.witness(f"executed-line-not-a-goal:{_stmt_kind(src_lines, ln)}", f"{fn}{args!r} under {{{tag}}}: executed lines {sorted(not_goal)} are not line goals; e.g. line {ln}: {src_lines[ln - 1].strip()[:80]!r}", case)
                continue
            extra = reported - executed
            missing = (executed & registered) - reported
            if extra:
                ln = min(extra, key=lambda v: (not isinstance(v, int), v if isinstance(v, int) else 0))
                ctx.witness(f"reported-but-not-executed:{_stmt_kind(src_lines, ln)}", f"{fn}{args!r} under {{{tag}}}: lines {sorted(map(str, extra))} reported covered but never executed; e.g. {ln}: {src_lines[ln - 1].strip()[:80] if isinstance(ln, int) else ''!r}", case)
            elif missing:
                ln = min(missing)
                ctx.witness(f"executed-but-not-reported:{_stmt_kind(src_lines, ln)}", f"{fn}{args!r} under {{{tag}}}: lines {sorted(missing)} executed but not reported; e.g. {ln}: {src_lines[ln - 1].strip()[:80]!r}", case)
        if len(ctx.samples) < 5 and names == ("LINE",):
            c0 = calls[0]
            ctx.sample({"module": modname, "call": f"{c0[0]}{c0[2]!r}", "executed_lines_in_call": sorted(refs[0][1])[:25], "line_goals": len(registered)})


def run_chunk(spec, ctx):
    from vlib.instr_family import ProgramCase

    if spec["name"] == "directed":
        fn = str(ctx.scratch / "vp_lines_directed.py")
        open(fn, "w").write(DIRECTED)
        _run_program(ctx, DIRECTED, fn, "vp_lines_directed", DIRECTED_CALLS, lambda c: {"program": "directed", "function": c[0], "args": repr(c[2])},
                     ["with", "try-finally", "comprehension", "match", "generator", "loop-else"], ProgramCase.materialise)
        return
    for i in range(spec["start"], spec["start"] + spec["n"]):
        pc = ProgramCase(spec["seed"], i, ctx.scratch)
        calls = [c for c in pc.calls if c[1] == "typed"]
        _run_program(ctx, pc.prog["source"], pc.filename, pc.modname, calls, pc.describe, pc.prog["features"], pc.materialise)
