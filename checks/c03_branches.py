"""C03 — reported branch outcomes == branches the interpreter took (sys.monitoring BRANCH ground truth).

Per code object the k-th conditional jump / FOR_ITER (offset order, uninstrumented twin) is the k-th
registered predicate (basic-block order); counts and line numbers validate the mapping and a mismatch is
itself a witness ("not every jump registered").  For each call, the set {(predicate, outcome) with
distance 0} must equal the set of outcomes the twin took (import ∪ call), branch-less code objects must
be reported exactly when entered, and the BranchGoalPool must hold both outcomes of every predicate.
"""

from __future__ import annotations

ID = "C03"
LEVEL = "exploration"
CHUNK_TIMEOUT = 900
RULE = (
    "generated programs (nested conditions, boolean operators, chained comparisons, None checks, exception matching, "
    "for/while with break/else, match, comprehensions) + adversarial comparison functions under {BRANCH}, {BRANCH,LINE}, "
    "{BRANCH,LINE,CHECKED}; oracle = sys.monitoring BRANCH events of the uninstrumented twin mapped by ordinal; an "
    "evaluation = one (call, predicate-executed) pair; distinct by (program, function, args, subset); non-trivial when "
    "the call executed >= 1 predicate"
)
ASSUMPTIONS = [
    "sys.monitoring BRANCH events of CPython 3.12 define 'branch taken'; jumped <=> destination != fall-through offset",
    "the label of the jump direction is version.get_branch_type(opcode), cross-checked against a fixed table for POP_JUMP_IF_TRUE/FALSE",
    "membership tests on one-shot iterators are deliberately not traced (see C01 fix); they are classified separately",
]
SUBSETS = [("BRANCH",), ("BRANCH", "LINE"), ("BRANCH", "LINE", "CHECKED")]
TABLE = {"POP_JUMP_IF_TRUE": True, "POP_JUMP_IF_FALSE": False}


def floors(tier):
    return {"evals": 8000 if tier == "quick" else 150000, "distinct": 2000,
            "classes": {"op:POP_JUMP_IF_TRUE": 20, "op:POP_JUMP_IF_FALSE": 500, "op:POP_JUMP_IF_NONE": 20, "op:POP_JUMP_IF_NOT_NONE": 20,
                        "op:FOR_ITER": 200, "branchless-checked": 500, "exception-match": 50, "subset:BRANCH": 300,
                        "subset:BRANCH+LINE": 300, "subset:BRANCH+LINE+CHECKED": 300, "both-outcomes-in-one-call": 100, "same-object-operands": 20,
                        "goal-verdicts-checked": 500, "tiny-positive-distance": 10}}


def plan(tier, seed):
    n = 80 if tier == "quick" else 1600
    per = 5 if tier == "quick" else 40
    return [{"name": "directed"}] + [{"name": "generated", "seed": seed, "start": i, "n": per} for i in range(0, n, per)]


DIRECTED = '''
def boom(x):
    if x % 3 == 0:
        raise ValueError(x)
    if x % 5 == 0:
        raise KeyError(x)
    return x


def d_br(a, b, l, o):
    r = 0
    if a < b and (b < 10 or not a):
        r += 1
    if 0 < a <= b != 7:
        r += 2
    if o is None:
        r += 4
    if o is not None and o:
        r += 8
    for i in l:
        if i == a:
            break
    else:
        r += 16
    while b > 0:
        b -= 3
    else:
        r += 32
    try:
        r += boom(a)
    except ValueError:
        r = -r
    except (KeyError, TypeError):
        r = 0
    x = [i for i in l if i > a]
    y = a if b else b
    z = a or b
    w = a and b
    return r, x, y, z, w


def d_match(v):
    match v:
        case 0:
            return "zero"
        case [p, q] if p < q:
            return "asc"
        case str() as s if s:
            return "str"
        case None:
            return "none"
        case _:
            return "other"


def d_self(u, v):
    r = []
    if u != v:
        r.append("ne")
    if u == v:
        r.append("eq")
    if u in [v]:
        r.append("in")
    n = 0
    for e in (u, v):
        if e == u:
            n += 1
    return r, n


def nobranch(x):
    return x + 1


def d_calls(x):
    if x:
        return nobranch(x)
    return (lambda t: t)(x)


def d_gen(n):
    def g():
        for i in range(n):
            if i % 2:
                yield i
    return list(g())
'''
DIRECTED_CALLS = (
    [("d_br", "typed", (a, b, l, o)) for a in (0, 1, 3, 5, 9) for b in (0, 4, 7, 12) for l, o in (([], None), ([1, 3], 0), ([5, 9, 0], "x"))]
    + [("d_match", "typed", (v,)) for v in (0, [1, 2], [2, 1], "s", "", None, 3.5)]
    + [("d_self", "untyped", (n, n + "=")) for n in ("fnan", "decNaN", "cnan", "int1", "u-full1", "l-nan", "s-abc")]
    + [("d_self", "untyped", (n, n)) for n in ("fnan", "int1", "u-full1")]
    + [("d_calls", "typed", (x,)) for x in (0, 2)] + [("d_gen", "typed", (n,)) for n in (0, 1, 4)]
)


def _run_program(ctx, source, filename, modname, calls, describe, materialise):
    from vlib import instr
    from vlib import values as V
    from vlib.instr_family import metric_set, msg_class

    from pynguin.ga.coveragegoals import BranchGoalPool
    from pynguin.instrumentation import version

    import dis
    import types

    twin = instr.Twin(source, filename)
    twin.do_import()
    refs = []
    for call in calls:
        fn, kind, args = call
        out, _lines, branches, entered = twin.call(fn, materialise(kind, args))
        refs.append((out, branches, entered))
    for names in SUBSETS:
        tag = "+".join(names)
        inst = instr.Instrumented(source, filename, modname, metric_set(names))
        try:
            inst.instrument()
            inst.do_import()
        except Exception as e:  # noqa: BLE001
            ctx.ok(cls=[f"subset:{tag}"])
            ctx.witness(f"instrument:raises-{type(e).__name__}:{msg_class(str(e))}", f"instrumenting {modname} with {{{tag}}} raised {e!r}", {**describe(calls[0]), "subset": tag})
            continue
        preds = inst.predicates_by_code()
        key_of_id = {cid: inst.code_key_of(cid) for cid in inst.sp.existing_code_objects}
        # ---- registration: every conditional jump / FOR_ITER is a predicate (ordinal mapping valid)
        mapping_ok = True
        for key, js in twin.jumps.items():
            ps = preds.get(key, [])
            if key not in key_of_id.values():
                continue  # code object not instrumented at all (would be a C08 matter); none are excluded here
            if len(ps) != len(js) or [p[1] for p in ps] != [j["line"] for j in js]:
                ctx.ok(cls=[f"subset:{tag}"])
                ctx.witness("registration:jumps-and-predicates-differ",
                            f"{key}: {len(js)} conditional jumps at lines {[j['line'] for j in js]} but predicates at lines {[p[1] for p in ps]}",
                            {**describe(calls[0]), "subset": tag, "code": list(key)})
                mapping_ok = False
        if not mapping_ok:
            continue
        # ---- goals: both outcomes per predicate, branch-less goals == code objects without predicate
        pool = BranchGoalPool(inst.sp)
        per_pred: dict = {}
        for g in pool.branch_goals:
            per_pred.setdefault(g.predicate_id, set()).add(g._value)  # noqa: SLF001
        for pid in inst.sp.existing_predicates:
            if per_pred.get(pid) != {True, False}:
                ctx.witness("goals:predicate-lacks-an-outcome-goal", f"predicate {pid} has goals for {per_pred.get(pid)}", {**describe(calls[0]), "subset": tag})
        branchless_ids = {g.code_object_id for g in pool.branchless_code_object_goals}
        exp_branchless = {cid for cid, k in key_of_id.items() if not preds.get(k)}
        if branchless_ids != exp_branchless:
            ctx.witness("goals:branchless-set-differs", f"branch-less goals {sorted(branchless_ids)} vs code objects without predicates {sorted(exp_branchless)}", {**describe(calls[0]), "subset": tag})
        pid_of = {(key, ordinal): p[0] for key, ps in preds.items() for ordinal, p in enumerate(ps)}
        op_of = {(key, ordinal): j["op"] for key, js in twin.jumps.items() for ordinal, j in enumerate(js)}
        for (key, ordinal), op in op_of.items():
            lab = version.get_branch_type(dis.opmap[op])
            if op in TABLE and lab != TABLE[op]:
                ctx.witness("polarity:get_branch_type-disagrees-with-opcode-semantics", f"{op}: get_branch_type gives {lab}", {"op": op})

        def outcome(key, ordinal, jumped):
            lab = version.get_branch_type(dis.opmap[op_of[(key, ordinal)]])
            return lab if jumped else (not lab)

        import_expected = {(pid_of[(k, o)], outcome(k, o, j)) for (k, o, j) in twin.import_branches if (k, o) in pid_of}
        import_entered = set(twin.import_entered)
        for call, (ref, branches, entered) in zip(calls, refs):
            fn, kind, args = call
            got, trace, _ld = inst.call(fn, materialise(kind, args))
            case = {**describe(call), "subset": tag}
            if instr.same_outcome(ref, got):
                ctx.anomaly("behaviour-differs(C01)-call-skipped")
                continue
            expected = set(import_expected) | {(pid_of[(k, o)], outcome(k, o, j)) for (k, o, j) in branches if (k, o) in pid_of}
            reported = {(p, True) for p in trace.executed_predicates if trace.true_distances.get(p) == 0.0} | {
                (p, False) for p in trace.executed_predicates if trace.false_distances.get(p) == 0.0}
            ops = {f"op:{op_of[(k, o)]}" for (k, o, j) in branches if (k, o) in op_of}
            cl = [f"subset:{tag}", *ops]
            n_exec = len({(k, o) for (k, o, j) in branches})
            if any((k, o, True) in branches and (k, o, False) in branches for (k, o, j) in branches):
                cl.append("both-outcomes-in-one-call")
            if kind == "untyped" and len(args) == 2 and args[1] == args[0] + "=":
                cl.append("same-object-operands")
            src_lines = source.splitlines()
            if any("except" in src_lines[twin.jumps[k][o]["line"] - 1] for (k, o, j) in branches if twin.jumps[k][o]["line"]):
                cl.append("exception-match")
            ctx.ok(max(1, n_exec), cls=cl, distinct=f"{modname}|{fn}|{args!r}|{tag}" if n_exec else None)
            iter_operand = kind == "untyped" and any(V.vclass(a) in ("oneshot", "generator") for a in args)
            if reported != expected:
                missing = expected - reported
                extra = reported - expected

                def desc(pairs):
                    out = []
                    for p, o in sorted(pairs):
                        m = inst.sp.existing_predicates[p]
                        out.append(f"pred {p} line {m.line_no} -> {o}: {src_lines[m.line_no - 1].strip()[:60]!r}")
                    return out[:4]

                def opk(pairs):
                    inv = {v: k for k, v in pid_of.items()}
                    return ",".join(sorted({op_of[inv[p]] for p, _ in pairs}))

                if missing and iter_operand and all(" in " in src_lines[inst.sp.existing_predicates[p].line_no - 1] for p, _ in missing) and not extra:
                    ctx.witness("taken-but-not-reported:membership-test-on-one-shot-iterator", f"{fn}{args!r} under {{{tag}}}: {desc(missing)}", case)
                elif extra:
                    ctx.witness(f"reported-but-not-taken:{opk(extra)}", f"{fn}{args!r} under {{{tag}}}: {desc(extra)} (missing: {desc(missing)})", case)
                else:
                    ctx.witness(f"taken-but-not-reported:{opk(missing)}", f"{fn}{args!r} under {{{tag}}}: {desc(missing)}", case)
                continue
            # ---- the goals' own verdict (BranchGoal.is_covered / BranchlessCodeObjectGoal.is_covered) on the same trace
            result = types.SimpleNamespace(execution_trace=trace)
            try:
                goal_reported = {(g.predicate_id, g._value) for g in pool.branch_goals if g.is_covered(result)}  # noqa: SLF001
                goal_entered = {g.code_object_id for g in pool.branchless_code_object_goals if g.is_covered(result)}
            except Exception as e:  # noqa: BLE001
                ctx.witness(f"goal-verdict:raises-{type(e).__name__}", f"{fn}{args!r} under {{{tag}}}: is_covered raised {e!r}", case)
                continue
            tiny = any(0.0 < d < 1e-6 for dd in (trace.true_distances, trace.false_distances) for d in dd.values())
            ctx.ok(cls=["goal-verdicts-checked"] + (["tiny-positive-distance"] if tiny else []))
            if goal_reported != expected:
                g_extra, g_missing = goal_reported - expected, expected - goal_reported
                m = inst.sp.existing_predicates
                ctx.witness("goal-verdict:" + ("covered-but-not-taken" if g_extra else "taken-but-not-covered"),
                            f"{fn}{args!r} under {{{tag}}}: the trace reports exactly the outcomes taken, but BranchGoal.is_covered is True for "
                            f"{sorted(g_extra)[:4]} (not taken) / False for {sorted(g_missing)[:4]} (taken); distances "
                            f"{[(p, trace.true_distances.get(p), trace.false_distances.get(p)) for p, _ in sorted(g_extra | g_missing)[:4]]}; lines "
                            f"{[src_lines[m[p].line_no - 1].strip()[:50] for p, _ in sorted(g_extra | g_missing)[:4]]}", case)
                continue
            # branch-less code objects / executed code objects
            exp_entered = {cid for cid, k in key_of_id.items() if k in entered or k in import_entered}
            rep_entered = set(trace.executed_code_objects)
            ctx.ok(cls="branchless-checked")
            if goal_entered != (exp_entered & branchless_ids):
                ctx.witness("goal-verdict:branchless-code-object:" + ("covered-but-not-entered" if goal_entered - exp_entered else "entered-but-not-covered"),
                            f"{fn}{args!r} under {{{tag}}}: BranchlessCodeObjectGoal.is_covered is True for {sorted(goal_entered)}, entered branch-less code "
                            f"objects are {sorted(exp_entered & branchless_ids)}", case)
            if rep_entered != exp_entered:
                ctx.witness("code-objects-entered-differ:" + ("missing" if exp_entered - rep_entered else "extra"),
                            f"{fn}{args!r} under {{{tag}}}: reported {sorted(rep_entered)} expected {sorted(exp_entered)} ({[key_of_id[c] for c in exp_entered ^ rep_entered]})", case)
        if len(ctx.samples) < 5 and names == ("BRANCH",):
            c0 = calls[0]
            ctx.sample({"module": modname, "call": f"{c0[0]}{c0[2]!r}", "branches_taken(code,ordinal,jumped)": sorted([list(k) + [o, j] for (k, o, j) in refs[0][1]], key=str)[:10],
                        "predicates": len(inst.sp.existing_predicates)})


def run_chunk(spec, ctx):
    from vlib.instr_family import ProgramCase

    if spec["name"] == "directed":
        fn = str(ctx.scratch / "vp_br_directed.py")
        open(fn, "w").write(DIRECTED)
        _run_program(ctx, DIRECTED, fn, "vp_br_directed", DIRECTED_CALLS, lambda c: {"program": "directed", "function": c[0], "args": repr(c[2])},
                     ProgramCase.materialise)
        return
    for i in range(spec["start"], spec["start"] + spec["n"]):
        pc = ProgramCase(spec["seed"], i, ctx.scratch)
        _run_program(ctx, pc.prog["source"], pc.filename, pc.modname, pc.calls, pc.describe, pc.materialise)
