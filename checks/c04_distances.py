"""C04 — branch distances of the real ExecutionTracer against Python's own operators.

For each value pair and comparison kind: Python's operator decides the reference outcome (on fresh
copies), then the real tracer callback is invoked on other fresh copies and the recorded
true/false distances are read back from the trace.  The tracer's internal assertions are not
trusted: distances are re-checked from the trace and an escaping exception counts as "raised".
"""

from __future__ import annotations

import itertools
import math
import operator
import random

from vlib import values as V

ID = "C04"
LEVEL = "exploration"
IN_PROCESS = True
RULE = (
    "cross product of the adversarial value corpus (ints beyond 2**53 / 1e308, NaN, inf, -0.0, complex, Decimal, "
    "Fraction, str, bytes, containers, one-shot iterators, partial-protocol user classes) x 10 compare kinds, all "
    "values x truthiness, exception instances/types x match targets; oracle = Python's own operator on fresh copies; "
    "a case is distinct by (kind, left value, right value) and non-trivial when Python's comparison does not raise"
)
ASSUMPTIONS = [
    "CPython operator semantics on fresh copies of the operands are the reference outcome",
    "when Python's own comparison raises, any behaviour of the tracer is accepted (the statement only constrains the non-raising case)",
]

PYOPS = {
    "EQ": operator.eq, "NE": operator.ne, "LT": operator.lt, "LE": operator.le, "GT": operator.gt, "GE": operator.ge,
    "IN": lambda a, b: a in b, "NOT_IN": lambda a, b: a not in b, "IS": operator.is_, "IS_NOT": operator.is_not,
}
GROUP = {"EQ": "eq", "NE": "eq", "LT": "order", "LE": "order", "GT": "order", "GE": "order", "IN": "in", "NOT_IN": "in",
         "IS": "is", "IS_NOT": "is"}


def floors(tier):
    return {
        "evals": 30000,
        "distinct": 30000,
        "classes": {f"kind:{k}": 2000 for k in PYOPS} | {"kind:BOOL": 60, "kind:EXC": 60, "operand:nan": 500,
                                                            "operand:int>2**53": 500, "operand:int>1e308": 300,
                                                            "operand:partial": 1000, "operand:oneshot": 300, "same-object-on-both-sides": 500},
    }


def plan(tier, seed):
    return [{"name": "cross"}, {"name": "bool"}, {"name": "exc"}, {"name": "random", "seed": seed, "n": 4000 if tier == "quick" else 60000}]


def _mech(kind, ca, cb, a, b):
    """Mechanism class of an operand pair, from operand classes only."""
    cs = (ca, cb)
    if "nan" in cs or any(isinstance(x, (list, tuple)) and any(V.is_nan_like(y) for y in x) for x in (a, b)):
        return "nan-operand"
    if any(c.startswith("partial:") for c in cs):
        return "partial-protocol:" + "+".join(sorted(c.split(":")[1] for c in cs if c.startswith("partial:")))
    numeric = {"int", "bool", "float", "float-0.0", "float-subnormal", "float-huge", "float-inf", "int>2**53", "int>1e308",
               "Decimal", "Fraction", "complex"}
    if ca in numeric and cb in numeric:
        if "int>1e308" in cs:
            return "int-beyond-float-range"
        if "int>2**53" in cs:
            return "int-beyond-float-precision"
        if "complex" in cs:
            return "complex-operand"
        if "Decimal" in cs:
            return "decimal-operand"
        if "Fraction" in cs:
            return "fraction-operand"
        if "float-huge" in cs or "float-inf" in cs:
            return "float-huge-or-inf"
        return "numeric"
    if {ca, cb} <= {"set", "frozenset"}:
        return "set-partial-order"
    return f"{ca}~{cb}"


def _tracer():
    from pynguin.instrumentation.tracer import ExecutionTracer

    t = ExecutionTracer()
    t.__enter__()
    return t


def _check_dists(ctx, t, group, kind, outcome, mech, case):
    tr = t.get_trace()
    dt, df = tr.true_distances.get(0), tr.false_distances.get(0)
    prob = None
    if dt is None and df is None and kind in ("IN", "NOT_IN") and "right" in case and (
        V.vclass(case["right"]) in ("oneshot", "generator") if case["right"] in V.BY_NAME else False
    ):
        # the statement constrains *recorded* evaluations; membership in a one-shot iterator is deliberately
        # not evaluated by the tracer (it would consume the iterator)
        ctx.cls("not-recorded:iterator-operand")
        return True
    if dt is None or df is None:
        prob = "not-recorded"
    elif dt != dt or df != df:
        prob = "nan-distance"
    elif dt < 0 or df < 0:
        prob = "negative"
    elif (dt == 0) == (df == 0):
        prob = "both-zero" if dt == 0 else "both-nonzero"
    elif (dt == 0) != outcome:
        prob = "wrong-side"
    if prob:
        ctx.witness(f"{group}:{prob}:{mech}", f"{kind} {case}: python outcome {outcome}, recorded true={dt!r} false={df!r}", case)
        return False
    return True


def _one_compare(ctx, t, kind, an, bn, same_object=False):
    from pynguin.instrumentation import PynguinCompare  # noqa: F401

    a1, b1 = V.fresh(an), V.fresh(bn)
    if same_object:
        b1 = a1  # the very same object on both sides (x == x, x != x, x < x ...)
    try:
        outcome = bool(PYOPS[kind](a1, b1))
        pyexc = None
    except (Exception, V.Cancelled) as e:  # noqa: BLE001
        outcome, pyexc = None, type(e).__name__
    a2, b2 = V.fresh(an), V.fresh(bn)
    if same_object:
        b2 = a2
    ident = False
    if kind in ("IS", "IS_NOT"):
        # identity needs the same objects on both sides of the oracle: reuse the pair
        a2, b2 = a1, b1
    ca, cb = V.vclass(an), V.vclass(bn)
    mech = _mech(kind, ca, cb, a2, b2)
    case = {"kind": kind, "left": an, "right": bn, "same_object": same_object}
    t.init_trace()
    t.enable()
    try:
        t.executed_compare_predicate(a2, b2, 0, getattr(PynguinCompare, kind))
        texc = None
    except (Exception, V.Cancelled) as e:  # noqa: BLE001
        texc = type(e).__name__
        tmsg = str(e)[:80]
    classes = [f"kind:{kind}"]
    for c in (ca, cb):
        if c in ("nan", "int>2**53", "int>1e308", "oneshot"):
            classes.append(f"operand:{c}")
        if c.startswith("partial:"):
            classes.append("operand:partial")
    if same_object:
        classes.append("same-object-on-both-sides")
        mech += ":same-object"
    ctx.ok(cls=set(classes), distinct=f"{kind}|{an}|{bn}|{same_object}" if pyexc is None else None)
    if pyexc is not None:
        ctx.cls("python-raises")
        return
    if texc is not None:
        ctx.witness(f"{GROUP[kind]}:raises-{texc}:{mech}", f"{kind}({an},{bn}): python gives {outcome}, tracer raised {texc}: {tmsg}", case)
        return
    _check_dists(ctx, t, GROUP[kind], kind, outcome, mech, case)
    del ident


def _one_bool(ctx, t, an):
    v1 = V.fresh(an)
    try:
        outcome, pyexc = bool(v1), None
    except (Exception, V.Cancelled) as e:  # noqa: BLE001
        outcome, pyexc = None, type(e).__name__
    v2 = V.fresh(an)
    t.init_trace()
    t.enable()
    case = {"kind": "BOOL", "value": an}
    try:
        t.executed_bool_predicate(v2, 0)
        texc = None
    except (Exception, V.Cancelled) as e:  # noqa: BLE001
        texc = type(e).__name__
    ctx.ok(cls="kind:BOOL", distinct=f"BOOL|{an}" if pyexc is None else None)
    if pyexc is not None:
        return
    mech = _mech("BOOL", V.vclass(an), "bool", v2, True)
    if texc:
        ctx.witness(f"bool:raises-{texc}:{mech}", f"bool({an}) = {outcome}, tracer raised {texc}", case)
        return
    _check_dists(ctx, t, "bool", "BOOL", outcome, mech, case)


EXC_ERRS = [
    ("ValueError()", lambda: ValueError("x")), ("MyErr()", lambda: V.MyErr("m")), ("OtherErr()", lambda: V.OtherErr()),
    ("KeyError()", lambda: KeyError("k")), ("StopIteration()", lambda: StopIteration()), ("ZeroDivisionError()", lambda: ZeroDivisionError()),
    ("OSError()", lambda: FileNotFoundError(2, "x")), ("ValueError", lambda: ValueError), ("MyErr", lambda: V.MyErr),
    ("KeyboardInterrupt()", lambda: KeyboardInterrupt()), ("UnicodeDecodeError()", lambda: UnicodeDecodeError("u", b"", 0, 1, "r")),
]
EXC_TARGETS = [
    ("ValueError", ValueError), ("MyErr", V.MyErr), ("OtherErr", V.OtherErr), ("Exception", Exception), ("BaseException", BaseException),
    ("LookupError", LookupError), ("OSError", OSError), ("(KeyError,ValueError)", (KeyError, ValueError)), ("()", ()),
    ("(OtherErr,(MyErr,))", (V.OtherErr, (V.MyErr,))), ("ArithmeticError", ArithmeticError), ("(StopIteration,)", (StopIteration,)),
]


def _py_exc_match(err, target):
    """True/False, or None when Python itself rejects the except clause (e.g. nested tuples)."""
    try:
        try:
            raise err
        except target:
            return True
    except TypeError as e:
        if "catching classes that do not inherit" in str(e):
            return None
        return False
    except BaseException:  # noqa: BLE001
        return False


def _one_exc(ctx, t, en, ef, tn, target):
    outcome = _py_exc_match(ef(), target)
    if outcome is None:
        ctx.ok(cls="python-raises")
        return
    t.init_trace()
    t.enable()
    case = {"kind": "EXC", "err": en, "target": tn}
    ctx.ok(cls="kind:EXC", distinct=f"EXC|{en}|{tn}")
    try:
        t.executed_exception_match(ef(), target, 0)
    except (Exception, V.Cancelled) as e:  # noqa: BLE001
        ctx.witness(f"excmatch:raises-{type(e).__name__}:{'tuple-target' if isinstance(target, tuple) else 'type-target'}",
                    f"except {tn} on {en}: python matches={outcome}, tracer raised {e!r}", case)
        return
    _check_dists(ctx, t, "excmatch", "EXC", outcome, "tuple-target" if isinstance(target, tuple) else "type-target", case)


def run_chunk(spec, ctx):
    t = _tracer()
    names = [n for n, _, _ in V.VALUES + V.EXTRA_VALUES]
    if spec["name"] == "cross":
        for kind in PYOPS:
            for an, bn in itertools.product(names, names):
                _one_compare(ctx, t, kind, an, bn)
                if an == bn:
                    _one_compare(ctx, t, kind, an, bn, same_object=True)
                if t.is_disabled():
                    ctx.anomaly("tracer-left-disabled-after-callback")
        ctx.sample({"kind": "LT", "left": "int2^53", "right": "int2^53+1"})
        ctx.sample({"kind": "EQ", "left": "fnan", "right": "fnan"})
    elif spec["name"] == "bool":
        for an in names:
            _one_bool(ctx, t, an)
    elif spec["name"] == "exc":
        for (en, ef), (tn, tg) in itertools.product(EXC_ERRS, EXC_TARGETS):
            _one_exc(ctx, t, en, ef, tn, tg)
        ctx.sample({"kind": "EXC", "err": "MyErr()", "target": "(KeyError,ValueError)"})
    else:
        # random numeric / string pairs around boundaries: exercises the distance formulas themselves
        rng = random.Random(spec["seed"] * 7919 + 4)
        from pynguin.instrumentation import PynguinCompare

        def rnd():
            c = rng.random()
            if c < 0.3:
                return rng.randint(-50, 50)
            if c < 0.45:
                return rng.choice([2**53, 2**63, 2**64, 10**30]) + rng.randint(-3, 3)
            if c < 0.65:
                return rng.choice([rng.uniform(-5, 5), rng.uniform(-1e300, 1e300), rng.random() * 1e-300, float(rng.randint(-3, 3))])
            if c < 0.8:
                return "".join(rng.choice("abAB\x00é") for _ in range(rng.randint(0, 4)))
            if c < 0.9:
                return bytes(rng.randrange(256) for _ in range(rng.randint(0, 3)))
            return rng.choice([True, False, None, (), (1,), [1, 2], {1}, {1, 2}, frozenset(), 1 + 0j])

        for _ in range(spec["n"]):
            a, b = rnd(), rnd()
            if rng.random() < 0.15:
                b = a
            kind = rng.choice(list(PYOPS))
            if kind in ("IN", "NOT_IN"):
                b = rng.choice([[b], (a, b), {1, 2}, "abA", b"ab", {a: 1} if isinstance(a, (int, str, float, bytes, tuple, bool, type(None))) else [a], b])
            try:
                outcome, pyexc = bool(PYOPS[kind](a, b)), None
            except (Exception, V.Cancelled) as e:  # noqa: BLE001
                outcome, pyexc = None, type(e).__name__
            ctx.ok(cls=f"random:{kind}", distinct=f"{kind}|{a!r}|{b!r}" if pyexc is None else None)
            if pyexc:
                continue
            t.init_trace()
            t.enable()
            case = {"kind": kind, "left": repr(a), "right": repr(b)}

            def cl(x):
                if isinstance(x, bool):
                    return "bool"
                if isinstance(x, int):
                    return "int>2**53" if abs(x) >= 2**53 else "int"
                if isinstance(x, float):
                    return "float-huge" if abs(x) > 1e200 else "float"
                return type(x).__name__

            mech = _mech(kind, cl(a), cl(b), a, b)
            try:
                t.executed_compare_predicate(a, b, 0, getattr(PynguinCompare, kind))
            except (Exception, V.Cancelled) as e:  # noqa: BLE001
                ctx.witness(f"{GROUP[kind]}:raises-{type(e).__name__}:{mech}", f"{kind}({a!r},{b!r}) python={outcome} tracer raised {e!r}", case)
                continue
            _check_dists(ctx, t, GROUP[kind], kind, outcome, mech, case)
        _ = math
