"""C05 — tracing keeps recording after an exception inside traced code; enabled state restored.

Workload A (function level): functions of the shape `try: <traced comparison / truthiness / attribute access that
raises> except ...: ...; <more traced code>` called with operands whose operators raise; the lines and branch
outcomes executed AFTER the swallowed exception (ground truth: sys.monitoring on the uninstrumented twin) must be
in the trace, and tracer.is_disabled() after the call must equal its value before.

Workload B (executor level): real TestCaseExecutor, multi-statement test cases whose earlier statements make the
SUT swallow exceptions raised inside tracer callbacks; wrappers around _before/_after_statement_execution read
is_disabled() on the executing thread at the start and end of every statement; covered lines of the whole test are
compared with the twin executing the same statements.
"""

from __future__ import annotations

import importlib
import sys
import types

ID = "C05"
LEVEL = "fault_enumeration"
CHUNK_TIMEOUT = 600
RULE = (
    "fault = an exception raised while a tracer callback evaluates SUT values (partial comparison protocols, raising "
    "__eq__/__bool__/__len__/__contains__, raising properties under CHECKED) and swallowed by the SUT; enumerated over "
    "templates x comparison kinds x raising operand classes x metric subsets; oracle = LINE/BRANCH ground truth for the "
    "code after the exception + enabled flag before/after; distinct by (template, operands, subset); non-trivial when "
    "the twin shows that an exception was swallowed and code ran afterwards"
)
ASSUMPTIONS = [
    "sys.monitoring LINE/BRANCH events on the uninstrumented twin define what was executed after the exception",
    "an exception inside a callback is only expected where Python's own operator raises too (C04)",
]

TEMPLATE = '''
class Raiser:
    def __init__(self, v=0):
        self.v = v

    @property
    def boom(self):
        raise AttributeError("no boom")

    @property
    def fine(self):
        return self.v


def t_cmp_{name}(u, v):
    r = []
    try:
        if u {op} v:
            r.append("T")
        else:
            r.append("F")
    except Exception as exc:
        r.append(type(exc).__name__)
    if len(r) > 0:
        r.append("after")
    for i in range(3):
        if i == 1:
            r.append(i)
    k = 2
    while k > 0:
        k -= 1
    return r


def t_truth(u, v):
    r = []
    try:
        if u:
            r.append("T")
        if not v:
            r.append("F")
    except Exception as exc:
        r.append(type(exc).__name__)
    if r:
        r.append("after")
    else:
        r.append("empty")
    return r + [x for x in range(2) if x]


def t_base(u, v):
    r = []
    try:
        if u == v:
            r.append("T")
        else:
            r.append("F")
    except BaseException as exc:
        r.append(type(exc).__name__)
    if len(r) > 0:
        r.append("after")
    try:
        if v:
            r.append("truthy")
    except:  # noqa: E722
        r.append("bare")
    for i in range(2):
        if i:
            r.append(i)
    try:
        if u < v:
            r.append("lt")
    except BaseException:
        r.append("base2")
    k = 1
    while k > 0:
        k -= 1
    return r


def t_nested(u, v):
    r = []
    for i in range(2):
        try:
            try:
                if u < v:
                    r.append(i)
            finally:
                r.append("fin")
        except TypeError:
            r.append("te")
        except Exception:
            r.append("ex")
        if i:
            r.append("second")
    return r


def t_attr(u, v):
    o = Raiser(1)
    r = []
    try:
        r.append(o.boom)
    except AttributeError:
        r.append("ae")
    if o.fine:
        r.append("fine")
    try:
        if u == v:
            r.append("eq")
    except Exception:
        r.append("ex2")
    if len(r) > 1:
        r.append("after")
    return r
'''
OPS = {"lt": "<", "le": "<=", "eq": "==", "ne": "!=", "in": "in", "notin": "not in", "ge": ">="}
RAISING = ["u-onlylt1", "u-onlyeq1", "u-raiseq", "u-raisebool", "u-raisebase", "u-len0", "u-contains", "u-plain", "int1", "s-a", "none", "fnan", "int10^400",
           "set-1", "l-123", "u-nonbooleq1", "dec1.5", "c1+2j"]
SUBSETS = [("BRANCH",), ("LINE",), ("BRANCH", "LINE"), ("BRANCH", "LINE", "CHECKED"), ("CHECKED",)]


def floors(tier):
    return {"evals": 1500 if tier == "quick" else 15000, "distinct": 500,
            "classes": {"swallowed-exception-then-more-code": 300, "executor:statements-checked": 100, "executor:swallowed": 20,
                        "subset:BRANCH+LINE+CHECKED": 100, "attr-raises-under-CHECKED": 10,
                        "swallowed-base-exception-then-more-code": 30}}


def plan(tier, seed):
    parts = 8 if tier == "quick" else 16
    return [{"name": "functions", "part": p, "parts": parts, "seed": seed, "extra": 0 if tier == "quick" else 2000} for p in range(parts)] + [
        {"name": "executor", "seed": seed, "n": 30 if tier == "quick" else 300}]


def _source():
    parts = [TEMPLATE.split("def t_cmp_{name}")[0]]
    body = "def t_cmp_{name}" + TEMPLATE.split("def t_cmp_{name}")[1].split("def t_truth")[0]
    for name, op in OPS.items():
        parts.append(body.format(name=name, op=op))
    parts.append("def t_truth" + TEMPLATE.split("def t_truth")[1])
    return "\n".join(parts)


def _functions_chunk(spec, ctx):
    import itertools
    import random

    from vlib import instr
    from vlib import values as V
    from vlib.instr_family import metric_set, msg_class

    src = _source()
    fn = str(ctx.scratch / "vp_c05.py")
    open(fn, "w").write(src)
    src_lines = src.splitlines()
    funcs = [f"t_cmp_{n}" for n in OPS] + ["t_truth", "t_nested", "t_attr", "t_base"]
    cases = list(itertools.product(funcs, RAISING, RAISING))
    rng = random.Random(spec["seed"] * 977 + 5)
    names = [n for n, _, _ in V.VALUES]
    cases += [(rng.choice(funcs), rng.choice(names), rng.choice(names)) for _ in range(spec["extra"])]
    cases = cases[spec["part"]::spec["parts"]]
    twin = instr.Twin(src, fn)
    twin.do_import()
    import_lines = {ln for _, ln in twin.import_lines}
    refs = []
    for f, a, b in cases:
        out, lines, branches, entered = twin.call(f, (V.fresh(a), V.fresh(b)))
        swallowed = out.kind == "ret" and any(isinstance(x, str) and (x.endswith("Error") or x in ("te", "ex", "ae", "ex2", "Cancelled", "bare", "base2")) for x in out.value)
        refs.append((out, {ln for _, ln in lines}, branches, swallowed))
    import dis

    from pynguin.instrumentation import version

    for sub in SUBSETS:
        tag = "+".join(sub)
        inst = instr.Instrumented(src, fn, "vp_c05", metric_set(sub))
        try:
            inst.instrument()
            inst.do_import()
        except Exception as e:  # noqa: BLE001
            ctx.ok(cls=f"subset:{tag}")
            ctx.witness(f"instrument:raises-{type(e).__name__}:{msg_class(str(e))}", f"instrumenting under {{{tag}}} raised {e!r}", {"subset": tag})
            continue
        preds = inst.predicates_by_code()
        pid_of = {(key, o): p[0] for key, ps in preds.items() for o, p in enumerate(ps)}
        op_of = {(key, o): j["op"] for key, js in twin.jumps.items() for o, j in enumerate(js)}
        registered = {m.line_number for m in inst.sp.existing_lines.values()}
        for (f, a, b), (ref, call_lines, branches, swallowed) in zip(cases, refs):
            before = inst.tracer.is_disabled()
            got, trace, left_disabled = inst.call(f, (V.fresh(a), V.fresh(b)))
            cl = [f"subset:{tag}"]
            if swallowed:
                cl.append("swallowed-exception-then-more-code")
            if ref.kind == "ret" and any(x in ("Cancelled", "bare", "base2") for x in ref.value if isinstance(x, str)):
                cl.append("swallowed-base-exception-then-more-code")
            if f == "t_attr" and "CHECKED" in sub:
                cl.append("attr-raises-under-CHECKED")
            ctx.ok(cls=cl, distinct=f"{f}|{a}|{b}|{tag}" if swallowed else None)
            case = {"function": f, "args": [a, b], "subset": tag}
            if left_disabled:
                ctx.witness("tracer-left-disabled-after-call", f"{f}({a},{b}) under {{{tag}}}: tracer.is_disabled() is True after the call (before: {before})", case)
                continue
            if instr.same_outcome(ref, got):
                ctx.anomaly("behaviour-differs(C01)-call-skipped")
                continue
            if "LINE" in sub:
                expected = (import_lines | call_lines) & registered
                reported = {ln for _, ln in inst.covered_lines(trace)}
                missing = expected - reported
                if missing:
                    ln = min(missing)
                    ctx.witness("line-after-exception-not-recorded" if swallowed else "line-not-recorded",
                                f"{f}({a},{b}) under {{{tag}}}: executed lines {sorted(missing)} missing from the trace, e.g. {ln}: {src_lines[ln - 1].strip()!r}; twin result {ref.value!r}", case)
                    continue
            if "BRANCH" in sub:
                def outcome(k, o, j):
                    lab = version.get_branch_type(dis.opmap[op_of[(k, o)]])
                    return lab if j else (not lab)

                expected = {(pid_of[(k, o)], outcome(k, o, j)) for (k, o, j) in (branches | twin.import_branches) if (k, o) in pid_of}
                reported = {(p, True) for p in trace.executed_predicates if trace.true_distances.get(p) == 0.0} | {
                    (p, False) for p in trace.executed_predicates if trace.false_distances.get(p) == 0.0}
                missing = expected - reported
                if missing:
                    # a predicate whose own evaluation raised has no outcome: the twin reports no BRANCH event for it either
                    p, o = sorted(missing)[0]
                    ln = inst.sp.existing_predicates[p].line_no
                    iter_op = V.vclass(b) in ("oneshot", "generator") and " in " in src_lines[ln - 1]
                    if not iter_op:
                        ctx.witness("branch-after-exception-not-recorded" if swallowed else "branch-not-recorded",
                                    f"{f}({a},{b}) under {{{tag}}}: outcomes {sorted(missing)} taken but not recorded, e.g. line {ln}: {src_lines[ln - 1].strip()!r}", case)
        if len(ctx.samples) < 4:
            (f, a, b), (ref, *_r) = cases[0], refs[0]
            ctx.sample({"call": f"{f}({a}, {b})", "twin_result": repr(ref.value), "subset": tag})


SUT_B = '''
class Odd:
    def __init__(self, v):
        self.v = v

    def __lt__(self, other):
        return self.v < other.v

    def __bool__(self):
        if self.v < 0:
            raise RuntimeError("negative has no truth")
        return bool(self.v)


def swallow(a, b):
    try:
        if a <= b:
            return "le"
        return "gt"
    except TypeError:
        return "unordered"


def truth(o):
    try:
        if o:
            return "yes"
        return "no"
    except RuntimeError:
        return "raised"


def later(n):
    total = 0
    for i in range(n):
        if i % 2:
            total += i
        else:
            total -= 1
    if total > 2:
        return "big"
    return "small"
'''


def _executor_chunk(spec, ctx):
    import random

    import libcst as cst

    import pynguin.configuration as config
    import pynguin.testcase.testcase as tc

    from pynguin.instrumentation.machinery import install_import_hook
    from pynguin.instrumentation.tracer import SubjectProperties
    from pynguin.testcase.execution import TestCaseExecutor
    from pynguin.utils.naming import get_module_alias
    from vlib import instr

    modname = "vp_c05_sut"
    path = ctx.scratch / f"{modname}.py"
    path.write_text(SUT_B)
    sys.path.insert(0, str(ctx.scratch))
    importlib.invalidate_caches()
    config.configuration.module_name = modname
    config.configuration.project_path = str(ctx.scratch)
    alias = get_module_alias(modname)
    rng = random.Random(spec["seed"] * 31 + 55)
    twin = instr.Twin(SUT_B, str(path))
    twin.do_import()
    import_lines = {ln for _, ln in twin.import_lines}
    stmts_pool = [
        ("var_{i} = {m}.Odd({v})", True), ("var_{i} = {m}.swallow({m}.Odd(1), {m}.Odd(2))", True), ("var_{i} = {m}.swallow({m}.Odd(1), 5)", True),
        ("var_{i} = {m}.truth({m}.Odd(-1))", True), ("var_{i} = {m}.truth({m}.Odd(0))", True), ("var_{i} = {m}.later({v})", True),
        ("var_{i} = {m}.swallow('a', 3)", True), ("var_{i} = {m}.swallow(2.5, float('nan'))", True),
    ]
    for metrics in ([config.CoverageMetric.BRANCH, config.CoverageMetric.LINE], [config.CoverageMetric.BRANCH, config.CoverageMetric.LINE, config.CoverageMetric.CHECKED]):
        sp = SubjectProperties()
        sys.modules.pop(modname, None)
        with install_import_hook(modname, sp, set(metrics), config.ToCoverConfiguration()):
            with sp.instrumentation_tracer:
                importlib.import_module(modname)
        ex = TestCaseExecutor(sp, maximum_test_execution_timeout=10, test_execution_time_per_statement=5)
        flags: list = []
        orig_before, orig_after = ex._before_statement_execution, ex._after_statement_execution  # noqa: SLF001

        def before(statement, namespace, _o=orig_before, _sp=sp):
            flags.append(("start", _sp.instrumentation_tracer.is_disabled()))
            return _o(statement, namespace)

        def after(statement, namespace, exception, _o=orig_after, _sp=sp):
            r = _o(statement, namespace, exception)
            flags.append(("end", _sp.instrumentation_tracer.is_disabled()))
            return r

        ex._before_statement_execution, ex._after_statement_execution = before, after  # noqa: SLF001
        registered = {m.line_number for m in sp.existing_lines.values()}
        for t in range(spec["n"]):
            n = rng.randint(3, 7)
            codes = []
            for i in range(n):
                tmpl, _ = rng.choice(stmts_pool) if i else stmts_pool[rng.choice([1, 2, 3, 6, 7])]
                codes.append(tmpl.format(i=i, m=alias, v=rng.randint(-2, 7)))
            test = tc.TestCase()
            for i, code in enumerate(codes):
                test.add_statement(tc.Statement(node=cst.parse_module(code + "\n").body[0], bound_variable=f"var_{i}"))
            flags.clear()
            res = ex.execute(test)
            # ground truth: same statements on the twin
            ns = {alias: types.SimpleNamespace(**{k: v for k, v in twin.ns.items() if not k.startswith("__")})}
            twin._start()  # noqa: SLF001
            results = []
            try:
                for code in codes:
                    try:
                        exec(code, ns)  # noqa: S102
                    except Exception as e:  # noqa: BLE001
                        results.append(type(e).__name__)
                        break
            finally:
                twin._stop()  # noqa: SLF001
            lines, _b, _e = twin._collect()  # noqa: SLF001
            call_lines = {ln for _, ln in lines}
            swallowed = any(ns.get(f"var_{i}") in ("unordered", "raised") for i in range(n))
            ctx.ok(len(codes), cls=["executor:statements-checked"] + (["executor:swallowed"] if swallowed else []),
                   distinct="|".join(codes) + str(len(metrics)) if swallowed else None)
            case = {"statements": codes, "metrics": [m.name for m in metrics]}
            if res.timeout:
                ctx.witness("executor:no-result", f"execution of {codes} returned timeout=True", case)
                continue
            starts = [v for k, v in flags if k == "start"]
            ends = [v for k, v in flags if k == "end"]
            if any(s != e for s, e in zip(starts, ends)) or any(starts) or any(ends):
                ctx.witness("executor:enabled-state-differs-across-statement", f"is_disabled at statement start/end: {list(zip(starts, ends))}", case)
                continue
            reported = set(sp.lineids_to_linenos(res.execution_trace.covered_line_ids))
            expected = (import_lines | call_lines) & registered
            # The tracer evaluates the operator itself (tracing disabled) before the SUT does; when that evaluation raises,
            # the SUT never runs the operator, so the operator's own body lines are executed only untraced.  They are
            # executed *during* the raising evaluation, not after it: outside the statement, recorded as anomaly.
            op_body = {10, 11}
            if (expected - reported) and (expected - reported) <= op_body:
                ctx.anomaly("operator-body-lines-unrecorded-when-operator-raises-inside-tracer-callback")
                expected -= op_body
                reported -= op_body
            if reported != expected:
                ctx.witness("executor:lines-after-exception-differ:" + ("missing" if expected - reported else "extra"),
                            f"missing {sorted(expected - reported)} extra {sorted(reported - expected)} for {codes}", case)
        if len(ctx.samples) < 6:
            ctx.sample({"test": codes, "twin_values": {k: repr(v) for k, v in ns.items() if k.startswith("var_")}})


def run_chunk(spec, ctx):
    if spec["name"] == "functions":
        _functions_chunk(spec, ctx)
    else:
        _executor_chunk(spec, ctx)
