"""C06 — CFG well-formedness and CDG == Ferrante control dependence, on real code objects.

The real CFG.from_bytecode / ControlDependenceGraph.compute run on every code object of the generated
program corpus and of pure-Python stdlib modules; an independent iterative post-dominator computation
(vlib/pdom.py) over the same augmented CFG provides the reference edge set.
"""

from __future__ import annotations

import importlib.util
import random

ID = "C06"
LEVEL = "exploration"
RULE = (
    "every code object of generated modules (vlib/progs.py) and of ~30 pure-Python stdlib modules; real CFG/CDG built "
    "as the transformer does; oracle = iterative post-dominator sets + the Ferrante definition applied literally; "
    "distinct by CFG shape (sorted labelled edge list over block indices); non-trivial = has at least one branch node"
)
ASSUMPTIONS = [
    "the CFG built by pynguin is taken as the graph on which the definition is checked (its own well-formedness is checked separately)",
    "an edge (A,B) that the definition labels with both outcomes may carry either label in the real CDG (a DiGraph holds one)",
]


def floors(tier):
    return {"evals": 2000 if tier == "quick" else 12000, "distinct": 300,
            "classes": {"has-loop": 200, "has-handler": 100, "has-branch": 500, "stdlib": 300, "generated": 1000, "generator-function": 5,
                        "infinite-loop": 3}}


DIRECTED = '''
def spin(a):
    while True:
        a += 1

def spin2(a, b):
    while 1:
        if a:
            a -= 1
        else:
            b += 1

def spin3(a):
    for i in a:
        while True:
            pass

def spin_break(a):
    while True:
        a += 1
        if a > 10:
            break
    return a

def spin_try(a):
    while True:
        try:
            a = f(a)
        except ValueError:
            continue

def except_as_continue(xs):
    out = []
    for x in xs:
        try:
            out.append(f(x))
        except ValueError as exc:
            continue
        except (KeyError, OSError) as err:
            break
        out.append(x)
    while xs:
        try:
            xs = g(xs)
        except Exception as e:
            break
    return out

def gen(n):
    for i in range(n):
        if i % 2:
            yield i
    yield -1

async def co(x):
    async with x as y:
        async for z in y:
            if z:
                return z

def nested_try(a):
    try:
        try:
            a = f(a)
        finally:
            a += 1
    except (KeyError, ValueError) as e:
        a = 0
    else:
        a = 1
    finally:
        a += 2
    return a

def with_return(a):
    with a as b:
        if b:
            return 1
    return 2

def only_return():
    return 1

def loop_else(l):
    for x in l:
        if x:
            break
    else:
        return -1
    while l:
        l = l[1:]
    else:
        l = None
    return l

def match_(x):
    match x:
        case [a, b] if a > b:
            return 1
        case {"k": v}:
            return v
        case str() | bytes():
            return 2
        case _:
            return 3

def boolops(a, b, c):
    return (a and b) or (not c and (a or b)) if a is not None else [i for i in b if i in c]

def assert_(a):
    assert a > 0, "msg"
    return a

def raise_only(a):
    raise ValueError(a)
'''


def plan(tier, seed):
    n = 200 if tier == "quick" else 2000
    per = 25 if tier == "quick" else 125
    specs = [{"name": "directed+stdlib"}]
    for i in range(0, n, per):
        specs.append({"name": "generated", "seed": seed, "start": i, "n": per})
    return specs


def _check_code(ctx, code, origin):
    from bytecode import Bytecode

    import pynguin.instrumentation.controlflow as cf

    from pynguin.instrumentation import version
    from vlib import pdom

    case = {"origin": origin, "name": code.co_qualname, "firstlineno": code.co_firstlineno}
    try:
        cfg = cf.CFG.from_bytecode(version.add_for_loop_no_yield_nodes(Bytecode.from_code(code)))
    except Exception as e:  # noqa: BLE001
        ctx.ok()
        ctx.witness(f"cfg:raises-{type(e).__name__}", f"CFG.from_bytecode raised {e!r} on {origin}:{code.co_qualname}", case)
        return
    g = cfg.graph
    EN, EX, AUG = cf.ArtificialNode.ENTRY, cf.ArtificialNode.EXIT, cf.ArtificialNode.AUGMENTED_ENTRY

    def lab(d):
        return d.get(cf.EDGE_DATA_BRANCH_VALUE, None)

    succ = {n: [(t, lab(d)) for _, t, d in g.out_edges(n, data=True)] for n in g.nodes}
    classes = ["stdlib" if origin.startswith("stdlib:") else ("generated" if origin.startswith("gen:") else "directed")]
    branch_nodes = [n for n in g.nodes if len(succ[n]) > 1]
    if branch_nodes:
        classes.append("has-branch")
    import networkx as nx

    if any(True for _ in nx.simple_cycles(g)):
        classes.append("has-loop")
    if code.co_exceptiontable:
        classes.append("has-handler")
    if code.co_flags & 0x20 or code.co_flags & 0x200 or code.co_flags & 0x80:
        classes.append("generator-function")
    shape = sorted((str(getattr(a, "index", a)), str(getattr(b, "index", b)), str(l)) for a in succ for b, l in succ[a])
    ctx.ok(cls=classes, distinct=shape if branch_nodes else None)
    # ---- CFG well-formedness
    indeg0 = [n for n in g.nodes if g.in_degree(n) == 0]
    outdeg0 = [n for n in g.nodes if g.out_degree(n) == 0]
    if indeg0 != [EN] and set(indeg0) != {EN}:
        ctx.witness("cfg:entry-not-unique", f"in-degree-0 nodes {indeg0}", case)
        return
    if set(outdeg0) != {EX}:
        ctx.witness("cfg:exit-not-unique", f"out-degree-0 nodes {outdeg0}", case)
        return
    if pdom.reachable(EN, succ) != set(g.nodes):
        ctx.witness("cfg:unreachable-from-entry", f"{set(g.nodes) - pdom.reachable(EN, succ)} not reachable", case)
        return
    pred = {n: [(s, None) for s in g.predecessors(n)] for n in g.nodes}
    if pdom.reachable(EX, pred) != set(g.nodes):
        ctx.witness("cfg:cannot-reach-exit", f"{set(g.nodes) - pdom.reachable(EX, pred)} cannot reach EXIT", case)
        return
    # branch labelling: conditional nodes have exactly a True and a False edge
    for n in branch_nodes:
        labels = sorted(str(l) for t, l in succ[n] if not (l is None and t is EX))  # yield / infinite-loop nodes get an extra unlabelled EXIT edge
        if any(l is not None for _, l in succ[n]) and labels != ["False", "True"]:
            ctx.witness("cfg:branch-labels", f"node {n} has successor labels {labels}", case)
            return
    # infinite-loop class: EXIT has a predecessor that is not a returning/raising block end
    if any(True for _ in g.predecessors(EX)) and any(g.out_degree(p) > 1 or any(t is not EX for t, _ in succ[p]) for p in g.predecessors(EX)):
        if not (code.co_flags & 0x20 or code.co_flags & 0x200 or code.co_flags & 0x80):
            classes.append("infinite-loop")
            ctx.cls("infinite-loop")
    # ---- CDG vs definition
    try:
        cdg = cf.ControlDependenceGraph.compute(cfg)
    except Exception as e:  # noqa: BLE001
        ctx.witness(f"cdg:raises-{type(e).__name__}", f"ControlDependenceGraph.compute raised {e!r}", case)
        return
    aug_nodes = list(g.nodes) + [AUG]
    aug_succ = dict(succ)
    aug_succ[AUG] = [(EN, None), (EX, None)]
    exp, _pd = pdom.ferrante_edges(aug_nodes, aug_succ, EX)
    exp = {(a, b): ls for (a, b), ls in exp.items() if a not in (EN, EX) and b not in (EN, EX)}
    real = {(a, b): lab(d) for a, b, d in cdg.graph.edges(data=True)}
    if set(real) != set(exp):
        missing = sorted(str(e) for e in set(exp) - set(real))[:5]
        extra = sorted(str(e) for e in set(real) - set(exp))[:5]
        ctx.witness("cdg:edge-set-differs" + (":missing" if missing else "") + (":extra" if extra else ""),
                    f"missing {missing} extra {extra}", {**case, "cfg_edges": [str(s) for s in shape][:80]})
        return
    for e, l in real.items():
        if l not in exp[e]:
            ctx.witness("cdg:edge-label-differs", f"edge {e} has label {l}, definition gives {exp[e]}", case)
            return
    if set(cdg.graph.nodes) != set(aug_nodes) - {EN, EX}:
        ctx.witness("cdg:node-set-differs", f"{set(cdg.graph.nodes) ^ (set(aug_nodes) - {EN, EX})}", case)
        return
    # ---- root dependence and nearest labelled dependencies, from the definition on the expected graph
    exp_pred: dict = {}
    for (a, b), ls in exp.items():
        exp_pred.setdefault(b, []).append((a, ls))

    def exp_root(n, seen):
        for a, ls in exp_pred.get(n, []):
            if a is AUG:
                return True
        for a, ls in exp_pred.get(n, []):
            if a in seen or a == n or ls != {None}:
                continue
            seen.add(a)
            if exp_root(a, seen):
                return True
        return False

    def exp_deps(n, handled):
        res = set()
        for a, ls in exp_pred.get(n, []):
            if (a, n) in handled:
                continue
            handled.add((a, n))
            if isinstance(a, cf.BasicBlockNode) and ls != {None}:
                res.add((a, real[(a, n)]))
            else:
                res |= exp_deps(a, handled)
        return res

    for n in cdg.graph.nodes:
        if n is AUG:
            continue
        try:
            r = cdg.is_control_dependent_on_root(n)
            deps = {(d.node, d.branch_value) for d in cdg.get_control_dependencies(n)}
        except Exception as e:  # noqa: BLE001
            ctx.witness(f"cdg:query-raises-{type(e).__name__}", f"query on {n} raised {e!r}", case)
            return
        if r != exp_root(n, set()):
            ctx.witness("cdg:root-dependence-differs", f"is_control_dependent_on_root({n})={r}, definition {not r}", case)
            return
        if deps != exp_deps(n, set()):
            ctx.witness("cdg:control-dependencies-differ", f"get_control_dependencies({n})={deps} expected {exp_deps(n, set())}", case)
            return
        if not r and not deps:
            ctx.witness("cdg:node-depends-on-nothing", f"{n} is neither root-dependent nor dependent on a branch", case)
            return
    if len(ctx.samples) < 4 and len(branch_nodes) >= 2:
        ctx.sample({"code": f"{origin}:{code.co_qualname}", "blocks": g.number_of_nodes(), "cdg_edges": [f"{getattr(a, 'index', a)}->{getattr(b, 'index', b)}:{l}" for (a, b), l in list(real.items())[:12]]})


def run_chunk(spec, ctx):
    from vlib import progs

    if spec["name"] == "directed+stdlib":
        code = compile(DIRECTED, "directed.py", "exec")
        for c in progs.code_objects_of(code):
            _check_code(ctx, c, "directed")
        for m in progs.STDLIB_MODULES:
            try:
                sp = importlib.util.find_spec(m)
                src = open(sp.origin).read()
                code = compile(src, sp.origin, "exec")
            except Exception:  # noqa: BLE001
                continue
            for c in progs.code_objects_of(code):
                _check_code(ctx, c, f"stdlib:{m}")
        return
    for i in range(spec["start"], spec["start"] + spec["n"]):
        p = progs.generate(spec["seed"], i)
        code = compile(p["source"], f"gen_{spec['seed']}_{i}.py", "exec")
        for c in progs.code_objects_of(code):
            if c.co_qualname in ("CM", "Acc", "raiser", "helper", "gen_upto", "make_adder", "<lambda>") or c.co_qualname.startswith(("CM.", "Acc.", "make_adder.")):
                if i != spec["start"]:
                    continue  # the fixed prelude is checked once per chunk
            _check_code(ctx, c, f"gen:{spec['seed']}:{i}")
    _ = random
