"""C07 — every branch goal is reachable in the DynaMOSA goal graph.

For each module (with and without exclusions): instrument with BRANCH through the real transformer, build
the real BranchGoalPool / fitness functions / _GoalsManager (which builds _BranchFitnessGraph), and drive the
real _GoalsManager.update with a stub archive that declares every *current* goal covered.  Reachability is
observed on the real object: at the fixpoint every goal must have been a current goal.  Also: every control
dependency of a registered predicate must resolve to a registered predicate (building the graph never fails).
"""

from __future__ import annotations

import random

ID = "C07"
LEVEL = "exploration"
CHUNK_TIMEOUT = 900
RULE = (
    "generated modules (nested/sequential branches, loops, handlers, early returns, match, comprehensions, nested "
    "functions, classes) instrumented with BRANCH, ~50% with random no-cover markers / no_cover / only_cover names; the "
    "real _GoalsManager is driven with a stub archive covering every current goal each round; oracle = the simulation "
    "itself (a goal that never becomes current, or an exception while building the graph, is a witness); distinct by "
    "(program, exclusion configuration); non-trivial when the module has >= 4 branch goals"
)
ASSUMPTIONS = [
    "the stub archive implements add_goals / update / covered_goals exactly as _GoalsManager uses them",
    "goal-graph construction is exercised per module (all code objects of the module at once), as DynaMOSA does",
]


def floors(tier):
    return {"evals": 150 if tier == "quick" else 3000, "distinct": 100,
            "classes": {"with-exclusions": 40, "without-exclusions": 40, "goals>=20": 60, "has-non-root-goals": 100,
                        "directed:await-or-yield-from-in-branch": 5}}


def plan(tier, seed):
    n = 160 if tier == "quick" else 3200
    per = 10 if tier == "quick" else 80
    return [{"name": "directed"}] + [{"name": "generated", "seed": seed, "start": i, "n": per} for i in range(0, n, per)]


class StubArchive:
    def __init__(self):
        self.goals = []
        self.covered = []
        self.ever = []

    def add_goals(self, goals):
        for g in goals:
            if g not in self.goals:
                self.goals.append(g)
            if g not in self.ever:
                self.ever.append(g)

    def update(self, solutions):
        for g in self.goals:
            if g not in self.covered:
                self.covered.append(g)
        return True

    @property
    def covered_goals(self):
        from pynguin.utils.orderedset import OrderedSet

        return OrderedSet(self.covered)

    @property
    def uncovered_goals(self):
        from pynguin.utils.orderedset import OrderedSet

        return OrderedSet([g for g in self.goals if g not in self.covered])


DIRECTED = '''
def early(a, b):
    if a:
        return 1
    if b:
        if a > b:
            return 2
        while b:
            b -= 1
            if b == 3:
                break
        else:
            return 3
    try:
        a = 1 // b
    except ZeroDivisionError:
        if a:
            return 4
    finally:
        a += 1
    for i in range(a):
        if i:
            continue
    return [x for x in range(a) if x % 2] if a else None


def spin(a):
    while True:
        if a:
            a -= 1
        else:
            return a


class K:
    def m(self, v):
        match v:
            case 1:
                return "one"
            case [x, y] if x:
                return "pair"
            case _:
                return None

    def gen(self, n):
        for i in range(n):
            if i % 2:
                yield i


# await / yield from inside branches and loops: the SEND / YIELD_VALUE loop of 3.12 forms cycles of non-predicate CDG nodes
async def fetch(x):
    return x - 1


async def poll(x):
    while x:
        x = await fetch(x)
    return x


async def two_step(x):
    if x:
        y = await fetch(x)
        if y:
            return y
    return 0


def relay(x, g):
    if x:
        y = yield from g
        if y:
            return y
    return 0


async def agen_user(src, limit):
    async for item in src:
        if item > limit:
            break
        async with item:
            if limit:
                limit -= 1
    return limit
'''


def _one(ctx, prog, source, modname, to_cover, tag, case):
    from vlib import instr
    from vlib.instr_family import metric_set, msg_class

    import pynguin.ga.coveragegoals as bg

    from pynguin.ga.algorithms.dynamosaalgorithm import _GoalsManager
    from pynguin.utils.orderedset import OrderedSet

    filename = str(ctx.scratch / f"{modname}.py")
    open(filename, "w").write(source)
    inst = instr.Instrumented(source, filename, modname, metric_set(("BRANCH",)), to_cover)
    try:
        inst.instrument()
    except Exception as e:  # noqa: BLE001
        ctx.ok(cls=[tag])
        ctx.witness(f"instrument:raises-{type(e).__name__}:{msg_class(str(e))}", f"instrumenting raised {e!r}", case)
        return
    sp = inst.sp
    pool = bg.BranchGoalPool(sp)
    ffs = bg.create_branch_coverage_fitness_functions(None, pool)
    n_goals = len(ffs)
    cl = [tag] + (["goals>=20"] if n_goals >= 20 else []) + (["directed:await-or-yield-from-in-branch"] if "await fetch" in source else [])
    archive = StubArchive()
    try:
        manager = _GoalsManager(OrderedSet(ffs), archive, sp)
    except Exception as e:  # noqa: BLE001
        import traceback

        frames = [f.name for f in traceback.extract_tb(e.__traceback__)]
        ctx.ok(cls=cl, distinct=f"{prog}|{tag}|{case.get('marked')}|{case.get('no_cover')}|{case.get('only_cover')}" if n_goals >= 4 else None)
        ctx.witness(f"goal-graph:construction-raises-{type(e).__name__}:{frames[-1]}:{tag}", f"building the goal graph raised {type(e).__name__}: {str(e)[:160]}", case)
        return
    roots = len(manager.current_goals)
    if roots < n_goals:
        cl.append("has-non-root-goals")
    ctx.ok(cls=cl, distinct=f"{prog}|{tag}|{case.get('marked')}|{case.get('no_cover')}|{case.get('only_cover')}" if n_goals >= 4 else None)
    try:
        for _ in range(3):
            manager.update([])
    except Exception as e:  # noqa: BLE001
        ctx.witness(f"goal-graph:update-raises-{type(e).__name__}:{tag}", f"_GoalsManager.update raised {e!r}", case)
        return
    never = [f for f in ffs if f not in archive.ever]
    if never:
        g = never[0].goal
        meta = sp.existing_predicates.get(getattr(g, "predicate_id", -1))
        line = meta.line_no if meta else None
        text = source.splitlines()[line - 1].strip()[:70] if isinstance(line, int) else ""
        kind = "except" if text.startswith("except") else ("for" if text.startswith("for") else ("while" if text.startswith("while") else ("case" if text.startswith("case") else "other")))
        ctx.witness(f"goal-never-current:{kind}:{tag}", f"{len(never)} of {n_goals} goals never become current (roots: {roots}); e.g. {g} at line {line}: {text!r}", case)
        return
    # every control dependency of a registered predicate resolves to a registered predicate
    by_node = {(m.code_object_id, m.node): pid for pid, m in sp.existing_predicates.items()}
    for pid, meta in sp.existing_predicates.items():
        cdg = sp.existing_code_objects[meta.code_object_id].cdg
        for dep in cdg.get_control_dependencies(meta.node):
            if (meta.code_object_id, dep.node) not in by_node:
                ctx.witness(f"control-dependency-on-unregistered-predicate:{tag}", f"predicate {pid} (line {meta.line_no}) depends on node {dep.node.index} which is not a registered predicate", case)
                return
    if len(ctx.samples) < 5 and roots < n_goals:
        ctx.sample({"program": prog, "config": tag, "goals": n_goals, "root_goals": roots, "rounds_to_fixpoint": "<=3"})


def run_chunk(spec, ctx):
    import pynguin.configuration as config

    from vlib import exclgen
    from vlib.instr_family import ProgramCase

    if spec["name"] == "directed":
        _one(ctx, "directed", DIRECTED, "vg_directed", config.ToCoverConfiguration(), "without-exclusions", {"program": "directed"})
        for names in (["early"], ["K.m"], ["K"], ["spin", "K.gen"], ["poll"], ["two_step", "relay"]):
            _one(ctx, "directed", DIRECTED, "vg_directed_" + "_".join(n.replace(".", "") for n in names), config.ToCoverConfiguration(no_cover=list(names)), "with-exclusions",
                 {"program": "directed", "no_cover": names})
            _one(ctx, "directed", DIRECTED, "vg_directed_o_" + "_".join(n.replace(".", "") for n in names), config.ToCoverConfiguration(only_cover=list(names)), "with-exclusions",
                 {"program": "directed", "only_cover": names})
        return
    rng = random.Random(spec["seed"] * 13 + spec["start"])
    for i in range(spec["start"], spec["start"] + spec["n"]):
        pc = ProgramCase(spec["seed"], i, ctx.scratch)
        if i % 2 == 0:
            _one(ctx, [spec["seed"], i], pc.prog["source"], f"vg_{spec['seed']}_{i}", config.ToCoverConfiguration(), "without-exclusions", {"program": [spec["seed"], i]})
        else:
            ann = exclgen.annotate(pc.prog["source"], rng, rng.choice(["markers", "markers", "no_cover", "only_cover", "mixed"]))
            to_cover = config.ToCoverConfiguration(no_cover=list(ann["no_cover"]), only_cover=list(ann["only_cover"]))
            _one(ctx, [spec["seed"], i], ann["source"], f"vg_{spec['seed']}_{i}", to_cover, "with-exclusions",
                 {"program": [spec["seed"], i], "marked": {str(k): list(v) for k, v in ann["marked"].items()}, "no_cover": ann["no_cover"], "only_cover": ann["only_cover"]})
