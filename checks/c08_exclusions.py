"""C08 — coverage exclusions remove exactly the excluded code from the goals.

The generator inserts the exclusion markers itself, so the excluded line ranges are ground truth by
construction (vlib/exclgen.py computes them with an independent AST walk).  The module is instrumented by the
real transformer with the real ToCoverConfiguration; then (1) no line goal, predicate or code-object goal may lie
inside excluded code, (2) every line the interpreter executes (sys.monitoring, twin) outside excluded code —
inside the only-cover scopes when given — must be a line goal.
"""

from __future__ import annotations

import random

ID = "C08"
LEVEL = "exploration"
CHUNK_TIMEOUT = 900
RULE = (
    "generated programs annotated with 1-6 random '# pragma: no cover' / '# pynguin: no cover' markers on def/class/if/"
    "elif/else/for/while/loop-else/try/except/try-else/finally/match/case/simple-statement lines, or random no_cover / "
    "only_cover scope names (functions, classes, Class.method), always with a __main__ and a TYPE_CHECKING block; oracle = "
    "excluded line set computed independently from the inserted markers + LINE ground truth of the twin; distinct by "
    "(program, marker placement, names); non-trivial when at least one marker/name/auto-block excludes a line that has code"
)
ASSUMPTIONS = [
    "marker semantics = Coverage.py's clause semantics the user documentation refers to; markers are not placed where the "
    "documentation leaves the treatment open (with-headers, decorator lines, multi-line expressions)",
    "'executable line' = a line with a LINE event in some execution of the uninstrumented twin",
    "with only_cover, the own lines of scopes that enclose a target (module body, enclosing class body) may be goals (parents stay in cover by design)",
]
KINDS = ["def", "def-decorated", "class", "if", "elif", "else", "for", "while", "loop-else", "try", "except", "try-else", "finally", "match", "case", "simple"]


def floors(tier):
    return {"evals": 200 if tier == "quick" else 2000, "distinct": 120,
            "classes": {**{f"marker:{k}": 6 for k in KINDS if k not in ("def-decorated", "class", "try-else")}, "marker:def-decorated": 2, "marker:class": 2,
                        "marker:try-else": 3, "style:no_cover": 8, "style:only_cover": 8, "auto:__main__": 100, "auto:TYPE_CHECKING": 100,
                        "inline-markers-disabled": 6}}


def plan(tier, seed):
    n = 112 if tier == "quick" else 2400
    per = 7 if tier == "quick" else 60
    return [{"name": "directed"}] + [{"name": "generated", "seed": seed, "start": i, "n": per} for i in range(0, n, per)]


def _one(ctx, prog, ann, modname, scratch, calls, materialise, rng, disable_inline=False):
    import pynguin.configuration as config

    from vlib import exclgen, instr
    from vlib.instr_family import metric_set, msg_class

    source = ann["source"]
    filename = str(scratch / f"{modname}.py")
    open(filename, "w").write(source)
    marked = ann["marked"]
    to_cover = config.ToCoverConfiguration(no_cover=list(ann["no_cover"]), only_cover=list(ann["only_cover"]))
    if disable_inline:
        to_cover.enable_inline_pragma_no_cover = False
        to_cover.enable_inline_pynguin_no_cover = False
    eff_marked = {} if disable_inline else marked
    excluded = exclgen.excluded_lines(source, set(eff_marked), ann["no_cover"])
    per_marker = {ln: exclgen.excluded_lines(source, {ln}) - exclgen.excluded_lines(source, set()) for ln in eff_marked}
    auto = exclgen.excluded_lines(source, set())
    names_ex = exclgen.excluded_lines(source, set(), ann["no_cover"]) - auto
    only_lines = exclgen.scope_lines(source, ann["only_cover"]) if ann["only_cover"] else None
    src_lines = source.splitlines()

    def why(ln):
        for m, s in per_marker.items():
            if ln in s:
                return f"marker-on-{eff_marked[m][0]}"
        if ln in names_ex:
            return "no_cover-name"
        if ln in auto:
            return "auto-block:" + ("__main__" if "__main__" in "\n".join(src_lines[max(0, ln - 8):ln]) else "TYPE_CHECKING")
        return "?"

    import ast as _ast

    _tree = _ast.parse(source)
    _scopes = [n for n in _ast.walk(_tree) if isinstance(n, (_ast.FunctionDef, _ast.AsyncFunctionDef, _ast.ClassDef, _ast.Lambda, _ast.ListComp, _ast.SetComp, _ast.DictComp, _ast.GeneratorExp))]

    def root_cause(ln):
        """Mechanism of an offending goal at line ln (features of the goal's position only)."""
        text = src_lines[ln - 1].strip()
        inner = [n for n in _scopes if n.lineno <= ln <= (n.end_lineno or n.lineno)]
        inner.sort(key=lambda n: (n.end_lineno or n.lineno) - n.lineno)
        w = why(ln)
        if any(getattr(n, "decorator_list", None) for n in inner):
            return "goal-in-decorated-function"
        if w == "no_cover-name":
            # a scope named in no_cover that is defined inside a control-flow statement (not directly in its parent's body)
            parents = {}
            for par in _ast.walk(_tree):
                for ch in _ast.iter_child_nodes(par):
                    parents[ch] = par
            for n in inner:
                if isinstance(n, (_ast.FunctionDef, _ast.AsyncFunctionDef, _ast.ClassDef)) and not isinstance(parents.get(n), (_ast.Module, _ast.FunctionDef, _ast.AsyncFunctionDef, _ast.ClassDef)):
                    return "no_cover-name:scope-defined-inside-control-flow-statement"
        if w == "marker-on-else":
            # 'else:' + a body that is a single if-statement has the same AST as 'elif'
            for n in _ast.walk(_tree):
                if isinstance(n, _ast.If) and len(n.orelse) == 1 and isinstance(n.orelse[0], _ast.If) and n.orelse[0].lineno <= ln <= (n.orelse[0].end_lineno or ln) \
                        and any(m in eff_marked for m in range((n.body[-1].end_lineno or 0) + 1, n.orelse[0].lineno)):
                    return "marker-on-else:else-body-is-a-single-if-statement"
        if text.startswith("except"):
            return "exception-match-predicate"
        if text.startswith("assert"):
            return "assert-predicate:" + w
        # the innermost scope containing the goal starts inside the excluded region but is not itself the marked construct
        if inner and inner[0].lineno in excluded and not (inner[0].lineno in eff_marked) and w.startswith("marker-on-") and w not in ("marker-on-def", "marker-on-class", "marker-on-def-decorated"):
            return "nested-scope-defined-inside-excluded-block"
        return w

    cls = [f"style:{ann['style']}", "auto:__main__", "auto:TYPE_CHECKING"] + [f"marker:{k}" for k, _m in eff_marked.values()]
    if disable_inline:
        cls.append("inline-markers-disabled")
    case = {"program": prog, "marked": {str(k): list(v) for k, v in marked.items()}, "no_cover": ann["no_cover"], "only_cover": ann["only_cover"],
            "inline_disabled": disable_inline}
    twin = instr.Twin(source, filename)
    twin.do_import()
    executed = {ln for _, ln in twin.import_lines}
    for fn, kind, args in calls:
        _o, lines, _b, _e = twin.call(fn, materialise(kind, args))
        executed |= {ln for _, ln in lines}
    inst = instr.Instrumented(source, filename, modname, metric_set(("BRANCH", "LINE")), to_cover)
    ctx.ok(cls=cls, distinct=f"{prog}|{sorted(marked)}|{ann['no_cover']}|{ann['only_cover']}|{disable_inline}")
    try:
        inst.instrument()
        inst.do_import()
    except Exception as e:  # noqa: BLE001
        ctx.witness(f"instrument:raises-{type(e).__name__}:{msg_class(str(e))}", f"instrumenting with exclusions raised {e!r}", case)
        return
    goal_lines = {m.line_number for m in inst.sp.existing_lines.values()}
    pred_lines = {m.line_no for m in inst.sp.existing_predicates.values()}
    code_first = {cid: (m.code_object.co_qualname, m.code_object.co_firstlineno) for cid, m in inst.sp.existing_code_objects.items()}
    bad = sorted(ln for ln in goal_lines if isinstance(ln, int) and ln in excluded)
    if bad:
        ctx.witness(f"line-goal-inside-excluded:{root_cause(bad[0])}", f"line goals {bad[:8]} lie inside excluded code; e.g. {bad[0]}: {src_lines[bad[0] - 1].strip()[:70]!r}", case)
        return
    badp = sorted(ln for ln in pred_lines if isinstance(ln, int) and ln in excluded)
    if badp:
        ctx.witness(f"predicate-inside-excluded:{root_cause(badp[0])}", f"predicates at lines {badp[:8]} lie inside excluded code; e.g. {src_lines[badp[0] - 1].strip()[:70]!r}", case)
        return
    # a code object is inside excluded code when its first *code* line (the def line, below decorators) is excluded
    import ast

    def_line = {}
    for node in ast.walk(ast.parse(source)):
        if isinstance(node, (ast.FunctionDef, ast.AsyncFunctionDef, ast.ClassDef)):
            first = min([d.lineno for d in node.decorator_list] + [node.lineno])
            def_line[first] = node.lineno
    badc = [(q, fl) for q, fl in code_first.values() if q != "<module>" and def_line.get(fl, fl) in excluded]
    if badc:
        q, fl = badc[0]
        ctx.witness(f"code-object-inside-excluded:{why(def_line.get(fl, fl))}" + (":decorated" if def_line.get(fl, fl) != fl else ""),
                    f"code objects {badc[:4]} are registered (entry goals / instrumented) although their definition is excluded", case)
        return
    if only_lines is not None:
        q = exclgen.qualnames(_tree)
        targets = [q[n] for n in ann["only_cover"] if n in q]

        def in_enclosing_scope_body(ln):
            """ln belongs directly to a scope that encloses an only-cover target (module body or an enclosing class/function
            body, outside any other nested scope): the implementation keeps the parents of a target in cover, by design."""
            # the def/class header line (and decorator lines) execute in the parent scope
            holders = [n for n in _scopes if n.lineno < ln <= (n.end_lineno or n.lineno) and not any(d.lineno <= ln <= n.lineno for d in getattr(n, "decorator_list", []))]
            holders.sort(key=lambda n: (n.end_lineno or n.lineno) - n.lineno)
            if not holders:
                return True  # module level
            h = holders[0]
            return any(h.lineno <= t.lineno and (t.end_lineno or t.lineno) <= (h.end_lineno or h.lineno) for t in targets)

        outside = sorted(ln for ln in goal_lines if isinstance(ln, int) and ln not in only_lines and not in_enclosing_scope_body(ln))
        if outside:
            parents = {}
            for par in _ast.walk(_tree):
                for ch in _ast.iter_child_nodes(par):
                    parents[ch] = par
            unresolved = [t for t in targets if not isinstance(parents.get(t), (_ast.Module, _ast.FunctionDef, _ast.AsyncFunctionDef, _ast.ClassDef))]
            key = "line-goal-outside-only-cover-scopes" + (":only_cover-name:scope-defined-inside-control-flow-statement" if unresolved else "")
            ctx.witness(key, f"only_cover={ann['only_cover']} but lines {outside[:8]} are goals; e.g. {src_lines[outside[0] - 1].strip()[:70]!r}", case)
            return
    must = {ln for ln in executed if ln not in excluded and (only_lines is None or ln in only_lines)}
    missing = sorted(must - goal_lines)
    if missing and only_lines is not None:
        # the other face of the unresolved-name finding: an only_cover target that is defined inside a control-flow statement is not
        # found, so (when other names of the list do resolve) its own lines are left out of cover
        parents = {}
        for par in _ast.walk(_tree):
            for ch in _ast.iter_child_nodes(par):
                parents[ch] = par
        unresolved = [t for t in targets if not isinstance(parents.get(t), (_ast.Module, _ast.FunctionDef, _ast.AsyncFunctionDef, _ast.ClassDef))]
        if unresolved and all(any(t.lineno <= ln <= (t.end_lineno or t.lineno) for t in unresolved) for ln in missing):
            ctx.witness("executed-line-outside-excluded-code-not-a-goal:only_cover-name:scope-defined-inside-control-flow-statement",
                        f"only_cover={ann['only_cover']}: lines {missing[:8]} of a requested scope are not line goals; e.g. {missing[0]}: "
                        f"{src_lines[missing[0] - 1].strip()[:70]!r}", case)
            return
    if missing:
        ln = missing[0]
        near = [m for m in eff_marked if abs(m - ln) <= 12]
        ctx.witness("executed-line-outside-excluded-code-not-a-goal:" + (f"near-marker-on-{eff_marked[near[0]][0]}" if near else ("only_cover" if only_lines is not None else ("no_cover-name" if ann["no_cover"] else "plain"))),
                    f"executed, non-excluded lines {missing[:8]} are not line goals; e.g. {ln}: {src_lines[ln - 1].strip()[:70]!r}", case)
        return
    if len(ctx.samples) < 6 and marked:
        ctx.sample({"program": prog, "markers": {str(k): v[0] for k, v in marked.items()}, "excluded_lines": len(excluded), "line_goals": len(goal_lines), "predicates": len(pred_lines)})


def run_chunk(spec, ctx):
    from vlib import exclgen
    from vlib.instr_family import ProgramCase

    if spec["name"] == "directed":
        # force every marker kind at least a few times on fixed programs
        rng = random.Random(808)
        for i in range(40):
            pc = ProgramCase(7000, i, ctx.scratch)
            calls = [c for c in pc.calls if c[1] == "typed"]
            src = pc.prog["source"].replace("import math\n", "import math\n\nTYPE_CHECKING_FLAG = False\n", 1) + exclgen.TAIL
            cands = exclgen.candidate_marker_lines(src)
            by_kind: dict = {}
            for ln, k in cands.items():
                by_kind.setdefault(k, []).append(ln)
            for k in KINDS:
                if k in by_kind and (i + KINDS.index(k)) % 4 == 0:
                    ln = rng.choice(sorted(by_kind[k]))
                    lines = src.splitlines()
                    marker = rng.choice(["# pragma: no cover", "# pynguin: no cover"])
                    lines[ln - 1] += "  " + marker
                    ann = {"source": "\n".join(lines) + "\n", "marked": {ln: (k, marker)}, "no_cover": [], "only_cover": [], "style": "markers"}
                    _one(ctx, [7000, i, k], ann, f"vx_{i}_{KINDS.index(k)}", ctx.scratch, calls, pc.materialise, rng)
            if i % 5 == 0:
                ann = exclgen.annotate(pc.prog["source"], rng, "markers")
                _one(ctx, [7000, i, "inline-disabled"], ann, f"vx_{i}_dis", ctx.scratch, calls, pc.materialise, rng, disable_inline=True)
        return
    rng = random.Random(spec["seed"] * 7 + spec["start"])
    for i in range(spec["start"], spec["start"] + spec["n"]):
        pc = ProgramCase(spec["seed"], i, ctx.scratch)
        calls = [c for c in pc.calls if c[1] == "typed"]
        ann = exclgen.annotate(pc.prog["source"], rng)
        _one(ctx, [spec["seed"], i], ann, f"vx_{spec['seed']}_{i}", ctx.scratch, calls, pc.materialise, rng)
