"""C09 — dynamic slices are sound and, on the supported fragment, complete.

Workload F (fragment): programs generated as IR + source by vlib/depinterp.py; the test case `var_0 = <alias>.f(a, b)`
(and, for one input per program, a two-statement test whose second call consumes the first result) is executed by
the real TestCaseExecutor with CHECKED instrumentation and the real RemoteStatementSlicingObserver.  Oracles:
  (a) checked lines ⊆ lines executed (sys.monitoring LINE events of the uninstrumented twin + import-time lines);
  (b) DynamicSlicer.slice(trace, criterion) re-run with the criterion the observer used: every instruction of the
      slice is an instruction of trace.executed_instructions (untraced instructions: their basic block is in the
      trace or their line was executed);
  (c) every line in the IR interpreter's dependence set of the stored value is a checked line.
Workload A (assertions): the same programs with `assert var_0 == <value>` executed through
RemoteAssertionExecutionObserver; each executed assertion is sliced with AssertionSlicer; (a), (b), (c) on that slice;
plus the production combination "statement slicing observer + assertion observer on one executor".
Workload R (rich): programs of vlib/progs.py (exceptions, generators, closures, comprehensions, with, match) driven
through the executor with CHECKED: clauses (a) and (b) only.
"""

from __future__ import annotations

import importlib
import sys
import traceback

ID = "C09"
LEVEL = "exploration"
CHUNK_TIMEOUT = 3600
RULE = (
    "fragment programs (ints, if/elif/else, bounded while/for, break/continue, locals, one module global, attribute get/set on "
    "objects of a module class incl. aliases and methods, list literal/index/append/subscript store, lists nested in lists and in "
    "dicts with constant keys, container aliases, element stores through a variable or through the nested path before / after "
    "nesting read back through the other path (outer[i][j]), helper calls with early returns and global side effects) "
    "generated as IR and source from (seed, index), 3 inputs each, executed by the real "
    "executor + RemoteStatementSlicingObserver under {CHECKED} and {BRANCH,LINE,CHECKED}; oracle = LINE ground truth of the "
    "uninstrumented twin (checked ⊆ executed), membership of every slice instruction in the executed trace, and an independent "
    "IR interpreter that propagates line provenance (data, control, call/return; only certain dependences) whose set must be "
    "⊆ checked lines; the IR interpreter is validated against real execution (value, global, executed lines) for every case; "
    "distinct by (program, input, metrics), non-trivial when the dependence set has >= 4 lines; plus assertion slices and "
    "construct-rich programs for the two soundness clauses"
)
ASSUMPTIONS = [
    "sys.monitoring LINE events of CPython 3.12 on the uninstrumented twin define 'executed line'",
    "the IR interpreter's dependences are certain dynamic data/control dependences (it under-approximates)",
    "containers of the IR are objects with identity; a cell carries the provenance of its last store whatever path (variable, alias, "
    "element of another container) was used, so a read depends on exactly the last store into that cell",
    "not demanded, only recorded as anomaly 'documented-limitation:*': mutation through list.append (tests/slicer/"
    "test_expected_failures.py::test_mod_untraced_object) and the definition of the base reference of an attribute load/store "
    "and of the container/index of a subscript store (slicer/stack/stacksimulation.py update_push_operations: 'the use data "
    "for these will not be searched for')",
    "an untraced instruction of a slice counts as executed when its basic block has an entry in the trace or its line was executed",
    "a slicer exception is a violation only because it escapes the executor thread and turns the whole result into timeout=True",
]

DEP_CLASSES = ["if", "elif", "while", "for", "for-with-break", "local-assign", "global-store", "global-init", "attribute-store", "attribute-store-in-init",
               "object-creation", "list-literal", "dict-literal", "list-append", "subscript-store", "return"]
# shapes of container reads (vlib/depinterp.py Interp._ev idx / idx2): counted when the returned value depends, as a demanded
# dependence, on both the reading line and the store line.  (quick floor, thorough floor, met by the directed chunk alone)
FEATURE_FLOORS = {
    "nested-subscript-read-after-alias-store": (100, 1000, 30),
    "nested-subscript-read-of-store-before-nesting": (100, 1000, 10),
    "nested-subscript-read-after-nested-store": (12, 120, 6),
    "alias-subscript-read-after-nested-store": (12, 120, 6),
    "nested-subscript-read-of-store-followed-by-store-to-same-container": (12, 120, 8),
}


def floors(tier):
    q = tier == "quick"
    classes = {f"dep:{c}": 4 for c in DEP_CLASSES}  # met by the directed chunk alone
    classes.update({
        "fragment:completeness-evaluated": 900 if q else 9000, "fragment:two-statement-test": 250 if q else 2500,
        "metrics:BRANCH+LINE+CHECKED": 200 if q else 2000, "metrics:CHECKED": 600 if q else 6000,
        "slice-recomputed": 900 if q else 9000, "assertion:slice-evaluated": 60 if q else 600,
        "combined-observers:evaluated": 60 if q else 600, "rich:soundness-evaluated": 150 if q else 1500,
    })
    classes.update({f"feature:{f}": (lo if q else hi) for f, (lo, hi, _directed) in FEATURE_FLOORS.items()})
    return {"evals": 1200 if q else 12000, "distinct": 700 if q else 7000, "classes": classes}


def plan(tier, seed):
    q = tier == "quick"
    nprog, per = (320, 20) if q else (3200, 50)
    out = [{"name": "directed"}]
    out += [{"name": "fragment", "seed": seed, "start": i, "n": per} for i in range(0, nprog, per)]
    na, pa = (48, 24) if q else (480, 40)
    out += [{"name": "assertions", "seed": seed, "start": 100000 + i, "n": pa} for i in range(0, na, pa)]
    nr, pr = (16, 4) if q else (160, 8)
    out += [{"name": "rich", "seed": seed, "start": i, "n": pr} for i in range(0, nr, pr)]
    return out


# ------------------------------------------------------------------------------------------------ harness
class _Env:
    """Per-chunk set-up: configuration, sys.path, and a tap on compute_statement_checked_lines."""

    def __init__(self, ctx):
        import pynguin.configuration as config
        import pynguin.slicer.statementslicingobserver as sso

        self.ctx = ctx
        self.config = config
        config.configuration.project_path = str(ctx.scratch)
        config.configuration.statistics_output.coverage_metrics = [config.CoverageMetric.CHECKED]
        if str(ctx.scratch) not in sys.path:
            sys.path.insert(0, str(ctx.scratch))
        self.cap: dict = {}
        orig = sso.compute_statement_checked_lines  # whatever is installed now (possibly a seeded break)
        cap = self.cap

        def tapped(statements, trace, subject_properties, criteria):
            cap["criteria"] = dict(criteria)
            try:
                r = orig(statements, trace, subject_properties, criteria)
            except BaseException as e:  # noqa: BLE001
                cap["exc"] = (type(e).__name__, str(e)[:200], "".join(traceback.format_tb(e.__traceback__)[-3:])[-700:])
                raise
            cap["lines"] = set(r)
            return r

        sso.compute_statement_checked_lines = tapped
        self.counter = 0

    def load(self, modname, source, metric_names, slicing=True, assertions=False):
        import pynguin.testcase.execution_observers as eo

        from pynguin.instrumentation.machinery import install_import_hook
        from pynguin.instrumentation.tracer import SubjectProperties
        from pynguin.slicer.statementslicingobserver import RemoteStatementSlicingObserver
        from pynguin.testcase.execution import TestCaseExecutor
        from pynguin.utils.naming import get_module_alias
        from vlib import instr

        config = self.config
        path = self.ctx.scratch / f"{modname}.py"
        path.write_text(source)
        importlib.invalidate_caches()
        config.configuration.module_name = modname
        twin = instr.Twin(source, str(path))
        twin.do_import()
        sp = SubjectProperties()
        sys.modules.pop(modname, None)
        metrics = {getattr(config.CoverageMetric, n) for n in metric_names}
        with install_import_hook(modname, sp, metrics, config.ToCoverConfiguration()):
            with sp.instrumentation_tracer:
                module = importlib.import_module(modname)
        ex = TestCaseExecutor(sp, maximum_test_execution_timeout=120, test_execution_time_per_statement=60)
        ex.set_instrument(True)
        outcomes: list = []

        class Capture(eo.RemoteExecutionObserver):
            def before_test_case_execution(self, test_case):
                outcomes.clear()

            def after_statement_execution(self, statement, executor, namespace, exception):
                if exception is not None:
                    outcomes.append(("exc", type(exception).__name__))
                else:
                    try:
                        outcomes.append(("ret", repr(namespace.get(statement.bound_variable))[:300]))
                    except Exception as e:  # noqa: BLE001
                        outcomes.append(("ret", f"<unreprable {type(e).__name__}>"))

            def after_test_case_execution(self, executor, test_case, result):
                pass

        ex.add_remote_observer(Capture())
        if slicing:
            ex.add_remote_observer(RemoteStatementSlicingObserver())
        if assertions:
            ex.add_remote_observer(eo.RemoteAssertionExecutionObserver())
        ld = _Loaded()
        ld.modname, ld.path, ld.twin, ld.sp, ld.ex, ld.module, ld.outcomes = modname, str(path), twin, sp, ex, module, outcomes
        ld.alias = get_module_alias(modname)
        ld.import_lines = {ln for _, ln in twin.import_lines}
        ld.metrics = "+".join(metric_names)
        return ld

    def unload(self, ld):
        sys.modules.pop(ld.modname, None)

    def execute(self, ld, codes, assertions=None):
        """Run a test case made of the given statement sources; returns (result, captured tap data)."""
        import libcst as cst

        import pynguin.testcase.testcase as tc

        self.config.configuration.module_name = ld.modname
        test = tc.TestCase()
        for i, code in enumerate(codes):
            st = tc.Statement(node=cst.parse_module(code + "\n").body[0], bound_variable=f"var_{i}")
            if assertions and assertions.get(i):
                st.assertions.extend(assertions[i])
            test.add_statement(st)
        self.cap.clear()
        res = ld.ex.execute(test)
        return res, dict(self.cap)


class _Loaded:
    pass


def _twin_exec(ld, codes, reset=None):
    """The same statements on the uninstrumented twin: (outcomes, executed lines)."""
    import types

    if reset:
        ld.twin.ns.update(reset)
    ns = {ld.alias: types.SimpleNamespace(**{k: v for k, v in ld.twin.ns.items() if not k.startswith("__")})}
    # module attribute writes by the twin's functions go to twin.ns (their globals), reads of <alias>.f resolve here
    outcomes = []
    import contextlib
    import io

    ld.twin._start()  # noqa: SLF001
    try:
        with contextlib.redirect_stdout(io.StringIO()):
            for i, code in enumerate(codes):
                try:
                    exec(code, ns)  # noqa: S102
                    outcomes.append(("ret", repr(ns.get(f"var_{i}"))[:300]))
                except Exception as e:  # noqa: BLE001
                    outcomes.append(("exc", type(e).__name__))
                    break
    finally:
        ld.twin._stop()  # noqa: SLF001
    lines, _b, _e = ld.twin._collect()  # noqa: SLF001
    return outcomes, {ln for _, ln in lines}, ns


def _line_kind(src_lines, ln):
    if not isinstance(ln, int) or ln < 1 or ln > len(src_lines):
        return "no-such-line"
    s = src_lines[ln - 1].strip()
    if not s:
        return "blank"
    w = s.split()[0].rstrip(":(")
    if w in ("for", "while", "if", "elif", "else", "try", "except", "finally", "with", "match", "case", "return", "def", "class", "assert",
             "break", "continue", "raise", "import", "from", "pass", "yield", "lambda", "global"):
        return w
    if ".append(" in s:
        return "method-call-stmt"
    return "assign" if "=" in s else "expr"


def _check_slice_in_trace(ctx, ld, trace, pos, executed, case, prefix=""):
    """Clause (b): slice ⊆ trace ∪ {criterion}.  Returns the slice (or None when the slicer raised)."""
    from pynguin.instrumentation import AST_FILENAME
    from pynguin.slicer.dynamicslicer import DynamicSlicer, SlicingCriterion

    try:
        sl = DynamicSlicer(ld.sp.existing_code_objects).slice(trace, SlicingCriterion(pos))
    except BaseException as e:  # noqa: BLE001
        ctx.witness(f"{prefix}slicer-raises:{type(e).__name__}", f"DynamicSlicer.slice(trace, {pos}) raised {type(e).__name__}: {str(e)[:200]}", case)
        return None
    ctx.cls("slice-recomputed")
    index = {(e.file, e.code_object_id, e.node_id, e.opcode, e.lineno, e.instr_original_index) for e in trace.executed_instructions}
    blocks = {(e.file, e.code_object_id, e.node_id) for e in trace.executed_instructions}
    crit = trace.executed_instructions[pos]
    crit_key = (crit.file, crit.code_object_id, crit.node_id, crit.opcode, crit.lineno, crit.instr_original_index)
    for ui in sl:
        key = (ui.file, ui.code_object_id, ui.node_id, ui.opcode, ui.lineno, ui.instr_original_index)
        if key == crit_key:
            continue
        if ui.is_traced:
            if key not in index:
                ctx.witness(f"{prefix}slice-instruction-not-in-trace:{ui.name}",
                            f"slice of criterion {pos} contains traced instruction {ui} (code object {ui.code_object_id}, node {ui.node_id}, index {ui.instr_original_index}) "
                            f"that is not in trace.executed_instructions", case)
                break
        else:
            if (ui.file, ui.code_object_id, ui.node_id) in blocks:
                continue
            if ui.file == AST_FILENAME or (ui.file == ld.path and ui.lineno in executed):
                ctx.anomaly("untraced-slice-instruction-in-block-without-trace-entry(line-executed)")
                continue
            ctx.witness(f"{prefix}slice-instruction-not-in-trace:untraced:{ui.name}",
                        f"slice of criterion {pos} contains untraced instruction {ui} of a basic block with no trace entry and of a line ({ui.lineno}) never executed", case)
            break
    return sl


# ------------------------------------------------------------------------------------------------ workload F
def _fragment_program(env, ctx, prog, inputs, origin, metric_names, two_stmt_input=None):
    from vlib import depinterp as D

    modname = f"c09f_{env.counter}"
    env.counter += 1
    try:
        ld = env.load(modname, prog.source, metric_names)
    except Exception as e:  # noqa: BLE001
        ctx.anomaly(f"instrumentation-failed(C01):{type(e).__name__}")
        ctx.note("last_instrumentation_failure", {"origin": origin, "error": f"{type(e).__name__}: {e}"[:300]})
        return
    src_lines = prog.source.splitlines()
    try:
        for k, (a, b) in enumerate(inputs):
            two = k == two_stmt_input
            codes = [f"var_0 = {ld.alias}.f({a}, {b})"]
            if two:
                codes.append(f"var_1 = {ld.alias}.f(var_0, {b + 1})")
            case = {"origin": origin, "args": [a, b], "statements": [c.replace(ld.alias, "m") for c in codes], "metrics": ld.metrics, "source": prog.source}
            # ---- independent interpretation, validated against the uninstrumented twin
            try:
                it = D.Interp(prog)
                r1 = it.run(a, b)
                need, need_sup, executed_ir, value = set(r1.need), set(r1.need_supported), set(r1.executed), [r1.value]
                direct, root, features, hidden = r1.direct, r1.root, set(r1.features), set(r1.hidden)
                if two:
                    r2 = it.run(r1.value, b + 1, a_val=r1.ret, keep_state=True)
                    need |= r2.need
                    need_sup |= r2.need_supported
                    executed_ir |= r2.executed
                    value.append(r2.value)
                    features |= r2.features
                    hidden |= r2.hidden
                    for frm, d in r2.direct.items():
                        for to, kind in d.items():
                            direct.setdefault(frm, {}).setdefault(to, kind)
                    g_after = r2.g_after
                else:
                    g_after = r1.g_after
            except D.HarnessError as e:
                ctx.inconclusive_because(f"IR interpreter failed on {origin} {a, b}: {e}")
                continue
            setattr(ld.module, "G", prog.g_init)
            tw_out, tw_lines, _ns = _twin_exec(ld, codes, reset={"G": prog.g_init})
            if tw_out != [("ret", repr(v)) for v in value] or ld.twin.ns["G"] != g_after or tw_lines != executed_ir:
                ctx.inconclusive_because(f"IR interpreter disagrees with real execution on {origin} {a, b}: twin {tw_out} G={ld.twin.ns['G']} vs IR {value} G={g_after}; "
                                         f"line diff {sorted(tw_lines ^ executed_ir)[:8]}")
                continue
            executed = ld.import_lines | tw_lines
            # ---- the real thing
            res, cap = env.execute(ld, codes)
            classes = ["fragment:completeness-evaluated", f"metrics:{ld.metrics}"] + [f"dep:{prog.tag[ln].replace('-with-break', '')}" for ln in need if ln in prog.tag]
            classes += [f"dep:{prog.tag[ln]}" for ln in need if prog.tag.get(ln, "").endswith("-with-break")]
            classes += [f"feature:{f}" for f in features]
            if two:
                classes.append("fragment:two-statement-test")
            ctx.ok(cls=sorted(set(classes)), distinct=f"{origin}|{a},{b}|{ld.metrics}|{int(two)}" if len(need) >= 4 else None)
            if "exc" in cap:
                ctx.witness(f"slicer-raises:{cap['exc'][0]}", f"compute_statement_checked_lines raised {cap['exc'][0]}: {cap['exc'][1]} — the executor thread dies and the "
                            f"result becomes timeout={res.timeout}; {cap['exc'][2][-300:]}", case)
                continue
            if res.timeout or "lines" not in cap:
                ctx.anomaly("executor-returned-no-result")
                continue
            if ld.outcomes != tw_out:
                ctx.anomaly("behaviour-differs(C01)-case-skipped")
                continue
            trace = res.execution_trace
            checked = set(ld.sp.lineids_to_linenos(trace.checked_lines))
            # (a) soundness
            extra = checked - executed
            if extra:
                ln = min(extra, key=lambda v: (not isinstance(v, int), v if isinstance(v, int) else 0))
                ctx.witness(f"checked-line-not-executed:{prog.tag.get(ln) or _line_kind(src_lines, ln)}",
                            f"lines {sorted(map(str, extra))} reported as checked but never executed; e.g. {ln}: {src_lines[ln - 1].strip() if isinstance(ln, int) else ''!r}", case)
            # (b) slice ⊆ trace ∪ {criterion}
            for _spos, crit in sorted(cap.get("criteria", {}).items()):
                ei = trace.executed_instructions[crit.trace_position]
                if not (ei.file == "<ast>" and ei.name.startswith("STORE_")):
                    ctx.anomaly(f"statement-criterion-is-{ei.name}-not-the-store-of-the-statement")
                _check_slice_in_trace(ctx, ld, trace, crit.trace_position, executed, case)
            # (c) completeness on the fragment
            _completeness(ctx, prog, D, need, need_sup, direct, root, checked, src_lines, case, "", hidden)
            if len(ctx.samples) < 3:
                ctx.sample({"origin": origin, "call": codes, "metrics": ld.metrics, "oracle_dependence_lines": sorted(need), "checked_lines": sorted(checked),
                            "executed_lines": len(executed)})
    finally:
        env.unload(ld)


def _completeness(ctx, prog, D, need, need_sup, direct, root, checked, src_lines, case, prefix, hidden=()):
    class R:
        pass

    r = R()
    r.need, r.direct = need_sup, direct
    missing = need_sup - checked
    if missing:
        if root not in checked:
            fr = [(root, "entry-return", None)]
        else:
            fr = D.frontier(r, root, checked)
        seen = set()
        for ln, kind, frm in fr:
            key = prefix + ("missing-dependence:entry-return" if kind == "entry-return" else D.mechanism(prog, ln, kind, frm, hidden))
            if key in seen:
                continue
            seen.add(key)
            ctx.witness(key, f"line {ln} {src_lines[ln - 1].strip()!r} is a certain {kind} dependence of "
                        f"{('line ' + str(frm) + ' ' + repr(src_lines[frm - 1].strip())) if frm else 'the stored value'} but is not a checked line; "
                        f"oracle set {sorted(need_sup)}, checked {sorted(checked)}, missing {sorted(missing)}", case)
    lim = (need - need_sup) - checked
    if lim and root in checked:
        r.need = need
        for ln, kind, _frm in D.frontier(r, root, checked):
            if ln not in need_sup:
                ctx.anomaly(f"{prefix}documented-limitation:missing-{kind}-dependence:{prog.tag.get(ln)}")
    elif need - need_sup:
        ctx.anomaly(f"{prefix}documented-limitation:dependence-found-anyway")


def _fragment_chunk(spec, ctx):
    from vlib import depinterp as D

    env = _Env(ctx)
    if spec["name"] == "directed":
        for prog, inputs in D.directed():
            for mi, metric_names in enumerate((("CHECKED",), ("BRANCH", "LINE", "CHECKED"))):
                _fragment_program(env, ctx, prog, inputs, prog.name, metric_names, two_stmt_input=2 if mi == 0 else None)
        for metric_names in (("CHECKED",), ("BRANCH", "LINE", "CHECKED")):
            _rich_program(env, ctx, RICH_DIRECTED, RICH_DIRECTED_CALLS, "rich-directed", metric_names,
                          ["try", "try-finally", "with", "match", "comprehension", "closure", "lambda", "loop-else", "break-continue", "generator"])
        return
    for i in range(spec["start"], spec["start"] + spec["n"]):
        prog = D.generate(spec["seed"], i)
        metric_names = ("BRANCH", "LINE", "CHECKED") if i % 4 == 3 else ("CHECKED",)
        _fragment_program(env, ctx, prog, D.inputs_for(spec["seed"], i), f"gen-{spec['seed']}-{i}", metric_names, two_stmt_input=2)


# ------------------------------------------------------------------------------------------------ workload A
def _assertion_chunk(spec, ctx):
    import pynguin.assertion.assertion as ass

    from pynguin.slicer.dynamicslicer import AssertionSlicer, DynamicSlicer
    from vlib import depinterp as D

    env = _Env(ctx)
    for i in range(spec["start"], spec["start"] + spec["n"]):
        prog = D.generate(spec["seed"], i)
        origin = f"gen-{spec['seed']}-{i}"
        src_lines = prog.source.splitlines()
        for mode in ("assertion-only", "combined"):
            modname = f"c09a_{env.counter}"
            env.counter += 1
            try:
                ld = env.load(modname, prog.source, ("CHECKED",), slicing=mode == "combined", assertions=True)
            except Exception as e:  # noqa: BLE001
                ctx.anomaly(f"instrumentation-failed(C01):{type(e).__name__}")
                continue
            try:
                for a, b in D.inputs_for(spec["seed"], i)[:2]:
                    try:
                        r1 = D.Interp(prog).run(a, b)
                    except D.HarnessError as e:
                        ctx.inconclusive_because(f"IR interpreter failed on {origin} {a, b}: {e}")
                        continue
                    codes = [f"var_0 = {ld.alias}.f({a}, {b})"]
                    case = {"origin": origin, "args": [a, b], "mode": mode, "statements": ["var_0 = m.f(%d, %d)" % (a, b), f"assert var_0 == {r1.value}"], "source": prog.source}
                    setattr(ld.module, "G", prog.g_init)
                    tw_out, tw_lines, _ns = _twin_exec(ld, codes, reset={"G": prog.g_init})
                    if tw_out != [("ret", repr(r1.value))] or tw_lines != r1.executed:
                        ctx.inconclusive_because(f"IR interpreter disagrees with real execution on {origin} {a, b}")
                        continue
                    executed = ld.import_lines | tw_lines
                    res, cap = env.execute(ld, codes, assertions={0: [ass.ObjectAssertion("var_0", r1.value)]})
                    if "exc" in cap:
                        ctx.ok(cls="combined-observers:evaluated")
                        ctx.witness(f"combined-observers:slicer-raises:{cap['exc'][0]}", f"compute_statement_checked_lines raised {cap['exc'][0]}: {cap['exc'][1]}; {cap['exc'][2][-300:]}", case)
                        continue
                    if res.timeout:
                        ctx.anomaly("executor-returned-no-result")
                        continue
                    trace = res.execution_trace
                    if mode == "combined":
                        ctx.ok(cls="combined-observers:evaluated", distinct=f"{origin}|{a},{b}|combined" if len(r1.need) >= 4 else None)
                        checked = set(ld.sp.lineids_to_linenos(trace.checked_lines))
                        extra = checked - executed
                        if extra:
                            ln = min(extra)
                            ctx.witness(f"combined-observers:checked-line-not-executed:{prog.tag.get(ln) or _line_kind(src_lines, ln)}", f"lines {sorted(extra)} checked but not executed", case)
                        for _spos, crit in sorted(cap.get("criteria", {}).items()):
                            ei = trace.executed_instructions[crit.trace_position]
                            if not (ei.file == "<ast>" and ei.name.startswith("STORE_")):
                                ctx.anomaly(f"combined-observers:statement-criterion-is-{ei.name}-not-the-store-of-the-statement")
                            _check_slice_in_trace(ctx, ld, trace, crit.trace_position, executed, case, "combined-observers:")
                        _completeness(ctx, prog, D, set(r1.need), set(r1.need_supported), r1.direct, r1.root, checked, src_lines, case, "combined-observers:", r1.hidden)
                        continue
                    if not trace.executed_assertions:
                        ctx.anomaly("assertion-not-recorded")
                        continue
                    for ea in trace.executed_assertions:
                        ctx.ok(cls="assertion:slice-evaluated", distinct=f"{origin}|{a},{b}|assertion" if len(r1.need) >= 4 else None)
                        sl = _check_slice_in_trace(ctx, ld, trace, ea.trace_position, executed, case, "assertion-slice:")
                        if sl is None:
                            continue
                        try:
                            sl2 = AssertionSlicer(ld.sp.existing_code_objects).slice_assertion(ea, trace)
                            checked = set(ld.sp.lineids_to_linenos(DynamicSlicer.map_instructions_to_lines(sl2, ld.sp)))
                        except BaseException as e:  # noqa: BLE001
                            ctx.witness(f"assertion-slice:slicer-raises:{type(e).__name__}", f"AssertionSlicer / map_instructions_to_lines raised {e!r}", case)
                            continue
                        extra = checked - executed
                        if extra:
                            ln = min(extra)
                            ctx.witness(f"assertion-slice:checked-line-not-executed:{prog.tag.get(ln) or _line_kind(src_lines, ln)}", f"lines {sorted(extra)} checked by the assertion but not executed", case)
                        _completeness(ctx, prog, D, set(r1.need), set(r1.need_supported), r1.direct, r1.root, checked, src_lines, case, "assertion-slice:", r1.hidden)
            finally:
                env.unload(ld)


# ------------------------------------------------------------------------------------------------ workload R
RICH_DIRECTED = '''
class CM:
    def __enter__(self):
        return self

    def __exit__(self, et, ev, tb):
        return et is ValueError


def d_except_as_match(a, l):
    y = 0
    try:
        y = 1 // a
    except ZeroDivisionError as exc:
        match l:
            case [p, q] if p < q:
                y = 5
    if not l:
        y = 7
    return y


def d_try_in_handler(a, l):
    x = 0
    try:
        x = 1 // a
    except Exception:
        try:
            x -= 5
        except KeyError:
            x -= 1
        finally:
            x += 2
    return x


def d_with(a, l):
    y = 1
    with CM():
        y = y + a
        if a > 2:
            raise ValueError(a)
        y = y * 2
    return y


def d_comprehension(a, l):
    r = [i * a for i in l if i != a]
    s = {i % 3 for i in l}
    d = {i: i + a for i in l}
    return (sum(r), len(s), sorted(d.items()))


def d_generator(a, l):
    def gen(n):
        k = 0
        while k < n:
            yield k + a
            k += 1
    total = 0
    for v in gen(len(l)):
        total += v
    return total + sum(x for x in l if x > a)


def d_closure(a, l):
    def outer(k):
        def inner(z):
            return z + k + a
        return inner
    lam = lambda q: q * 2  # noqa: E731
    return lam(outer(3)(len(l)))


def d_try_finally(a, l):
    y = 0
    for i in l:
        try:
            y += 10 // (i - a)
        except ZeroDivisionError:
            y -= 1
            continue
        finally:
            y += 1
    else:
        y *= 2
    return y
'''
RICH_DIRECTED_CALLS = [(f, "typed", args) for f in ("d_except_as_match", "d_try_in_handler", "d_with", "d_comprehension", "d_generator", "d_closure", "d_try_finally")
                       for args in ((0, [1, 2]), (0, []), (1, [2, 1]), (3, [3, 1, 4]))]


def _rich_program(env, ctx, src, calls, origin, metric_names, features):
    src_lines = src.splitlines()
    modname = f"c09r_{env.counter}"
    env.counter += 1
    try:
        ld = env.load(modname, src, metric_names)
    except Exception as e:  # noqa: BLE001
        ctx.anomaly(f"instrumentation-failed(C01):{type(e).__name__}")
        return
    feats = [f"rich-feature:{f}" for f in features if f in ("try", "try-finally", "with", "match", "comprehension", "closure", "lambda", "loop-else", "break-continue", "generator")]
    try:
        for fn, _kind, args in calls:
            codes = [f"var_0 = {ld.alias}.{fn}({', '.join(repr(a) for a in args)})"]
            case = {"program": origin, "function": fn, "args": repr(args), "metrics": ld.metrics, "source_of_function": _snippet(src, fn)}
            tw_out, tw_lines, _ns = _twin_exec(ld, codes)
            executed = ld.import_lines | tw_lines
            res, cap = env.execute(ld, codes)
            ctx.ok(cls=["rich:soundness-evaluated", f"metrics:{ld.metrics}", *feats] + (["rich:statement-raised"] if tw_out and tw_out[-1][0] == "exc" else []),
                   distinct=f"rich|{origin}|{fn}|{args!r}|{ld.metrics}" if len(tw_lines) >= 3 else None)
            if "exc" in cap:
                kind = _raising_frame(cap["exc"][2])
                ctx.witness(f"rich:slicer-raises:{cap['exc'][0]}:{kind}", f"compute_statement_checked_lines raised {cap['exc'][0]}: {cap['exc'][1]}; the executor thread dies, "
                            f"result.timeout={res.timeout}; {cap['exc'][2][-300:]}", case)
                continue
            if res.timeout or "lines" not in cap:
                ctx.anomaly("executor-returned-no-result")
                continue
            if ld.outcomes != tw_out:
                ctx.anomaly("behaviour-differs(C01)-case-skipped")
                continue
            trace = res.execution_trace
            if "LINE" in metric_names:
                covered = set(ld.sp.lineids_to_linenos(trace.covered_line_ids))
                if covered != executed & {m.line_number for m in ld.sp.existing_lines.values()}:
                    ctx.anomaly("line-coverage-differs-from-twin(C02)-case-skipped")
                    continue
            checked = set(ld.sp.lineids_to_linenos(trace.checked_lines))
            extra = checked - executed
            if extra:
                ln = min(extra, key=lambda v: (not isinstance(v, int), v if isinstance(v, int) else 0))
                ctx.witness(f"rich:checked-line-not-executed:{_line_kind(src_lines, ln)}",
                            f"{fn}{args!r}: lines {sorted(map(str, extra))} reported as checked but never executed; e.g. {ln}: {src_lines[ln - 1].strip() if isinstance(ln, int) else ''!r}", case)
            for _spos, crit in sorted(cap.get("criteria", {}).items()):
                _check_slice_in_trace(ctx, ld, trace, crit.trace_position, executed, case, "rich:")
    finally:
        env.unload(ld)


def _rich_chunk(spec, ctx):
    from vlib.instr_family import ProgramCase

    env = _Env(ctx)
    for i in range(spec["start"], spec["start"] + spec["n"]):
        pc = ProgramCase(spec["seed"], i, ctx.scratch)
        calls = [c for c in pc.calls if c[1] == "typed"]
        metric_names = ("BRANCH", "LINE", "CHECKED") if i % 2 else ("CHECKED",)
        _rich_program(env, ctx, pc.prog["source"], calls, [spec["seed"], i], metric_names, pc.prog["features"])


def _raising_frame(tb_text):
    import re

    m = re.findall(r'File "[^"]*/([a-z_0-9]+\.py)", line \d+, in (\w+)', tb_text)
    return f"{m[-1][0]}:{m[-1][1]}" if m else "unknown-frame"


def _snippet(src, fn):
    from vlib.instr_family import source_snippet

    return source_snippet(src, fn, limit=1500)


def run_chunk(spec, ctx):
    if spec["name"] in ("directed", "fragment"):
        _fragment_chunk(spec, ctx)
    elif spec["name"] == "assertions":
        _assertion_chunk(spec, ctx)
    else:
        _rich_chunk(spec, ctx)


def replay(w, ctx):
    """Re-run one recorded witness case (fragment and rich workloads)."""
    from vlib import depinterp as D

    case = w.get("case") or {}
    env = _Env(ctx)
    if "origin" in case and "mode" not in case:
        origin = case["origin"]
        if origin.startswith("gen-"):
            _g, seed, idx = origin.split("-")
            prog = D.generate(int(seed), int(idx))
        else:
            prog = next(p for p, _ in D.directed() if p.name == origin)
        two = len(case.get("statements", [])) == 2
        _fragment_program(env, ctx, prog, [tuple(case["args"])], origin, tuple(case["metrics"].split("+")), two_stmt_input=0 if two else None)
    elif case.get("program") == "rich-directed":
        _rich_program(env, ctx, RICH_DIRECTED, [c for c in RICH_DIRECTED_CALLS if c[0] == case["function"]], "rich-directed", tuple(case["metrics"].split("+")), [])
    elif "program" in case:
        seed, idx = case["program"]
        _rich_chunk({"seed": seed, "start": idx, "n": 1}, ctx)
    else:
        print("replay supports fragment and rich cases only; case:", case.get("origin"), case.get("mode"))
