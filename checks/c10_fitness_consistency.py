"""C10 — fitness values, coverage values and covered verdicts agree.

Shape: cross-function consistency (every function is the other's oracle) + a short reference
definition of branch fitness / branch coverage, evaluated on (registry, traces) pairs.

Registries are real: small modules are imported under the real instrumentation import hook (real
CFG/CDG, real register_* calls) and further synthetic registries are derived from them through the
real register_code_object / register_predicate / register_line API.  Traces are (a) real traces of
the instrumented functions called with random arguments and (b) random *valid* synthetic traces
built with the real ExecutionTrace.update_predicate_distances (each execution reports exactly one
zero distance; counts summed, minima kept).  For every pair the pure metric functions, the
fitness/coverage function classes (through real chromosomes and the real ComputationCache, in both
query orders) and every coverage goal are evaluated.
"""

from __future__ import annotations

import math
import random

ID = "C10"
LEVEL = "exploration"
RULE = (
    "registries = modules (7 hand-written + random ints-only programs) imported under the real instrumentation hook "
    "plus registries derived from them through the real register_* API (subsets, no predicates, no lines, only "
    "branching, empty); traces = real executions with random arguments + random valid synthetic traces (hit counts "
    "0/1/2+, distances 0/5e-324/../1e308/inf, one zero per execution, min over executions), as single test cases "
    "and as suites of 1-5; oracle = mutual consistency of compute_branch_distance_fitness / _is_covered / "
    "compute_branch_coverage / line / checked functions, the Test{Suite,Case} function classes through real "
    "chromosomes and ComputationCache in both query orders, every BranchGoal/BranchlessCodeObjectGoal/Line/Checked "
    "goal (is_covered vs fitness==0, fraction of covered goals vs suite coverage) and a reference definition of "
    "branch fitness/coverage; a pair is distinct by (registry, traces) and non-trivial when the registry is not empty"
)
ASSUMPTIONS = [
    "synthetic traces are valid by construction (executed predicate => executed code object; one zero distance per "
    "execution; covered/checked lines are registered lines of executed code objects); invalid traces are out of scope",
    "assertion checked coverage (needs sliced instruction traces) is not exercised here (C09's workload)",
    "the reference definition follows the docstrings plus the whole-suite rule 'a branch only counts its distance once "
    "the predicate was executed at least twice'; values are compared with rel. tolerance 1e-12",
    "full search runs are not used: real traces come from calling the instrumented functions directly",
]
CHUNK_TIMEOUT = 900


def floors(tier):
    k = 1 if tier == "quick" else 8
    return {
        "evals": 20000 * k,
        "distinct": 8000 * k,
        "classes": {
            "registry:instrumented": 200,
            "registry:derived": 200,
            "registry:no-predicates": 50,
            "registry:no-branchless": 20,
            "registry:no-lines": 20,
            "registry:empty": 5,
            "trace:real": 200,
            "trace:synthetic": 1000,
            "trace:empty": 20,
            "suite:size>=2": 500,
            "suite:branch-fitness-zero": 100,
            "suite:branch-fitness-zero-with-predicates": 50,
            "suite:branch-fitness-positive": 1000,
            "suite:line-fitness-zero": 100,
            "suite:checked-fitness-zero": 50,
            "hit-count:1": 500,
            "hit-count:>=2": 500,
            "distance:inf": 200,
            "distance:tiny": 200,
            "distance:huge": 200,
            "exclusions:some": 500,
            "exclusions:all-predicates": 50,
            "goal:branch:covered": 1000,
            "goal:branch:executed-not-covered": 1000,
            "goal:branch:approach-level": 300,
            "goal:branch:code-object-not-executed": 300,
            "goal:branchless:covered": 300,
            "goal:branchless:uncovered": 300,
            "goal:line": 1000,
            "goal:checked": 1000,
            "cache:is_covered-first": 1000,
            "cache:fitness-first": 1000,
            "testcase-level": 1000,
        },
    }


def plan(tier, seed):
    nchunks = 15 if tier == "quick" else 60
    mods = 14 if tier == "quick" else 30
    specs = [{"name": "directed", "seed": seed}]
    specs += [{"name": "random", "seed": seed, "part": i, "modules": mods} for i in range(nchunks)]
    return specs


# ------------------------------------------------------------------------------------------------
def _ref_branch(sp, trace, ex_code=(), ex_true=(), ex_false=()):
    """Reference branch fitness and coverage (coverage ignores exclusions)."""
    pred_code = {m.code_object_id for m in sp.existing_predicates.values()}
    branchless = [c for c in sp.existing_code_objects if c not in pred_code]
    fit = 0.0
    for c in branchless:
        if c not in trace.executed_code_objects and c not in ex_code:
            fit += 1.0
    for p in sp.existing_predicates:
        for dist, ex in ((trace.true_distances, ex_true), (trace.false_distances, ex_false)):
            if p in ex:
                continue
            d = dist.get(p)
            if d == 0.0:
                continue
            if trace.executed_predicates.get(p, 0) >= 2 and d is not None:
                fit += 1.0 if math.isinf(d) else d / (1.0 + d)
            else:
                fit += 1.0
    total = len(branchless) + 2 * len(sp.existing_predicates)
    covered = sum(1 for c in branchless if c in trace.executed_code_objects)
    covered += sum(1 for p in sp.existing_predicates if trace.true_distances.get(p) == 0.0)
    covered += sum(1 for p in sp.existing_predicates if trace.false_distances.get(p) == 0.0)
    return fit, (covered / total if total else 1.0)


def _fin_nonneg(x):
    return isinstance(x, (int, float)) and not isinstance(x, bool) and x == x and not math.isinf(x) and x >= 0


def _in01(x):
    return isinstance(x, (int, float)) and x == x and 0.0 <= x <= 1.0


class _Eval:
    def __init__(self, ctx, reg, traces, how, rng):
        from vlib import fitreg

        self.ctx, self.reg, self.traces, self.how, self.rng = ctx, reg, traces, how, rng
        self.fitreg = fitreg
        self.classes = set()
        self.failed = False

    def case(self, extra=None):
        c = {
            "registry": self.fitreg.registry_to_json(self.reg),
            "traces": [self.fitreg.trace_to_json(t) for t in self.traces],
            "how": self.how,
        }
        if extra:
            c.update(extra)
        return c

    def wit(self, key, desc, extra=None):
        self.failed = True
        # the replayable case is only built while the framework still stores witnesses of this mechanism
        full = self.ctx._wit_per_key[key] < 5  # noqa: SLF001
        self.ctx.witness(key, desc, self.case(extra) if full else None)

    def call(self, name, fn, *a, **kw):
        """Calls into pynguin; an exception is a witness (the value must exist for every valid pair)."""
        try:
            return True, fn(*a, **kw)
        except Exception as e:  # noqa: BLE001
            self.wit(f"raises:{type(e).__name__}:{name}", f"{name} raised {e!r}")
            return False, None

    def verdict(self, family, entry, fitness, covered, extra=None):
        """covered verdict must equal fitness == 0."""
        if covered is True and fitness != 0:
            self.wit(f"covered-verdict:true-at-positive-fitness:{family}",
                     f"{entry}: is_covered=True but fitness={fitness!r}", extra)
        elif covered is False and fitness == 0:
            self.wit(f"covered-verdict:false-at-zero-fitness:{family}",
                     f"{entry}: is_covered=False but fitness={fitness!r}", extra)
        elif not isinstance(covered, bool):
            self.wit(f"covered-verdict:not-a-bool:{family}", f"{entry}: is_covered={covered!r}", extra)

    def fitness_ok(self, name, f, extra=None):
        if not _fin_nonneg(f):
            self.wit(f"fitness-not-finite-nonneg:{name}", f"{name} returned {f!r}", extra)
            return False
        return True

    def coverage_ok(self, name, c, extra=None):
        if not _in01(c):
            self.wit(f"coverage-out-of-range:{name}", f"{name} returned {c!r}", extra)
            return False
        return True


def _pure_level(ev, trace, level):
    """Pure metric functions on one trace (a single test's trace or the merged suite trace)."""
    import pynguin.ga.fitness_metrics as fm

    sp, rng = ev.reg.sp, ev.rng
    ok1, fit = ev.call("compute_branch_distance_fitness", fm.compute_branch_distance_fitness, trace, sp)
    ok2, cov = ev.call("compute_branch_coverage", fm.compute_branch_coverage, trace, sp)
    ok3, isc = ev.call("compute_branch_distance_fitness_is_covered", fm.compute_branch_distance_fitness_is_covered, trace, sp)
    if ok1 and ev.fitness_ok("compute_branch_distance_fitness", fit) and ok3:
        ev.verdict("branch-distance", "compute_branch_distance_fitness_is_covered", fit, isc, {"level": level})
    if ok2:
        ev.coverage_ok("compute_branch_coverage", cov)
    if ok1 and ok2 and _fin_nonneg(fit) and _in01(cov):
        if fit == 0 and cov != 1.0:
            ev.wit("branch:fitness-zero-but-coverage-below-1", f"{level}: fitness 0 but branch coverage {cov!r}")
        if cov == 1.0 and fit != 0:
            ev.wit("branch:coverage-1-but-fitness-positive", f"{level}: branch coverage 1.0 but fitness {fit!r}")
        rfit, rcov = _ref_branch(sp, trace)
        if not math.isclose(fit, rfit, rel_tol=1e-12, abs_tol=0.0):
            ev.wit("reference:branch-fitness", f"{level}: fitness {fit!r} but reference definition gives {rfit!r}")
        if not math.isclose(cov, rcov, rel_tol=1e-12, abs_tol=0.0):
            ev.wit("reference:branch-coverage", f"{level}: coverage {cov!r} but reference definition gives {rcov!r}")
        ev.classes.add(f"{level}:branch-fitness-zero" if fit == 0 else f"{level}:branch-fitness-positive")
        if fit == 0 and sp.existing_predicates:
            ev.classes.add(f"{level}:branch-fitness-zero-with-predicates")
    # exclusions
    preds = list(sp.existing_predicates)
    codes = list(sp.existing_code_objects)
    mode = rng.choice(["some", "some", "all-predicates", "uncovered"])
    if mode == "all-predicates":
        ex_true, ex_false = set(preds), set(preds)
        ex_code = {c for c in codes if rng.random() < 0.5}
    elif mode == "uncovered":
        # exclude exactly what is not covered: the restricted fitness must be 0 and the verdict True
        ex_true = {p for p in preds if trace.true_distances.get(p) != 0.0}
        ex_false = {p for p in preds if trace.false_distances.get(p) != 0.0}
        ex_code = {c for c in codes if c not in trace.executed_code_objects}
    else:
        ex_true = {p for p in preds if rng.random() < 0.4}
        ex_false = {p for p in preds if rng.random() < 0.4}
        ex_code = {c for c in codes if rng.random() < 0.4}
    extra = {"level": level, "exclude_code": sorted(ex_code), "exclude_true": sorted(ex_true), "exclude_false": sorted(ex_false)}
    okf, fx = ev.call("compute_branch_distance_fitness[excl]", fm.compute_branch_distance_fitness, trace, sp, set(ex_code), set(ex_true), set(ex_false))
    okc, ix = ev.call("compute_branch_distance_fitness_is_covered[excl]", fm.compute_branch_distance_fitness_is_covered, trace, sp, set(ex_code), set(ex_true), set(ex_false))
    if okf and ev.fitness_ok("compute_branch_distance_fitness[excl]", fx, extra):
        if okc:
            ev.verdict("branch-distance", "compute_branch_distance_fitness_is_covered[excl]", fx, ix, extra)
        rfx, _ = _ref_branch(sp, trace, ex_code, ex_true, ex_false)
        if not math.isclose(fx, rfx, rel_tol=1e-12, abs_tol=0.0):
            ev.wit("reference:branch-fitness", f"{level}: restricted fitness {fx!r} but reference gives {rfx!r}", extra)
        if mode == "uncovered" and fx != 0:
            ev.wit("branch:exclusions-ignored", f"{level}: everything uncovered is excluded but fitness is {fx!r}", extra)
    ev.classes.add("exclusions:all-predicates" if mode == "all-predicates" else "exclusions:some")
    # line / checked pure functions
    okl, lcov = ev.call("compute_line_coverage", fm.compute_line_coverage, trace, sp)
    okli, lisc = ev.call("compute_line_coverage_fitness_is_covered", fm.compute_line_coverage_fitness_is_covered, trace, sp)
    if okl and ev.coverage_ok("compute_line_coverage", lcov) and okli:
        if (lcov == 1.0) != bool(lisc):
            ev.wit("line:is_covered-vs-coverage", f"{level}: line coverage {lcov!r} but is_covered {lisc!r}")
    okci, cisc = ev.call("compute_checked_coverage_statement_fitness_is_covered",
                         fm.compute_checked_coverage_statement_fitness_is_covered, trace, sp)
    return {"fit": fit if ok1 else None, "cov": cov if ok2 else None, "line_cov": lcov if okl else None,
            "line_isc": lisc if okli else None, "checked_isc": cisc if okci else None}


def _mk_test_chromosome(result):
    import pynguin.ga.testcasechromosome as tcc
    import pynguin.testcase.testcase as tc

    ch = tcc.TestCaseChromosome(tc.TestCase())
    ch.set_last_execution_result(result)
    ch.changed = False
    return ch


def _cache_both_orders(ev, make_chromosome, ffs, cfs, tag):
    """Query the real ComputationCache in both orders; verdict vs fitness, verdict vs compute_is_covered."""
    out = {}
    for order in ("is_covered-first", "fitness-first"):
        ch = make_chromosome()
        for f, _ in ffs:
            ch.add_fitness_function(f)
        for c, _ in cfs:
            ch.add_coverage_function(c)
        idx = list(range(len(ffs)))
        ev.rng.shuffle(idx)
        for i in idx:
            f, family = ffs[i]
            name = type(f).__name__
            if order == "is_covered-first":
                ok_c, isc = ev.call(f"{name}.get_is_covered", ch.get_is_covered, f)
                ok_f, fit = ev.call(f"{name}.get_fitness_for", ch.get_fitness_for, f)
            else:
                ok_f, fit = ev.call(f"{name}.get_fitness_for", ch.get_fitness_for, f)
                ok_c, isc = ev.call(f"{name}.get_is_covered", ch.get_is_covered, f)
            if ok_f and ev.fitness_ok(name, fit) and ok_c:
                ev.verdict(family, f"{tag}:{name} via ComputationCache ({order})", fit, isc, {"order": order})
                out.setdefault(i, []).append((fit, isc))
            # direct (uncached) functions
            ok_d, direct = ev.call(f"{name}.compute_is_covered", f.compute_is_covered, make_chromosome())
            ok_df, dfit = ev.call(f"{name}.compute_fitness", f.compute_fitness, make_chromosome())
            if ok_d and ok_df and _fin_nonneg(dfit):
                ev.verdict(family, f"{tag}:{name}.compute_is_covered vs compute_fitness", dfit, direct)
        ok_s, total = ev.call("get_fitness", ch.get_fitness)
        if ok_s and ffs:
            ev.fitness_ok(f"{tag}:get_fitness", total)
        for c, _ in cfs:
            name = type(c).__name__
            ok_v, v = ev.call(f"{name}.get_coverage_for", ch.get_coverage_for, c)
            if ok_v:
                ev.coverage_ok(name, v)
                out.setdefault(name, []).append(v)
        if cfs:
            ok_m, mean = ev.call("get_coverage", ch.get_coverage)
            if ok_m:
                ev.coverage_ok(f"{tag}:get_coverage", mean)
        ev.classes.add(f"cache:{order}")
    # both orders must agree with each other (the cache must not make the verdict depend on the order)
    for i, vals in out.items():
        if isinstance(i, int) and len(vals) == 2 and vals[0] != vals[1]:
            f, family = ffs[i]
            key_dir = "false-at-zero-fitness" if (vals[0][0] == 0 or vals[1][0] == 0) else "true-at-positive-fitness"
            if vals[0][0] == vals[1][0]:
                ev.wit(f"covered-verdict:{key_dir}:{family}",
                       f"{tag}:{type(f).__name__}: get_is_covered depends on the query order: "
                       f"is_covered-first -> {vals[0]!r}, fitness-first -> {vals[1]!r}")
            else:
                ev.wit(f"cache:fitness-depends-on-query-order:{family}", f"{vals!r}")
    return out


def _evaluate(ctx, reg, traces, how, rng):
    import pynguin.ga.computations as ff
    import pynguin.ga.coveragegoals as cg
    import pynguin.ga.fitness_metrics as fm
    import pynguin.ga.testsuitechromosome as tsc

    from vlib import fitreg

    ev = _Eval(ctx, reg, traces, how, rng)
    sp = reg.sp
    executor = fitreg.make_fake_executor(sp)
    results = [fitreg.make_result(t) for t in traces]
    ok, merged = ev.call("analyze_results", fm.analyze_results, results)
    if not ok:
        return
    shape = reg.shape()
    ev.classes.add("registry:instrumented" if reg.kind == "instrumented" else "registry:derived")
    if shape["predicates"] == 0:
        ev.classes.add("registry:no-predicates")
    if shape["branchless"] == 0 and shape["code_objects"] > 0:
        ev.classes.add("registry:no-branchless")
    if shape["lines"] == 0:
        ev.classes.add("registry:no-lines")
    if shape["code_objects"] == 0:
        ev.classes.add("registry:empty")
    if len(traces) >= 2:
        ev.classes.add("suite:size>=2")
    for t in traces:
        if not t.executed_code_objects and not t.executed_predicates:
            ev.classes.add("trace:empty")
        for p, n in t.executed_predicates.items():
            ev.classes.add("hit-count:1" if n == 1 else "hit-count:>=2")
        for d in list(t.true_distances.values()) + list(t.false_distances.values()):
            if d == math.inf:
                ev.classes.add("distance:inf")
            elif 0 < d < 1e-8:
                ev.classes.add("distance:tiny")
            elif d >= 1e6:
                ev.classes.add("distance:huge")
    ev.classes.add("trace:real" if how.get("real") else "trace:synthetic")

    # --- suite level: pure functions on the merged trace
    s = _pure_level(ev, merged, "suite")

    # --- suite level: function classes through a real suite chromosome and the real cache
    def make_suite():
        suite = tsc.TestSuiteChromosome()
        for r in results:
            suite.add_test_case_chromosome(_mk_test_chromosome(r))
        return suite

    bsf = ff.BranchDistanceTestSuiteFitnessFunction(executor)
    bsf_restricted = ff.BranchDistanceTestSuiteFitnessFunction(executor)
    preds = list(sp.existing_predicates)
    bsf_restricted.restrict(
        {c for c in sp.existing_code_objects if rng.random() < 0.3},
        {p for p in preds if rng.random() < 0.5},
        {p for p in preds if rng.random() < 0.5},
    )
    lsf = ff.LineTestSuiteFitnessFunction(executor)
    csf = ff.StatementCheckedTestSuiteFitnessFunction(executor)
    suite_ffs = [(bsf, "branch-distance"), (bsf_restricted, "branch-distance"), (lsf, "line-suite"), (csf, "checked-suite")]
    bcf = ff.TestSuiteBranchCoverageFunction(executor)
    lcf = ff.TestSuiteLineCoverageFunction(executor)
    ccf = ff.TestSuiteStatementCheckedCoverageFunction(executor)
    suite_cfs = [(bcf, "branch"), (lcf, "line"), (ccf, "checked")]
    got = _cache_both_orders(ev, make_suite, suite_ffs, suite_cfs, "suite")
    if True:
        # class values must agree with the pure functions they wrap and with each other
        try:
            bfit = got[0][0][0]
            lfit = got[2][0][0]
            cfit = got[3][0][0]
            bcov = got["TestSuiteBranchCoverageFunction"][0]
            lcov = got["TestSuiteLineCoverageFunction"][0]
            ccov = got["TestSuiteStatementCheckedCoverageFunction"][0]
        except (KeyError, IndexError):
            bfit = None
        if bfit is not None:
            if (bfit == 0) != (bcov == 1.0):
                ev.wit("branch:fitness-zero-but-coverage-below-1" if bfit == 0 else "branch:coverage-1-but-fitness-positive",
                       f"suite classes: BranchDistanceTestSuiteFitnessFunction={bfit!r}, TestSuiteBranchCoverageFunction={bcov!r}")
            if (lfit == 0) != (lcov == 1.0):
                ev.wit("line:fitness-vs-coverage", f"suite classes: LineTestSuiteFitnessFunction={lfit!r}, TestSuiteLineCoverageFunction={lcov!r}")
            if (cfit == 0) != (ccov == 1.0):
                ev.wit("checked:fitness-vs-coverage", f"suite classes: StatementCheckedTestSuiteFitnessFunction={cfit!r}, coverage={ccov!r}")
            if s["fit"] is not None and bfit != s["fit"]:
                ev.wit("class-vs-pure:branch-fitness", f"class {bfit!r} vs compute_branch_distance_fitness {s['fit']!r}")
            if s["cov"] is not None and bcov != s["cov"]:
                ev.wit("class-vs-pure:branch-coverage", f"class {bcov!r} vs compute_branch_coverage {s['cov']!r}")
            if lfit == 0:
                ev.classes.add("suite:line-fitness-zero")
            if cfit == 0:
                ev.classes.add("suite:checked-fitness-zero")

    # --- goals: every goal against every single test; fraction of covered goals against suite coverage
    pool = cg.BranchGoalPool(sp)
    goals = list(pool.branch_coverage_goals)
    covered_by_any = set()
    gffs = [cg.BranchCoverageTestFitness(executor, g) for g in goals]
    line_ffs = list(cg.create_line_coverage_fitness_functions(executor))
    chk_ffs = list(cg.create_checked_coverage_fitness_functions(executor))
    for ti, (t, r) in enumerate(zip(traces, results)):
        for gi, (g, gf) in enumerate(zip(goals, gffs)):
            ind = _mk_test_chromosome(r)
            okf, fit = ev.call("BranchCoverageTestFitness.compute_fitness", gf.compute_fitness, ind)
            okc, isc = ev.call("BranchCoverageTestFitness.compute_is_covered", gf.compute_is_covered, ind)
            okg, gisc = ev.call(f"{type(g).__name__}.is_covered", g.is_covered, r)
            if not (okf and okc and okg):
                continue
            extra = {"goal": repr(g), "test": ti}
            family = "branch-goal" if g.is_branch else "branchless-goal"
            if ev.fitness_ok("BranchCoverageTestFitness", fit, extra):
                ev.verdict(family, f"BranchCoverageTestFitness({g!r}).compute_is_covered", fit, isc, extra)
                ev.verdict(family, f"{g!r}.is_covered", fit, gisc, extra)
            if gisc:
                covered_by_any.add(gi)
            if g.is_branch:
                pid = g.predicate_id
                code = sp.existing_predicates[pid].code_object_id
                if gisc:
                    ev.classes.add("goal:branch:covered")
                elif pid in t.executed_predicates:
                    ev.classes.add("goal:branch:executed-not-covered")
                elif code in t.executed_code_objects:
                    ev.classes.add("goal:branch:approach-level")
                else:
                    ev.classes.add("goal:branch:code-object-not-executed")
            else:
                ev.classes.add("goal:branchless:covered" if gisc else "goal:branchless:uncovered")
        if ti == 0 or rng.random() < 0.5:
            for fam, fns, cls in (("line-goal", line_ffs, "goal:line"), ("checked-goal", chk_ffs, "goal:checked")):
                for lf in fns:
                    ind = _mk_test_chromosome(r)
                    okf, fit = ev.call(f"{type(lf).__name__}.compute_fitness", lf.compute_fitness, ind)
                    okc, isc = ev.call(f"{type(lf).__name__}.compute_is_covered", lf.compute_is_covered, ind)
                    if okf and okc and ev.fitness_ok(type(lf).__name__, fit):
                        ev.verdict(fam, f"{lf}", fit, isc, {"test": ti})
                    ev.classes.add(cls)
        # test-case level function classes through the cache
        if ti == 0 or rng.random() < 0.4:
            tff = ff.BranchDistanceTestCaseFitnessFunction(executor, 0)
            extra_goal = [(gffs[rng.randrange(len(gffs))], "goal")] if gffs else []
            tffs = [(tff, "branch-distance")] + [
                (f, "branch-goal" if f.goal.is_branch else "branchless-goal") for f, _ in extra_goal
            ]
            tcfs = [(ff.TestCaseBranchCoverageFunction(executor), "branch"), (ff.TestCaseLineCoverageFunction(executor), "line"),
                    (ff.TestCaseStatementCheckedCoverageFunction(executor), "checked")]
            g1 = _cache_both_orders(ev, lambda r=r: _mk_test_chromosome(r), tffs, tcfs, "testcase")
            try:
                tf, tcv = g1[0][0][0], g1["TestCaseBranchCoverageFunction"][0]
                if (tf == 0) != (tcv == 1.0):
                    ev.wit("branch:fitness-zero-but-coverage-below-1" if tf == 0 else "branch:coverage-1-but-fitness-positive",
                           f"test-case classes: fitness {tf!r}, coverage {tcv!r}", {"test": ti})
            except (KeyError, IndexError):
                pass
            _pure_level(ev, t, "testcase")
            ev.classes.add("testcase-level")
    if goals and s["cov"] is not None:
        frac = len(covered_by_any) / len(goals)
        if not math.isclose(frac, s["cov"], rel_tol=1e-12):
            ev.wit("goals-vs-suite:covered-goal-fraction!=branch-coverage",
                   f"{len(covered_by_any)}/{len(goals)} goals covered by some test but suite branch coverage is {s['cov']!r}")
    if executor.executions:
        ctx.inconclusive_because("prepared executor was asked to execute: chromosomes were not served from the prepared results")

    nontrivial = shape["code_objects"] > 0
    ctx.ok(cls=sorted(ev.classes), distinct=ev.case() if nontrivial else None)
    ctx.count("goal_evaluations", len(goals) * len(traces))
    if len(ctx.samples) < 3 and shape["predicates"] and how.get("real"):
        ctx.sample({"registry": shape, "n_traces": len(traces), "suite_branch_fitness": s["fit"], "suite_branch_coverage": s["cov"], "how": how})


# ------------------------------------------------------------------------------------------------
def _suites_for(ctx, rng, reg, n_pairs, real_share):
    from vlib import fitreg

    for _ in range(n_pairs):
        size = rng.choice([1, 1, 2, 2, 3, 5])
        if reg.module is not None and rng.random() < real_share:
            got = fitreg.real_traces(rng, reg, size)
            traces = [t for t, _ in got]
            how = {"real": True, "calls": [c for _, c in got]}
        else:
            style = rng.choice([None, None, None, "full", "once", "far", "empty"])
            traces = [fitreg.random_trace(rng, reg, style if rng.random() < 0.7 else None) for _ in range(size)]
            how = {"real": False, "style": style}
        _evaluate(ctx, reg, traces, how, rng)


def run_chunk(spec, ctx):
    from vlib import fitreg

    if spec["name"] == "directed":
        rng = random.Random(1010)
        regs = []
        for name, src in fitreg.STATIC_SOURCES.items():
            regs.append(fitreg.instrument_source(ctx.scratch, src, name))
        for reg in regs:
            # real executions, empty trace, fully covering synthetic trace, every derived registry kind
            _suites_for(ctx, rng, reg, 40, 1.0)
            for style in ("empty", "full", "once", "far", "nearfull", "sparse"):
                for size in (1, 2, 3, 1, 2, 4):
                    _evaluate(ctx, reg, [fitreg.random_trace(rng, reg, style) for _ in range(size)], {"real": False, "style": style}, rng)
            # the threshold is crossed only by merging: every predicate executed once per test, twice in the suite
            _evaluate(ctx, reg, [fitreg.random_trace(rng, reg, "once") for _ in range(2)], {"real": False, "style": "once+once"}, rng)
            for mode in ("subset", "no-predicates", "no-lines", "only-branching", "empty", "all"):
                for _ in range(3):
                    d = fitreg.derive_registry(rng, reg, mode)
                    for style in ("empty", "full", None, None, "once", "far"):
                        _evaluate(ctx, d, [fitreg.random_trace(rng, d, style) for _ in range(rng.choice([1, 2, 3]))],
                                  {"real": False, "style": style}, rng)
        return

    rng = random.Random(spec["seed"] * 7919 + spec["part"] * 101 + 10)
    for mi in range(spec["modules"]):
        src = fitreg.gen_source(rng) if rng.random() < 0.85 else rng.choice(list(fitreg.STATIC_SOURCES.values()))
        try:
            reg = fitreg.instrument_source(ctx.scratch, src, f"p{spec['part']}")
        except Exception as e:  # noqa: BLE001 - instrumentation failures are C01's business
            ctx.anomaly(f"instrumentation-raised:{type(e).__name__}")
            continue
        _suites_for(ctx, rng, reg, 40, 0.35)
        for _ in range(4):
            d = fitreg.derive_registry(rng, reg)
            _suites_for(ctx, rng, d, 15, 0.0)
