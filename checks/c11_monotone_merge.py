"""C11 — adding a test is monotone for every coverage / fitness function; trace merging is order-independent.

Shape: metamorphic relations on the real ExecutionTrace.merge / analyze_results and on the real suite
fitness / coverage functions (pure functions and the function classes through real suite chromosomes).

For a family of 2-8 valid traces over C10's registries the merged trace is computed in five orders
(identity, reversed, three random permutations) with the real analyze_results (left fold), and for two
orders additionally as a right fold and as a pairwise tree with the real ExecutionTrace.merge; the
order-independent components (sets, dicts, multiset of instructions, the instruction every executed
assertion points at) and all fitness / coverage values have to agree.  Then the tests are added one by
one to a real TestSuiteChromosome: no coverage function may decrease, no fitness function may increase.
"""

from __future__ import annotations

import collections
import math
import random

ID = "C11"
LEVEL = "exploration"
RULE = (
    "families of 2-8 valid traces (real executions and synthetic; overlapping predicates; every predicate executed "
    "once per test so that the '>= 2 executions' threshold is crossed only by merging; the same result object shared "
    "by two tests as clones do; synthetic instruction lists with assertion positions) over instrumented and derived "
    "registries; oracle = equality of the order-independent components and of all suite fitness/coverage values "
    "across 5 orders x {left fold = analyze_results, right fold, pairwise tree}, and monotonicity of every "
    "coverage (non-decreasing) and fitness (non-increasing) function while tests are added one by one to a real "
    "TestSuiteChromosome; a family is distinct by (registry, traces) and non-trivial when >= 2 traces are non-empty"
)
ASSUMPTIONS = [
    "traces are valid by construction (see vlib/fitreg.py); OrderedSet iteration order, instruction order and raw "
    "assertion positions depend on the merge order by construction and are compared as sets / multisets / through "
    "the instruction an assertion position points at",
    "deviations of the merged trace from the union/sum/min model are recorded as anomalies only (the statement asks "
    "for order-independence and monotonicity, not for a particular merge function)",
    "assertion checked coverage (slicing) is not exercised",
]
CHUNK_TIMEOUT = 900

COMPONENTS = ["executed_code_objects", "executed_predicates", "true_distances", "false_distances", "covered_line_ids",
              "checked_lines", "object_addresses", "instructions", "assertion-targets"]


def floors(tier):
    k = 1 if tier == "quick" else 8
    return {
        "evals": 6000 * k,
        "distinct": 4000 * k,
        "classes": {
            "family:threshold-crossed-by-merge": 300,
            "family:shared-result-object": 200,
            "family:real-traces": 200,
            "family:instructions-and-assertions": 300,
            "family:size>=5": 500,
            "family:inf-distance": 300,
            "family:full-branch-coverage-reached": 100,
            "family:contains-empty-trace": 100,
            "monotone:coverage-strictly-increased": 1000,
            "monotone:fitness-strictly-decreased": 1000,
            "monotone:no-change-step": 500,
            "grouping:right-fold": 2000,
            "grouping:tree": 2000,
            "order:permutation": 2000,
            "registry:derived": 500,
            "registry:instrumented": 500,
        },
    }


def plan(tier, seed):
    nchunks = 15 if tier == "quick" else 60
    mods = 9 if tier == "quick" else 22
    return [{"name": "directed", "seed": seed}] + [
        {"name": "random", "seed": seed, "part": i, "modules": mods} for i in range(nchunks)
    ]


# ------------------------------------------------------------------------------------------------
def _components(t):
    instr = t.executed_instructions
    targets = collections.Counter()
    for a in t.executed_assertions:
        pos = a.trace_position
        targets[(repr(a.assertion), instr[pos] if 0 <= pos < len(instr) else "position-out-of-range")] += 1
    return {
        "executed_code_objects": frozenset(t.executed_code_objects),
        "executed_predicates": dict(t.executed_predicates),
        "true_distances": dict(t.true_distances),
        "false_distances": dict(t.false_distances),
        "covered_line_ids": frozenset(t.covered_line_ids),
        "checked_lines": frozenset(t.checked_lines),
        "object_addresses": frozenset(t.object_addresses),
        "instructions": collections.Counter(instr),
        "assertion-targets": targets,
    }


def _model(traces):
    """Union / sum / min model (anomaly only)."""
    m = {"executed_code_objects": set(), "executed_predicates": {}, "true_distances": {}, "false_distances": {},
         "covered_line_ids": set(), "checked_lines": set()}
    for t in traces:
        m["executed_code_objects"] |= set(t.executed_code_objects)
        m["covered_line_ids"] |= set(t.covered_line_ids)
        m["checked_lines"] |= set(t.checked_lines)
        for p, n in t.executed_predicates.items():
            m["executed_predicates"][p] = m["executed_predicates"].get(p, 0) + n
        for name in ("true_distances", "false_distances"):
            for p, d in getattr(t, name).items():
                m[name][p] = min(m[name].get(p, math.inf), d)
    return m


def _add_instructions(rng, t, tag):
    """Synthetic executed instructions plus assertion positions (through the real trace API)."""
    from pynguin.instrumentation.tracer import ExecutedAssertion

    n = rng.randint(0, 6)
    for i in range(n):
        t.add_instruction(f"mod{tag}", rng.randint(0, 3), rng.randint(0, 4), rng.choice([1, 83, 100, 114]), rng.randint(1, 30), 2 * i)
    for j in range(rng.randint(0, 2) if n else 0):
        t.executed_assertions.append(ExecutedAssertion(rng.randrange(n), f"assertion-{tag}-{j}"))
    for _ in range(rng.randint(0, 2)):
        t.object_addresses.add(rng.randint(1000, 1010))


class _Fam:
    def __init__(self, ctx, reg, traces, how):
        from vlib import fitreg

        self.ctx, self.reg, self.traces, self.how = ctx, reg, traces, how
        self.fitreg = fitreg
        self.classes = set()
        self.failed = False

    def case(self, extra=None):
        c = {"registry": self.fitreg.registry_to_json(self.reg),
             "traces": [self.fitreg.trace_to_json(t) for t in self.traces], "how": self.how}
        if extra:
            c.update(extra)
        return c

    def wit(self, key, desc, extra=None):
        self.failed = True
        full = self.ctx._wit_per_key[key] < 5  # noqa: SLF001
        self.ctx.witness(key, desc, self.case(extra) if full else None)

    def call(self, name, fn, *a, **kw):
        try:
            return True, fn(*a, **kw)
        except Exception as e:  # noqa: BLE001
            self.wit(f"raises:{type(e).__name__}:{name}", f"{name} raised {e!r}")
            return False, None


def _values(fam, merged, excl):
    """All suite-level pure fitness / coverage values of a merged trace."""
    import pynguin.ga.fitness_metrics as fm

    sp = fam.reg.sp
    vals = {}
    for name, fn in (
        ("compute_branch_distance_fitness", lambda: fm.compute_branch_distance_fitness(merged, sp)),
        ("compute_branch_distance_fitness[excl]", lambda: fm.compute_branch_distance_fitness(merged, sp, *[set(x) for x in excl])),
        ("compute_branch_coverage", lambda: fm.compute_branch_coverage(merged, sp)),
        ("compute_line_coverage", lambda: fm.compute_line_coverage(merged, sp)),
        ("compute_branch_distance_fitness_is_covered", lambda: fm.compute_branch_distance_fitness_is_covered(merged, sp)),
        ("compute_line_coverage_fitness_is_covered", lambda: fm.compute_line_coverage_fitness_is_covered(merged, sp)),
    ):
        ok, v = fam.call(name, fn)
        if ok:
            vals[name] = v
    return vals


def _fold_left(fm, results):
    return fm.analyze_results(results)


def _fold_right(ExecutionTrace, traces):
    acc = ExecutionTrace()
    for t in reversed(traces):
        new = ExecutionTrace()
        new.merge(t)
        new.merge(acc)
        acc = new
    return acc


def _fold_tree(ExecutionTrace, traces):
    level = []
    for t in traces:
        c = ExecutionTrace()
        c.merge(t)
        level.append(c)
    while len(level) > 1:
        nxt = []
        for i in range(0, len(level) - 1, 2):
            level[i].merge(level[i + 1])
            nxt.append(level[i])
        if len(level) % 2:
            nxt.append(level[-1])
        level = nxt
    return level[0] if level else ExecutionTrace()


def _family(ctx, reg, traces, how, rng):
    import pynguin.ga.computations as ff
    import pynguin.ga.fitness_metrics as fm
    import pynguin.ga.testcasechromosome as tcc
    import pynguin.ga.testsuitechromosome as tsc
    import pynguin.testcase.testcase as tc

    from pynguin.instrumentation.tracer import ExecutionTrace

    from vlib import fitreg

    fam = _Fam(ctx, reg, traces, how)
    sp = reg.sp
    n = len(traces)
    results = {id(t): fitreg.make_result(t) for t in traces}  # a shared trace object => a shared result object
    before = [_components(t) for t in traces]
    preds = list(sp.existing_predicates)
    excl = ({c for c in sp.existing_code_objects if rng.random() < 0.3}, {p for p in preds if rng.random() < 0.4},
            {p for p in preds if rng.random() < 0.4})

    # ---- classes of the family
    fam.classes.add("registry:instrumented" if reg.kind == "instrumented" else "registry:derived")
    if n >= 5:
        fam.classes.add("family:size>=5")
    if len({id(t) for t in traces}) < n:
        fam.classes.add("family:shared-result-object")
    if how.get("real"):
        fam.classes.add("family:real-traces")
    if any(t.executed_instructions and t.executed_assertions for t in traces):
        fam.classes.add("family:instructions-and-assertions")
    if any(not t.executed_code_objects for t in traces):
        fam.classes.add("family:contains-empty-trace")
    if any(d == math.inf for t in traces for d in list(t.true_distances.values()) + list(t.false_distances.values())):
        fam.classes.add("family:inf-distance")
    per_pred = collections.defaultdict(list)
    for t in traces:
        for p, c in t.executed_predicates.items():
            per_pred[p].append(c)
    crossing = [p for p, cs in per_pred.items() if max(cs) == 1 and len(cs) >= 2]

    # ---- order / grouping independence
    orders = [("identity", list(range(n))), ("reversed", list(range(n - 1, -1, -1)))]
    for k in range(3):
        perm = list(range(n))
        rng.shuffle(perm)
        orders.append((f"permutation{k}", perm))
    reference = None
    ref_vals = None
    ref_name = None
    for oi, (oname, perm) in enumerate(orders):
        seq = [traces[i] for i in perm]
        variants = [("left-fold", lambda seq=seq: _fold_left(fm, [results[id(t)] for t in seq]))]
        if oi in (0, 2):
            variants.append(("right-fold", lambda seq=seq: _fold_right(ExecutionTrace, seq)))
            variants.append(("tree", lambda seq=seq: _fold_tree(ExecutionTrace, seq)))
        for gname, build in variants:
            ok, merged = fam.call(f"merge:{gname}", build)
            if not ok:
                continue
            comp = _components(merged)
            vals = _values(fam, merged, excl)
            if reference is None:
                reference, ref_vals, ref_name = comp, vals, f"{oname}/{gname}"
                if crossing and any(merged.executed_predicates.get(p, 0) >= 2 and
                                    (merged.true_distances.get(p) != 0.0 or merged.false_distances.get(p) != 0.0) for p in crossing):
                    fam.classes.add("family:threshold-crossed-by-merge")
                model = _model(traces)
                for cname, mv in model.items():
                    got = comp[cname]
                    if (set(got) if isinstance(mv, set) else got) != mv:
                        ctx.anomaly(f"merge-model:{cname}-differs-from-union/sum/min")
                if vals.get("compute_branch_coverage") == 1.0 and sp.existing_predicates:
                    fam.classes.add("family:full-branch-coverage-reached")
                continue
            kind = "order-dependent" if gname == "left-fold" else "grouping-dependent"
            for cname in COMPONENTS:
                if comp[cname] != reference[cname]:
                    fam.wit(f"merge:{kind}:{cname}",
                            f"{cname} of the merged trace differs between {ref_name} and {oname}/{gname}: "
                            f"{_short(reference[cname])} vs {_short(comp[cname])}", {"order": perm, "grouping": gname})
            for vname, v in vals.items():
                if vname in ref_vals and v != ref_vals[vname]:
                    fam.wit(f"merged-value:{kind}:{vname}",
                            f"{vname} differs between {ref_name} ({ref_vals[vname]!r}) and {oname}/{gname} ({v!r})",
                            {"order": perm, "grouping": gname})
            fam.classes.add({"left-fold": "order:permutation", "right-fold": "grouping:right-fold", "tree": "grouping:tree"}[gname])
    # merging must leave its sources alone (otherwise the second order already sees other inputs)
    for i, t in enumerate(traces):
        after = _components(t)
        for cname in COMPONENTS:
            if after[cname] != before[i][cname]:
                fam.wit(f"merge:source-trace-mutated:{cname}", f"trace {i}: {cname} changed from {_short(before[i][cname])} to {_short(after[cname])}")
                break

    # ---- monotonicity while adding tests one by one to a real suite chromosome (random order)
    executor = fitreg.make_fake_executor(sp)
    bsf = ff.BranchDistanceTestSuiteFitnessFunction(executor)
    bsx = ff.BranchDistanceTestSuiteFitnessFunction(executor)
    bsx.restrict(*[set(x) for x in excl])
    fit_fns = [("BranchDistanceTestSuiteFitnessFunction", bsf), ("BranchDistanceTestSuiteFitnessFunction[restricted]", bsx),
               ("LineTestSuiteFitnessFunction", ff.LineTestSuiteFitnessFunction(executor)),
               ("StatementCheckedTestSuiteFitnessFunction", ff.StatementCheckedTestSuiteFitnessFunction(executor))]
    cov_fns = [("TestSuiteBranchCoverageFunction", ff.TestSuiteBranchCoverageFunction(executor)),
               ("TestSuiteLineCoverageFunction", ff.TestSuiteLineCoverageFunction(executor)),
               ("TestSuiteStatementCheckedCoverageFunction", ff.TestSuiteStatementCheckedCoverageFunction(executor))]
    suite = tsc.TestSuiteChromosome()
    for _, f in fit_fns:
        suite.add_fitness_function(f)
    for _, c in cov_fns:
        suite.add_coverage_function(c)
    perm = orders[rng.randrange(len(orders))][1]
    prev = None
    prev_pure = None
    for step, i in enumerate([None] + perm):
        if i is not None:
            ch = tcc.TestCaseChromosome(tc.TestCase())
            ch.set_last_execution_result(results[id(traces[i])])
            ch.changed = False
            suite.add_test_case_chromosome(ch)
        cur = {}
        for name, f in fit_fns:
            ok, v = fam.call(f"{name}.get_fitness_for", suite.get_fitness_for, f)
            if ok:
                cur[name] = ("fitness", v)
        for name, c in cov_fns:
            ok, v = fam.call(f"{name}.get_coverage_for", suite.get_coverage_for, c)
            if ok:
                cur[name] = ("coverage", v)
        ok, merged = fam.call("analyze_results", fm.analyze_results, [results[id(traces[j])] for j in perm[:step]])
        pure = {k: ("coverage" if "coverage" in k and "fitness" not in k else "fitness", v)
                for k, v in (_values(fam, merged, excl).items() if ok else []) if not k.endswith("is_covered")}
        for label, now, old in (("class", cur, prev), ("pure", pure, prev_pure)):
            if old is None:
                continue
            changed = False
            for name, (kind, v) in now.items():
                if name not in old:
                    continue
                o = old[name][1]
                if kind == "coverage":
                    if v < o:
                        fam.wit(f"monotone:coverage-decreased:{name}", f"adding test {i} lowered {name} from {o!r} to {v!r}", {"order": perm, "step": step})
                    elif v > o:
                        fam.classes.add("monotone:coverage-strictly-increased")
                        changed = True
                else:
                    if v > o:
                        fam.wit(f"monotone:fitness-increased:{name}", f"adding test {i} raised {name} from {o!r} to {v!r}", {"order": perm, "step": step})
                    elif v < o:
                        fam.classes.add("monotone:fitness-strictly-decreased")
                        changed = True
            if not changed and label == "class":
                fam.classes.add("monotone:no-change-step")
        # the class values of the full suite agree with the pure values of the merged trace
        if ok and "BranchDistanceTestSuiteFitnessFunction" in cur and "compute_branch_distance_fitness" in pure:
            if cur["BranchDistanceTestSuiteFitnessFunction"][1] != pure["compute_branch_distance_fitness"][1]:
                fam.wit("suite-class-vs-merged-trace:branch-fitness",
                        f"suite of {step} tests: class value {cur['BranchDistanceTestSuiteFitnessFunction'][1]!r} vs pure {pure['compute_branch_distance_fitness'][1]!r}")
        prev, prev_pure = cur, pure
        ctx.count("monotone_steps")
    if executor.executions:
        ctx.inconclusive_because("prepared executor was asked to execute")

    nonempty = sum(1 for t in traces if t.executed_code_objects)
    ctx.ok(cls=sorted(fam.classes), distinct=fam.case() if nonempty >= 2 else None)
    if not fam.failed and len(ctx.samples) < 3 and crossing and n <= 3:
        ctx.sample({"registry": reg.shape(), "traces": [fitreg.trace_to_json(t) for t in traces], "merged_values": ref_vals})


def _short(x):
    s = repr(dict(x) if isinstance(x, collections.Counter) else (sorted(x) if isinstance(x, frozenset) else x))
    return s[:160]


# ------------------------------------------------------------------------------------------------
def _make_family(rng, reg, kind=None):
    from vlib import fitreg

    kind = kind or rng.choice(["mix", "mix", "mix", "once", "once", "real", "real", "shared", "instr", "empty-mixed", "full-by-union", "far"])
    n = rng.choice([2, 2, 3, 3, 4, 5, 6, 8])
    how = {"kind": kind}
    if kind == "real" and reg.module is not None:
        traces = [t for t, _ in fitreg.real_traces(rng, reg, n)]
        how["real"] = True
    elif kind == "once":
        traces = [fitreg.random_trace(rng, reg, "once") for _ in range(n)]
    elif kind == "far":
        traces = [fitreg.random_trace(rng, reg, rng.choice(["far", "once"])) for _ in range(n)]
    elif kind == "full-by-union":
        traces = [fitreg.random_trace(rng, reg, rng.choice(["nearfull", "full", "once"])) for _ in range(n)]
    elif kind == "empty-mixed":
        traces = [fitreg.random_trace(rng, reg, rng.choice(["empty", None, "sparse"])) for _ in range(n)]
    else:
        traces = [fitreg.random_trace(rng, reg, None) for _ in range(n)]
    if kind == "shared" or rng.random() < 0.1:
        # clones of a test case chromosome share the execution result object
        for _ in range(rng.randint(1, 2)):
            traces.insert(rng.randrange(len(traces) + 1), rng.choice(traces))
    if kind == "instr" or rng.random() < 0.25:
        seen = set()
        for i, t in enumerate(traces):
            if id(t) not in seen:
                seen.add(id(t))
                _add_instructions(rng, t, i)
    return traces, how


def run_chunk(spec, ctx):
    from vlib import fitreg

    if spec["name"] == "directed":
        rng = random.Random(1111)
        regs = [fitreg.instrument_source(ctx.scratch, src, name) for name, src in fitreg.STATIC_SOURCES.items()]
        for reg in regs:
            variants = [reg] + [fitreg.derive_registry(rng, reg, m) for m in ("subset", "all", "only-branching", "no-predicates", "no-lines")]
            for r in variants:
                for kind in ("once", "real", "shared", "instr", "empty-mixed", "full-by-union", "far", "mix"):
                    for _ in range((30 if kind == "real" else 6) if r is reg else 2):
                        traces, how = _make_family(rng, r, kind)
                        _family(ctx, r, traces, how, rng)
        return
    rng = random.Random(spec["seed"] * 7919 + spec["part"] * 101 + 11)
    for _ in range(spec["modules"]):
        src = fitreg.gen_source(rng) if rng.random() < 0.85 else rng.choice(list(fitreg.STATIC_SOURCES.values()))
        try:
            reg = fitreg.instrument_source(ctx.scratch, src, f"q{spec['part']}")
        except Exception as e:  # noqa: BLE001 - C01's business
            ctx.anomaly(f"instrumentation-raised:{type(e).__name__}")
            continue
        for _ in range(25):
            traces, how = _make_family(rng, reg)
            _family(ctx, reg, traces, how, rng)
        for _ in range(3):
            d = fitreg.derive_registry(rng, reg, rng.choice(["subset", "subset", "all", "only-branching", "no-lines"]))
            for _ in range(8):
                traces, how = _make_family(rng, d)
                _family(ctx, d, traces, how, rng)
