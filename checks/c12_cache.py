"""C12 — cached fitness / covered verdict / coverage values are never stale; queries never fail.

Shape: invariant at a hook + shadow recomputation over random operation histories.

The query methods of the real ``Chromosome`` class (get_fitness_for, get_is_covered, get_coverage_for,
get_fitness, get_coverage) are wrapped.  Every time a history passes through one of them the wrapper
recomputes the value from scratch: it builds a *fresh* chromosome from the current tests (cloned test
cases, new chromosome objects, empty caches, no execution results) and calls the function's compute_*
directly.  Returned value != recomputed value is a witness; an exception for a registered function is a
witness.

Fitness / coverage functions are deterministic subclasses of the real abstract function classes.  They
run the chromosome through the real ``_run_test_case_chromosome`` / ``_run_test_suite_chromosome`` (so
the per-test ``changed`` flag and ``last_execution_result`` reuse are exercised) with an executor whose
result is a pure function of the rendered statements (crc32 of each line -> covered line ids, predicate
hit counts and distances, sometimes an exception position).  Compute invocations and executions are
counted, so that cache hits are observable.

Histories (5-60 operations) drive the real operators: TestCaseChromosome.mutate (real TestFactory on a
generated cluster), SinglePointRelativeCrossOver on test cases and on suites, TestSuiteChromosome.mutate,
clone, add/delete/set test, add fitness/coverage function, queries for one or all functions in random
order, changed=True, invalidate_cache, set_fitness_values(correct values), the generator's
_reset_cache_for_result protocol and the local-search replace-member protocol.
"""

from __future__ import annotations

import math
import random
import sys
import zlib

ID = "C12"
LEVEL = "exploration"
RULE = (
    "operation histories of length 5-60 over a world of 4 test-case chromosomes and 3 suite chromosomes built by the "
    "real TestFactory on a generated cluster (3 SUT modules, varying chromosome_length and mutation probabilities); "
    "operations = real mutate / crossover / clone / add, delete, replace test / add function / queries (one or all, "
    "random order) / changed=True / invalidate_cache / set_fitness_values / reset-for-re-execution; oracle = every "
    "value returned by a wrapped Chromosome query equals the value recomputed on a fresh chromosome built from the "
    "current statements with the same deterministic functions, and no query for a registered function raises; a "
    "history is distinct by its operation sequence and the rendered tests, non-trivial when it contains a "
    "modification followed by a query"
)
ASSUMPTIONS = [
    "the executor is a pure function of the rendered statement nodes (code_for_node per statement, not the TestCase code cache); real "
    "execution noise (flaky SUTs, timeouts) is out of scope",
    "an empty test case contributes nothing to any function, so TestSuiteMutation dropping empty tests without "
    "setting changed is not observable (recorded as anomaly only)",
    "member test cases of a suite are only modified through the suite's own operators or the local-search protocol "
    "(member.changed=True + set_test_case_chromosome); silent outside modification is the caller's business",
    "get_fitness() is compared with a relative tolerance of 1e-9 (summation order of the cache dict is unspecified)",
    "operator exceptions (mutate/crossover raising) are C15's business and only recorded as anomalies",
]
CHUNK_TIMEOUT = 900

L = 64  # number of pseudo lines
P = 24  # number of pseudo predicates

SUTS = {
    "acc": (
        "class Acc:\n"
        "    def __init__(self, start: int = 0):\n"
        "        self.total = start\n"
        "    def add(self, x: int) -> int:\n"
        "        self.total += x\n"
        "        return self.total\n"
        "    def scale(self, f: float) -> float:\n"
        "        return self.total * f\n"
        "\n"
        "def triangle(a: int, b: int, c: int) -> str:\n"
        "    if a == b == c:\n"
        "        return 'eq'\n"
        "    if a == b or b == c:\n"
        "        return 'iso'\n"
        "    return 'sca'\n"
        "\n"
        "def greet(name: str, times: int = 1) -> str:\n"
        "    return ('hi ' + name) * times\n"
        "\n"
        "def use(acc: Acc, n: int) -> int:\n"
        "    return acc.add(n)\n"
    ),
    "funcs": (
        "def f(a: int) -> int:\n"
        "    return a + 1\n"
        "\n"
        "def g(s: str, b: bool) -> str:\n"
        "    return s if b else ''\n"
        "\n"
        "def h(x: float, y: float) -> float:\n"
        "    return x * y\n"
    ),
    "shapes": (
        "import enum\n"
        "class Color(enum.Enum):\n"
        "    RED = 1\n"
        "    BLUE = 2\n"
        "\n"
        "class Shape:\n"
        "    def __init__(self, sides: int, color: Color):\n"
        "        self.sides = sides\n"
        "        self.color = color\n"
        "    def area(self, scale: float) -> float:\n"
        "        return self.sides * scale\n"
        "    def recolor(self, color: Color) -> 'Shape':\n"
        "        return Shape(self.sides, color)\n"
        "\n"
        "def biggest(shapes: list[Shape]) -> Shape | None:\n"
        "    return max(shapes, key=lambda s: s.sides) if shapes else None\n"
        "\n"
        "def describe(shape: Shape, prefix: str = 'a') -> str:\n"
        "    return prefix + str(shape.sides)\n"
    ),
}


def floors(tier):
    k = 1 if tier == "quick" else 8
    return {
        "evals": 40000 * k,
        "distinct": 1800 * k,
        "classes": {
            "history": 2000 * k,
            "query:cache-hit": 3000,
            "query:recomputed": 3000,
            "query:after-modification": 2000,
            "query:get_fitness_for": 2000,
            "query:get_is_covered": 2000,
            "query:get_coverage_for": 2000,
            "query:get_fitness": 300,
            "query:get_coverage": 300,
            "query:is_covered:computed-by-compute_is_covered": 300,
            "query:is_covered:served-from-cache": 300,
            "query:suite": 3000,
            "query:testcase": 3000,
            "query:member-of-suite": 300,
            "verdict:covered-true": 200,
            "op:tc-mutate:modified": 1000,
            "op:tc-mutate:unmodified": 100,
            "op:tc-mutate:no-call-on-sut": 60,
            "op:tc-mutate:chopped-to-no-call-on-sut": 30,
            "op:tc-crossover:modified": 300,
            "op:tc-clone": 500,
            "op:suite-mutate:modified": 500,
            "op:suite-crossover:modified": 300,
            "op:suite-clone": 500,
            "op:suite-add-test": 500,
            "op:suite-delete-test": 300,
            "op:suite-replace-member": 300,
            "op:add-fitness-function": 500,
            "op:add-coverage-function": 500,
            "op:set-changed": 300,
            "op:invalidate": 300,
            "op:set-fitness-values": 200,
            "op:reset-for-reexecution": 200,
            "op:query-unregistered": 100,
            "clone-then-diverge": 300,
            "registered-fitness-functions:checked-against-shadow": 2000,
            "clone-then-register-on-one-copy": 100,
            "xover-direct:suite": 150,
            "xover-direct:suite:p1=0": 30,
            "xover-direct:suite:p1=1": 30,
            "xover-direct:suite:p1=size-1": 30,
            "xover-direct:suite:p1=size": 30,
            "xover-direct:suite:p2=0": 30,
            "xover-direct:suite:p2=size-1": 30,
            "xover-direct:suite:p2=size": 30,
            "xover-direct:suite:p2=>size": 30,
            "xover-direct:suite:other=pool": 30,
            "xover-direct:suite:other=empty": 30,
            "xover-direct:suite:other=clone-of-self": 30,
            "xover-direct:suite:self-empty": 20,
            "xover-direct:suite:tail-empty": 20,
            "xover-direct:suite:head-empty": 20,
            "xover-direct:suite:shrinks-only": 20,
            "xover-direct:suite:grows-only": 10,
            "xover-direct:testcase": 150,
            "xover-direct:testcase:p1=0": 30,
            "xover-direct:testcase:p1=1": 30,
            "xover-direct:testcase:p1=size-1": 30,
            "xover-direct:testcase:p1=size": 30,
            "xover-direct:testcase:p2=0": 30,
            "xover-direct:testcase:p2=size-1": 30,
            "xover-direct:testcase:p2=size": 30,
            "xover-direct:testcase:p2=>size": 30,
            "xover-direct:testcase:other=pool": 30,
            "xover-direct:testcase:other=empty": 30,
            "xover-direct:testcase:other=clone-of-self": 30,
            "xover-direct:testcase:self-empty": 20,
            "xover-direct:testcase:tail-empty": 20,
            "xover-direct:testcase:head-empty": 20,
            "xover-direct:testcase:shrinks-only": 20,
            "xover-direct:testcase:grows-only": 10,
            "degenerate:suite:add-empty-list": 20,
            "degenerate:suite:delete-only-test": 20,
            "degenerate:suite:delete-absent-test": 20,
            "degenerate:suite:set-index-0": 20,
            "degenerate:suite:set-index-last": 20,
            "degenerate:suite:set-same-object": 20,
            "degenerate:suite:delete-first": 20,
            "degenerate:suite:delete-last": 20,
            "degenerate:suite:add-to-empty": 20,
            "degenerate:suite:add-list-of-one": 20,
            "degenerate:testcase:set-empty-test-case": 20,
            "degenerate:testcase:set-test-case-clone": 20,
            "degenerate:testcase:set-other-test-case": 20,
            "degenerate:testcase:remove-last-execution-result": 20,
            "degenerate:testcase:remove-all-statements": 20,
        },
    }


def plan(tier, seed):
    nchunks = 15 if tier == "quick" else 60
    n = 140 if tier == "quick" else 300
    return [{"name": "directed", "seed": seed, "sut": name} for name in SUTS] + [
        {"name": "random", "seed": seed, "part": i, "histories": n} for i in range(nchunks)
    ]


# ------------------------------------------------------------------------------------------------
# deterministic executor and functions
_MEMO: dict = {}
_EMPTY_MODULE = []


def _render(test_case):
    """Rendered statements of a test case (libcst nodes are immutable: code is memoised per node object)."""
    if not _EMPTY_MODULE:
        import libcst as cst

        _EMPTY_MODULE.append(cst.Module(body=[]))
    out = []
    for st in test_case.statements():
        node = st.node
        e = _MEMO.get(id(node))
        if e is None or e[0] is not node:
            e = _MEMO[id(node)] = (node, _EMPTY_MODULE[0].code_for_node(node))
        out.append(e[1])
    return "".join(out)


def _mk_functions():
    """Deterministic executor + function classes (built lazily: they subclass pynguin classes)."""
    import contextlib

    import pynguin.ga.computations as ff

    from pynguin.ga.fitness_metrics import analyze_results, normalise
    from pynguin.instrumentation.tracer import SubjectProperties
    from pynguin.testcase.execution import AbstractTestCaseExecutor
    from pynguin.testcase.execution_result import ExecutionResult

    class CodeExecutor(AbstractTestCaseExecutor):
        def __init__(self):
            self._sp = SubjectProperties()
            self.executions = 0

        @property
        def module_provider(self):
            raise NotImplementedError

        def add_observer(self, observer):
            pass

        def clear_observers(self):
            pass

        @contextlib.contextmanager
        def temporarily_add_observer(self, observer):
            yield

        def add_remote_observer(self, remote_observer):
            pass

        def clear_remote_observers(self):
            pass

        @contextlib.contextmanager
        def temporarily_add_remote_observer(self, remote_observer):
            yield

        @property
        def subject_properties(self):
            return self._sp

        def execute(self, test_case):
            self.executions += 1
            code = _render(test_case)
            lines = [ln for ln in code.splitlines() if ln.strip()]
            res = ExecutionResult()
            tr = res.execution_trace
            for ln in lines:
                h = zlib.crc32(ln.encode("utf-8", "surrogatepass"))
                tr.covered_line_ids.add(h % L)
                pid = (h >> 8) % P
                d = ((h >> 16) % 7) / 2.0
                if d == 0.0:
                    tr.update_predicate_distances(0.0, 1.0 + (h % 5), pid)
                else:
                    tr.update_predicate_distances(d, 0.0, pid)
            hc = zlib.crc32(code.encode("utf-8", "surrogatepass"))
            if lines and hc % 4 == 0:
                res.report_new_thrown_exception((hc >> 4) % len(lines), ValueError("pseudo"))
            res.num_executed_statements = len(lines)
            return res

    class Counting:
        calls = 0

        def is_maximisation_function(self):
            return False

    def lines_fit(trace, salt):
        want = {(i * 7 + salt) % L for i in range(L // 2 if salt % 2 else L)}
        return float(len(want - set(trace.covered_line_ids)))

    def dist_fit(trace, salt):
        total = 0.0
        for p in range(P):
            if (p + salt) % 3 == 0:
                continue
            for dist in (trace.true_distances, trace.false_distances):
                d = dist.get(p)
                if d == 0.0:
                    continue
                if d is not None and trace.executed_predicates.get(p, 0) >= 2:
                    total += normalise(d)
                else:
                    total += 1.0
        return total

    def goal_fit(trace, salt):
        return 0.0 if (salt % L) in trace.covered_line_ids else 1.0

    def cov_lines(trace, salt):
        want = {(i * 5 + salt) % L for i in range(L // 2 if salt % 2 else L)}
        return len(want & set(trace.covered_line_ids)) / len(want)

    def cov_preds(trace, salt):
        ps = [p for p in range(P) if (p + salt) % 4]
        cov = sum(1 for p in ps if trace.true_distances.get(p) == 0.0) + sum(1 for p in ps if trace.false_distances.get(p) == 0.0)
        return cov / (2 * len(ps))

    FIT = {"lines": lines_fit, "dist": dist_fit, "goal": goal_fit}
    COV = {"lines": cov_lines, "preds": cov_preds}

    class SuiteFitness(Counting, ff.TestSuiteFitnessFunction):
        def __init__(self, executor, kind, salt):
            ff.TestSuiteFitnessFunction.__init__(self, executor)
            self.kind, self.salt, self.calls = kind, salt, 0

        def _trace(self, individual):
            return analyze_results(self._run_test_suite_chromosome(individual))

        def compute_fitness(self, individual):
            self.calls += 1
            return FIT[self.kind](self._trace(individual), self.salt)

        def compute_is_covered(self, individual):
            self.calls += 1
            return FIT[self.kind](self._trace(individual), self.salt) == 0.0

        def __repr__(self):
            return f"SuiteFitness({self.kind},{self.salt})"

    class CaseFitness(Counting, ff.TestCaseFitnessFunction):
        def __init__(self, executor, kind, salt):
            ff.TestCaseFitnessFunction.__init__(self, executor, 0)
            self.kind, self.salt, self.calls = kind, salt, 0

        def _trace(self, individual):
            return analyze_results([self._run_test_case_chromosome(individual)])

        def compute_fitness(self, individual):
            self.calls += 1
            return FIT[self.kind](self._trace(individual), self.salt)

        def compute_is_covered(self, individual):
            self.calls += 1
            return FIT[self.kind](self._trace(individual), self.salt) == 0.0

        def __repr__(self):
            return f"CaseFitness({self.kind},{self.salt})"

    class SuiteCoverage(Counting, ff.TestSuiteCoverageFunction):
        def __init__(self, executor, kind, salt):
            ff.TestSuiteCoverageFunction.__init__(self, executor)
            self.kind, self.salt, self.calls = kind, salt, 0

        def compute_coverage(self, individual):
            self.calls += 1
            return COV[self.kind](analyze_results(self._run_test_suite_chromosome(individual)), self.salt)

        def __repr__(self):
            return f"SuiteCoverage({self.kind},{self.salt})"

    class CaseCoverage(Counting, ff.TestCaseCoverageFunction):
        def __init__(self, executor, kind, salt):
            ff.TestCaseCoverageFunction.__init__(self, executor)
            self.kind, self.salt, self.calls = kind, salt, 0

        def compute_coverage(self, individual):
            self.calls += 1
            return COV[self.kind](analyze_results([self._run_test_case_chromosome(individual)]), self.salt)

        def __repr__(self):
            return f"CaseCoverage({self.kind},{self.salt})"

    return CodeExecutor, SuiteFitness, CaseFitness, SuiteCoverage, CaseCoverage


# ------------------------------------------------------------------------------------------------
class Meta:
    """What the harness knows about one chromosome (for mechanism keys only)."""

    def __init__(self, kind):
        self.kind = kind  # testcase | suite
        self.last_event = "created"
        self.modified_since_query = False


class Monitor:
    """Wraps the Chromosome query methods; shadow-recomputes on a fresh chromosome."""

    METHODS = ("get_fitness_for", "get_is_covered", "get_coverage_for", "get_fitness", "get_coverage")

    def __init__(self, ctx):
        self.ctx = ctx
        self.meta = {}
        self.keep = []  # keeps chromosomes alive so that ids stay unique
        self.hist = None
        self.factory = None
        self.suite_factory = None
        self.executor = None
        self.installed = False
        self.orig = {}
        self.in_shadow = False
        self.failed = False

    # -- installation
    def install(self):
        import pynguin.ga.chromosome as chrom

        import pynguin.ga.testcasechromosome as tcc
        import pynguin.ga.testsuitechromosome as tsc

        for m in self.METHODS:
            self.orig[m] = getattr(chrom.Chromosome, m)
            setattr(chrom.Chromosome, m, self._wrap(m))
        mon = self
        self.orig_clone = {tcc.TestCaseChromosome: tcc.TestCaseChromosome.clone, tsc.TestSuiteChromosome: tsc.TestSuiteChromosome.clone}
        self.orig_mutate = tcc.TestCaseChromosome.mutate

        def make_clone(cls):
            def clone(c):
                new = mon.orig_clone[cls](c)
                # a clone inherits the state of its source, hence also the reason why that state is stale (if it is)
                taint = getattr(c, "_verif_taint", None)
                if taint:
                    new._verif_taint = taint  # noqa: SLF001
                # shadow of the registered functions: a clone starts with its source's registrations, from then on each copy has its own
                for attr, getter in (("_verif_ffs", "get_fitness_functions"), ("_verif_cfs", "get_coverage_functions")):
                    src = getattr(c, attr, None)
                    if src is None:
                        src = list(getattr(c, getter)())
                        setattr(c, attr, list(src))
                    setattr(new, attr, list(src))
                return new

            return clone

        def mutate(c):
            if mon.in_shadow or mon.hist is None:
                return mon.orig_mutate(c)
            before = _render(c.test_case)
            no_sut = c.test_factory is not None and not c.test_factory.has_call_on_sut(c.test_case)
            try:
                return mon.orig_mutate(c)
            finally:
                if c.changed:
                    c._verif_taint = None  # noqa: SLF001
                elif _render(c.test_case) != before:
                    c._verif_taint = ("mutate[no-call-on-sut-before]" if no_sut else "mutate") + ":changed-flag-not-set"  # noqa: SLF001

        for cls in self.orig_clone:
            cls.clone = make_clone(cls)
        tcc.TestCaseChromosome.mutate = mutate

        def make_add(name, attr, getter):
            orig_add = getattr(chrom.Chromosome, name)
            self.orig_add[name] = orig_add

            def add(c, fn):
                if getattr(c, attr, None) is None:
                    setattr(c, attr, list(getattr(c, getter)()))
                getattr(c, attr).append(fn)
                return orig_add(c, fn)

            add.__name__ = name
            return add

        self.orig_add = {}
        chrom.Chromosome.add_fitness_function = make_add("add_fitness_function", "_verif_ffs", "get_fitness_functions")
        chrom.Chromosome.add_coverage_function = make_add("add_coverage_function", "_verif_cfs", "get_coverage_functions")
        self.installed = True

    def uninstall(self):
        import pynguin.ga.chromosome as chrom
        import pynguin.ga.testcasechromosome as tcc

        for m, f in self.orig.items():
            setattr(chrom.Chromosome, m, f)
        for cls, f in self.orig_clone.items():
            cls.clone = f
        tcc.TestCaseChromosome.mutate = self.orig_mutate
        for name, f in self.orig_add.items():
            setattr(chrom.Chromosome, name, f)
        self.installed = False

    @staticmethod
    def foreign_entries(c):
        """Does a cache of c hold values of functions that are not registered on c? (white-box, for keys only)"""
        cc = c.computation_cache
        ffs, cfs = cc._fitness_functions, cc._coverage_functions  # noqa: SLF001
        return (any(k not in ffs for k in cc._fitness_cache) or any(k not in ffs for k in cc._is_covered_cache)  # noqa: SLF001
                or any(k not in cfs for k in cc._coverage_cache))  # noqa: SLF001

    def cause(self, c, meta):
        """Mechanism feature of a stale value: the operation that modified tests without the changed flag, if known."""
        taint = getattr(c, "_verif_taint", None)
        if meta.kind == "suite":
            for t in c.test_case_chromosomes:
                mt = getattr(t, "_verif_taint", None)
                if mt:
                    return f"member-{mt}"
        return taint or meta.last_event

    @staticmethod
    def clear_taints_before_query(c, kind):
        """A chromosome whose changed flag is set (or that has no result) is recomputed by the query: old taints are void."""
        if c.changed:
            c._verif_taint = None  # noqa: SLF001
        if kind == "suite":
            for t in c.test_case_chromosomes:
                if t.changed or t.get_last_execution_result() is None:
                    t._verif_taint = None  # noqa: SLF001

    def meta_of(self, c):
        import pynguin.ga.testsuitechromosome as tsc

        m = self.meta.get(id(c))
        if m is None:
            m = self.meta[id(c)] = Meta("suite" if isinstance(c, tsc.TestSuiteChromosome) else "testcase")
            self.keep.append(c)
        return m

    # -- shadow
    def fresh(self, c):
        import pynguin.ga.testcasechromosome as tcc
        import pynguin.ga.testsuitechromosome as tsc

        if isinstance(c, tsc.TestSuiteChromosome):
            s = tsc.TestSuiteChromosome()
            for t in c.test_case_chromosomes:
                s.add_test_case_chromosome(tcc.TestCaseChromosome(t.test_case.clone(), self.factory))
            return s
        return tcc.TestCaseChromosome(c.test_case.clone(), self.factory)

    def expected(self, c, method, fn):
        self.in_shadow = True
        try:
            if method == "get_fitness_for":
                return fn.compute_fitness(self.fresh(c))
            if method == "get_is_covered":
                return fn.compute_fitness(self.fresh(c)) == 0.0
            if method == "get_coverage_for":
                return fn.compute_coverage(self.fresh(c))
            if method == "get_fitness":
                fr = self.fresh(c)
                return sum(f.compute_fitness(fr) for f in dict.fromkeys(c.get_fitness_functions()))
            if method == "get_coverage":
                fs = list(dict.fromkeys(c.get_coverage_functions()))
                fr = self.fresh(c)
                return sum(f.compute_coverage(fr) for f in fs) / len(fs)
        finally:
            self.in_shadow = False
        raise AssertionError(method)

    def case(self, c, method, fn):
        import pynguin.ga.testsuitechromosome as tsc

        tests = [_render(t.test_case) for t in c.test_case_chromosomes] if isinstance(c, tsc.TestSuiteChromosome) else [_render(c.test_case)]
        return {"history": list(self.hist or [])[-70:], "query": method, "function": repr(fn), "tests": [t[:1500] for t in tests][:8],
                "changed_flag": c.changed}

    def _wrap(self, method):
        mon = self

        def wrapper(c, *args):
            orig = mon.orig[method]
            if mon.in_shadow or mon.hist is None:
                return orig(c, *args)
            fn = args[0] if args else None
            meta = mon.meta_of(c)
            registered = True
            if method in ("get_fitness_for", "get_is_covered"):
                registered = fn in c.get_fitness_functions()
            elif method == "get_coverage_for":
                registered = fn in c.get_coverage_functions()
            for attr, getter, what in (("_verif_ffs", "get_fitness_functions", "fitness"), ("_verif_cfs", "get_coverage_functions", "coverage")):
                shadow = getattr(c, attr, None)
                if shadow is None:
                    continue
                have = list(getattr(c, getter)())
                mon.ctx.ok(cls=[f"registered-{what}-functions:checked-against-shadow"])
                if have != shadow:
                    mon.failed = True
                    extra = [repr(f) for f in have if f not in shadow]
                    missing = [repr(f) for f in shadow if f not in have]
                    mon.ctx.witness(f"registered-{what}-functions-differ:{meta.kind}:{'foreign-function' if extra else 'function-missing'}",
                                    f"{getter}() of a {meta.kind} chromosome lists {[repr(f) for f in have]} but only {[repr(f) for f in shadow]} were "
                                    f"registered on it (or on the chromosome it was cloned from before the clone); extra {extra}, missing {missing} "
                                    f"(last event: {meta.last_event})", mon.case(c, method, fn))
                    setattr(c, attr, have)  # report once per divergence
            calls_before = mon.total_calls()
            foreign = mon.foreign_entries(c)
            mon.clear_taints_before_query(c, meta.kind)
            try:
                got = orig(c, *args)
            except Exception as e:  # noqa: BLE001
                if registered:
                    suffix = ":after-unregistered-query" if foreign else ""
                    mon.failed = True
                    mon.ctx.witness(f"query-raises:{type(e).__name__}:{meta.kind}{suffix}",
                                    f"{method}({fn!r}) raised {e!r} on a {meta.kind} chromosome (last event: {meta.last_event})",
                                    mon.case(c, method, fn))
                    mon.ctx.ok(cls=[f"query:{method}"])
                else:
                    mon.ctx.anomaly(f"unregistered-query-raised:{type(e).__name__}:{method}")
                raise
            computed = mon.total_calls() != calls_before
            if not registered:
                return got
            if method in ("get_fitness", "get_coverage") and (foreign or mon.foreign_entries(c)):
                return got  # the aggregate legitimately contains the values of unregistered functions
            exp = mon.expected(c, method, fn)
            if method == "get_fitness":
                same = math.isclose(got, exp, rel_tol=1e-9, abs_tol=1e-12)
            elif method == "get_coverage":
                same = math.isclose(got, exp, rel_tol=1e-9, abs_tol=1e-12)
            else:
                same = got == exp and type(got) is type(exp) or (isinstance(got, (int, float)) and isinstance(exp, (int, float)) and got == exp)
            cls = [f"query:{method}", f"query:{meta.kind}" if not getattr(c, "_verif_member", False) else "query:member-of-suite",
                   "query:recomputed" if computed else "query:cache-hit"]
            if meta.modified_since_query:
                cls.append("query:after-modification")
            if method == "get_is_covered":
                if got is True:
                    cls.append("verdict:covered-true")
                cls.append("query:is_covered:computed-by-compute_is_covered" if computed else "query:is_covered:served-from-cache")
            mon.ctx.ok(cls=cls)
            meta.modified_since_query = False
            if not same:
                mon.failed = True
                flag = "" if computed else ":served-from-cache"
                cause = mon.cause(c, meta)
                mon.ctx.witness(f"stale:{meta.kind}:after-{cause}",
                                f"{method}({fn!r}) returned {got!r}{flag} but recomputation on a fresh chromosome gives {exp!r} "
                                f"(cause/last event on this chromosome: {cause}; changed flag now {c.changed})",
                                mon.case(c, method, fn))
            return got

        wrapper.__name__ = method
        return wrapper

    def total_calls(self):
        return sum(f.calls for f in self.all_functions)


# ------------------------------------------------------------------------------------------------
class World:
    def __init__(self, ctx, mon, rng, env, directed=None):
        import pynguin.ga.testcasechromosome as tcc
        import pynguin.ga.testcasechromosomefactory as tccf
        import pynguin.ga.testsuitechromosome as tsc

        from pynguin.utils.orderedset import OrderedSet

        self.ctx, self.mon, self.rng, self.env = ctx, mon, rng, env
        CodeExecutor, SuiteFitness, CaseFitness, SuiteCoverage, CaseCoverage = env["classes"]
        self.executor = CodeExecutor()
        ex = self.executor
        self.case_ffs = [CaseFitness(ex, k, s) for k, s in (("dist", 0), ("lines", 1), ("goal", 3), ("goal", 17), ("dist", 2), ("lines", 4))]
        self.case_cfs = [CaseCoverage(ex, k, s) for k, s in (("lines", 1), ("preds", 0), ("lines", 2), ("preds", 3))]
        self.suite_ffs = [SuiteFitness(ex, k, s) for k, s in (("dist", 0), ("lines", 1), ("goal", 5), ("dist", 1), ("lines", 2), ("goal", 40))]
        self.suite_cfs = [SuiteCoverage(ex, k, s) for k, s in (("lines", 1), ("preds", 0), ("lines", 4), ("preds", 1))]
        mon.all_functions = self.case_ffs + self.case_cfs + self.suite_ffs + self.suite_cfs
        mon.factory = env["factory"]
        self.tcc, self.tsc = tcc, tsc
        # every new test case chromosome starts with a random subset of the test-case functions (as the real factory does)
        n0 = rng.randint(0, 3)
        self.chf = tccf.TestCaseChromosomeFactory(env["factory"], env["tcfactory"], OrderedSet(self.case_ffs[:n0]))
        self.tcs = [self.new_tc() for _ in range(4)]
        self.suites = []
        for _ in range(3):
            s = tsc.TestSuiteChromosome(self.chf)
            for _ in range(rng.randint(0, 4)):
                s.add_test_case_chromosome(self.new_tc(member=True))
            for f in self.suite_ffs[: rng.randint(0, 2)]:
                s.add_fitness_function(f)
            for c in self.suite_cfs[: rng.randint(0, 2)]:
                s.add_coverage_function(c)
            mon.meta_of(s)
            self.suites.append(s)

    def new_tc(self, member=False):
        c = self.chf.get_chromosome()
        for cf in self.case_cfs[: self.rng.randint(0, 1)]:
            c.add_coverage_function(cf)
        self.mon.meta_of(c)
        return c

    def snapshot(self, c):
        if isinstance(c, self.tsc.TestSuiteChromosome):
            return [_render(t.test_case) for t in c.test_case_chromosomes]
        return _render(c.test_case)

    def mark_members(self):
        for s in self.suites:
            for t in s.test_case_chromosomes:
                t._verif_member = True  # noqa: SLF001
                self.mon.meta_of(t)


def _event(mon, c, name, before, world, note_flag=True):
    """Record what an operation did to chromosome c (mechanism features for later witnesses)."""
    after = world.snapshot(c)
    meta = mon.meta_of(c)
    modified = after != before
    if modified:
        ev = name
        if note_flag and not c.changed:
            ev += ":changed-flag-not-set"
            mon.ctx.anomaly(f"modified-without-changed-flag:{name}")
            if not getattr(c, "_verif_taint", None):
                c._verif_taint = ev  # noqa: SLF001
        elif c.changed:
            c._verif_taint = None  # noqa: SLF001
        meta.last_event = ev
        meta.modified_since_query = True
        if meta.kind == "suite":
            for t in c.test_case_chromosomes:
                tm = mon.meta_of(t)
                tm.last_event = f"member-of-suite-under-{name}"
                tm.modified_since_query = True
    return modified


def _apply(world, rng, forced=None):  # noqa: C901, PLR0912, PLR0915
    import pynguin.configuration as config

    from pynguin.ga.operators.crossover import SinglePointRelativeCrossOver

    mon, ctx = world.mon, world.ctx
    factory = world.env["factory"]
    ops = [
        ("tc-mutate", 14), ("tc-crossover", 5), ("tc-clone", 5), ("tc-add-ff", 4), ("tc-add-cf", 4), ("tc-query", 16), ("tc-query-all", 5),
        ("tc-aggregate", 3), ("tc-set-changed", 2), ("tc-invalidate", 2), ("tc-set-fitness-values", 2), ("tc-direct-edit", 3),
        ("suite-mutate", 10), ("suite-crossover", 5), ("suite-clone", 5), ("suite-add-test", 5), ("suite-delete-test", 4),
        ("suite-replace-member", 4), ("suite-add-ff", 4), ("suite-add-cf", 4), ("suite-query", 16), ("suite-query-all", 5),
        ("suite-aggregate", 3), ("suite-set-changed", 2), ("suite-invalidate", 2), ("suite-set-fitness-values", 2), ("suite-reset", 2),
        ("member-query", 6), ("query-unregistered", 1),
        ("suite-cross-direct", 4), ("tc-cross-direct", 4), ("suite-degenerate", 3), ("tc-degenerate", 2),
    ]
    params = None
    if isinstance(forced, (tuple, list)):
        forced, params = forced[0], forced[1]
    op = forced or rng.choices([o for o, _ in ops], weights=[w for _, w in ops])[0]
    entry = [op]
    mon.hist.append(entry)
    is_suite = op.startswith("suite") or op == "member-query"
    pool = world.suites if is_suite else world.tcs
    i = rng.randrange(len(pool))
    c = pool[i]
    entry.append(i)
    ffs_all = world.suite_ffs if is_suite else world.case_ffs
    cfs_all = world.suite_cfs if is_suite else world.case_cfs
    before = world.snapshot(c)

    def operator(name, fn):
        try:
            fn()
            return True
        except Exception as e:  # noqa: BLE001 - operator failures are C15's business
            ctx.anomaly(f"operator-raised:{name}:{type(e).__name__}")
            entry.append(f"raised {type(e).__name__}")
            return False

    def query_one(ch, kind=None):
        ffs, cfs = ch.get_fitness_functions(), ch.get_coverage_functions()
        kinds = [k for k in ("get_fitness_for", "get_is_covered") if ffs] + (["get_coverage_for"] if cfs else [])
        if not kinds:
            return
        kind = kind or rng.choice(kinds)
        fn = rng.choice(cfs if kind == "get_coverage_for" else ffs)
        entry.append([kind, repr(fn)])
        try:
            getattr(ch, kind)(fn)
        except Exception:  # noqa: BLE001 - already reported by the monitor
            pass

    def query_all(ch):
        qs = [("get_fitness_for", f) for f in ch.get_fitness_functions()] + [("get_is_covered", f) for f in ch.get_fitness_functions()]
        qs += [("get_coverage_for", f) for f in ch.get_coverage_functions()]
        rng.shuffle(qs)
        for k, f in qs:
            try:
                getattr(ch, k)(f)
            except Exception:  # noqa: BLE001 - already reported by the monitor
                pass

    def ensure_functions(ch):
        if not ch.get_fitness_functions():
            for f in ffs_all[:2]:
                ch.add_fitness_function(f)
        if not ch.get_coverage_functions():
            ch.add_coverage_function(cfs_all[0])

    if op == "tc-mutate":
        no_sut = not factory.has_call_on_sut(c.test_case)
        sa = config.configuration.search_algorithm
        size0 = c.size()
        chop_expected = sa.chop_max_length and size0 >= sa.chromosome_length
        operator(op, c.mutate)
        name = "mutate[no-call-on-sut-before]" if no_sut else "mutate"
        modified = _event(mon, c, name, before, world)
        ctx.cls("op:tc-mutate:modified" if modified else "op:tc-mutate:unmodified")
        if no_sut:
            ctx.cls("op:tc-mutate:no-call-on-sut")
        if chop_expected and not no_sut and c.size() < size0 and not factory.has_call_on_sut(c.test_case):
            ctx.cls("op:tc-mutate:chopped-to-no-call-on-sut")
    elif op == "tc-chop-setup":
        # directed only: the last execution of every pool test raised at statement 0 (a primitive), the test is at
        # the maximum length and no mutation/insertion fires: mutate() chops down to a test without call on the SUT
        import libcst as cst

        import pynguin.testcase.testcase as tc

        from pynguin.testcase.execution_result import ExecutionResult

        sa = config.configuration.search_algorithm
        sa.chop_max_length = True
        sa.test_delete_probability = sa.test_change_probability = sa.test_insert_probability = 0.0
        sa.statement_insertion_probability = 0.0
        sa.chromosome_length = 48
        for k in range(len(world.tcs)):
            t = tc.TestCase()
            t.add_statement(tc.Statement(node=cst.parse_module("var_0 = 5\n").body[0], bound_variable="var_0", bound_type=int))
            for _ in range(rng.randint(1, 3)):
                factory.insert_random_statement(t, t.size())
            ch = world.tcc.TestCaseChromosome(t, factory)
            for f in world.case_ffs[:3]:
                ch.add_fitness_function(f)
            ch.add_coverage_function(world.case_cfs[0])
            for f in ch.get_fitness_functions():
                ch.get_fitness_for(f)  # fills the caches, clears the changed flag
            ch.get_coverage_for(world.case_cfs[0])
            res = ExecutionResult()
            res.report_new_thrown_exception(0, ValueError("pseudo"))
            ch.set_last_execution_result(res)
            mon.meta_of(ch)
            world.tcs[k] = ch
        sa.chromosome_length = 2
    elif op == "tc-crossover":
        j = rng.randrange(len(pool))
        if j == i:
            j = (i + 1) % len(pool)
        d = pool[j]
        entry.append(j)
        before_d = world.snapshot(d)
        operator(op, lambda: SinglePointRelativeCrossOver().cross_over(c, d))
        m1 = _event(mon, c, "crossover", before, world)
        m2 = _event(mon, d, "crossover", before_d, world)
        if m1 or m2:
            ctx.cls("op:tc-crossover:modified")
    elif op in ("tc-clone", "suite-clone"):
        j = rng.randrange(len(pool))
        entry.append(j)
        ok = True
        try:
            new = c.clone()
        except Exception as e:  # noqa: BLE001
            ctx.anomaly(f"operator-raised:{op}:{type(e).__name__}")
            ok = False
        if ok:
            mon.meta_of(new).last_event = "clone-target"
            mon.meta_of(new).modified_since_query = mon.meta_of(c).modified_since_query
            if j != i:
                mon.meta_of(c).last_event = "clone-source"
                pool[j] = new
            else:
                pool[i] = new  # the clone replaces its source
            ctx.cls("op:tc-clone" if op == "tc-clone" else "op:suite-clone")
            ctx.cls("clone-then-diverge")
    elif op in ("tc-add-ff", "suite-add-ff"):
        cand = [f for f in ffs_all if f not in c.get_fitness_functions()]
        if cand:
            f = rng.choice(cand)
            entry.append(repr(f))
            if mon.meta_of(c).last_event in ("clone-target", "clone-source"):
                ctx.cls("clone-then-register-on-one-copy")
            c.add_fitness_function(f)
            ctx.cls("op:add-fitness-function")
    elif op in ("tc-add-cf", "suite-add-cf"):
        cand = [f for f in cfs_all if f not in c.get_coverage_functions()]
        if cand:
            f = rng.choice(cand)
            entry.append(repr(f))
            if mon.meta_of(c).last_event in ("clone-target", "clone-source"):
                ctx.cls("clone-then-register-on-one-copy")
            c.add_coverage_function(f)
            ctx.cls("op:add-coverage-function")
    elif op in ("tc-query", "suite-query"):
        query_one(c)
    elif op in ("tc-query-all", "suite-query-all"):
        qs = [("get_fitness_for", f) for f in c.get_fitness_functions()] + [("get_is_covered", f) for f in c.get_fitness_functions()]
        qs += [("get_coverage_for", f) for f in c.get_coverage_functions()]
        rng.shuffle(qs)
        entry.append([[k, repr(f)] for k, f in qs])
        for k, f in qs:
            try:
                getattr(c, k)(f)
            except Exception:  # noqa: BLE001
                pass
    elif op in ("tc-aggregate", "suite-aggregate"):
        which = rng.choice(["get_fitness", "get_coverage"])
        entry.append(which)
        if which == "get_fitness" and c.get_fitness_functions():
            try:
                c.get_fitness()
            except Exception:  # noqa: BLE001
                pass
        elif which == "get_coverage" and c.get_coverage_functions():
            try:
                c.get_coverage()
            except Exception:  # noqa: BLE001
                pass
    elif op in ("tc-set-changed", "suite-set-changed"):
        c.changed = True
        ctx.cls("op:set-changed")
    elif op in ("tc-invalidate", "suite-invalidate"):
        c.invalidate_cache()
        ctx.cls("op:invalidate")
    elif op in ("tc-set-fitness-values", "suite-set-fitness-values"):
        # the way local search restores known-good values: values computed for exactly these tests
        fs = list(c.get_fitness_functions())
        if fs:
            mon.in_shadow = True
            try:
                vals = {f: f.compute_fitness(mon.fresh(c)) for f in rng.sample(fs, rng.randint(1, len(fs)))}
            finally:
                mon.in_shadow = False
            c.set_fitness_values(vals)
            cs = list(c.get_coverage_functions())
            if cs and rng.random() < 0.5:
                mon.in_shadow = True
                try:
                    cv = {f: f.compute_coverage(mon.fresh(c)) for f in rng.sample(cs, rng.randint(1, len(cs)))}
                finally:
                    mon.in_shadow = False
                c.set_coverage_values(cv)
            ctx.cls("op:set-fitness-values")
    elif op == "tc-direct-edit":
        # an edit through the public TestCase API followed by the notification the real operators use
        tcase = c.test_case
        how = rng.choice(["remove", "chop", "append-from"])
        entry.append(how)
        if how == "remove" and tcase.size() > 0:
            operator(op, lambda: factory.delete_statement_gracefully(tcase, rng.randrange(tcase.size())))
        elif how == "chop" and tcase.size() > 1:
            operator(op, lambda: tcase.remove_statements_batch(set(range(rng.randrange(1, tcase.size()), tcase.size()))))
        else:
            other = rng.choice(world.tcs).test_case
            if other is not tcase and other.size() > 0:
                operator(op, lambda: tcase.append_test_case_from(other, rng.randrange(other.size())))
        c.changed = True
        _event(mon, c, "direct-edit", before, world)
    elif op == "suite-mutate":
        operator(op, c.mutate)
        world.mark_members()
        after = world.snapshot(c)
        dropped_empty = len(after) < len(before) and [t for t in before if t.strip()] == [t for t in after if t.strip()] and not c.changed
        if dropped_empty:
            ctx.anomaly("suite-mutate-dropped-empty-test-without-changed-flag")
        if [t for t in before if t.strip()] != [t for t in after if t.strip()]:
            _event(mon, c, "suite-mutate", before, world)
            ctx.cls("op:suite-mutate:modified")
    elif op == "suite-crossover":
        j = rng.randrange(len(pool))
        if j == i:
            j = (i + 1) % len(pool)
        d = pool[j]
        entry.append(j)
        before_d = world.snapshot(d)
        operator(op, lambda: SinglePointRelativeCrossOver().cross_over(c, d))
        world.mark_members()
        m1 = _event(mon, c, "suite-crossover", before, world)
        m2 = _event(mon, d, "suite-crossover", before_d, world)
        if m1 or m2:
            ctx.cls("op:suite-crossover:modified")
    elif op == "suite-add-test":
        how = rng.choice(["new", "clone-of-pool", "several"])
        entry.append(how)
        if how == "new":
            c.add_test_case_chromosome(world.new_tc())
        elif how == "clone-of-pool":
            c.add_test_case_chromosome(rng.choice(world.tcs).clone())
        else:
            c.add_test_case_chromosomes([world.new_tc() for _ in range(rng.randint(0, 2))])
        world.mark_members()
        _event(mon, c, "add-test", before, world)
        ctx.cls("op:suite-add-test")
    elif op == "suite-delete-test":
        if c.size():
            c.delete_test_case_chromosome(rng.choice(c.test_case_chromosomes))
            _event(mon, c, "delete-test", before, world)
            ctx.cls("op:suite-delete-test")
    elif op == "suite-replace-member":
        # local-search protocol: work on a clone of a member, mark it changed, put it back through the suite API
        if c.size():
            k = rng.randrange(c.size())
            member = c.get_test_case_chromosome(k).clone()
            operator(op, member.mutate)
            member.changed = True
            c.set_test_case_chromosome(k, member)
            world.mark_members()
            _event(mon, c, "replace-member", before, world)
            ctx.cls("op:suite-replace-member")
    elif op == "suite-reset":
        # generator._reset_cache_for_result
        c.invalidate_cache()
        for t in c.test_case_chromosomes:
            t.invalidate_cache()
            t.remove_last_execution_result()
        ctx.cls("op:reset-for-reexecution")
    elif op == "member-query":
        if c.size():
            world.mark_members()
            for t in c.test_case_chromosomes:
                if not t.get_fitness_functions():
                    t.add_fitness_function(rng.choice(world.case_ffs))
                query_one(t)
                if rng.random() < 0.5:
                    query_one(t)
    elif op in ("suite-cross-direct", "tc-cross-direct"):
        # Chromosome.cross_over(other, position1, position2) with explicit boundary positions, on a cached chromosome
        tag = "suite" if is_suite else "testcase"
        pr = params or {}
        self_empty = pr.get("self_empty", rng.random() < 0.12)
        if self_empty:
            if is_suite:
                c = world.tsc.TestSuiteChromosome(world.chf)
            else:
                import pynguin.testcase.testcase as tc

                c = world.tcc.TestCaseChromosome(tc.TestCase(), factory)
            mon.meta_of(c)
            pool[i] = c
        ensure_functions(c)
        okind = pr.get("other", rng.choice(["pool", "pool", "empty", "clone-of-self"]))
        if okind == "empty":
            if is_suite:
                other = world.tsc.TestSuiteChromosome(world.chf)
            else:
                import pynguin.testcase.testcase as tc

                other = world.tcc.TestCaseChromosome(tc.TestCase(), factory)
        elif okind == "clone-of-self":
            other = c.clone()
        else:
            other = pool[(i + 1 + rng.randrange(len(pool) - 1)) % len(pool)]
        n, m = c.size(), other.size()
        k1 = pr.get("p1", rng.choice(["0", "1", "size-1", "size"]))
        k2 = pr.get("p2", rng.choice(["0", "size-1", "size", ">size"]))
        p1 = max(0, {"0": 0, "1": 1, "size-1": n - 1, "size": n}[k1])
        p2 = max(0, {"0": 0, "size-1": m - 1, "size": m, ">size": m + 1 + rng.randrange(3)}[k2])
        entry.append({"self_size": n, "other": okind, "other_size": m, "p1": [k1, p1], "p2": [k2, p2]})
        query_all(c)  # the values are cached and the changed flag is cleared before the splice
        before = world.snapshot(c)
        if operator(op, lambda: c.cross_over(other, p1, p2)):
            if is_suite:
                world.mark_members()
            shape = "tail-empty" if p2 >= m else ("head-kept-entirely" if p1 >= n else ("head-empty" if p1 == 0 else "inner-split"))
            modified = _event(mon, c, f"cross_over[{shape}]", before, world)
            cl = [f"xover-direct:{tag}", f"xover-direct:{tag}:p1={k1}", f"xover-direct:{tag}:p2={k2}", f"xover-direct:{tag}:other={okind}"]
            if self_empty:
                cl.append(f"xover-direct:{tag}:self-empty")
            if p2 >= m:
                cl.append(f"xover-direct:{tag}:tail-empty")
            if p1 == 0:
                cl.append(f"xover-direct:{tag}:head-empty")
            if p2 >= m and p1 < n and modified:
                cl.append(f"xover-direct:{tag}:shrinks-only")
            if p1 >= n and p2 < m and modified:
                cl.append(f"xover-direct:{tag}:grows-only")
            for x in cl:
                ctx.cls(x)
        query_all(c)
    elif op == "suite-degenerate":
        ensure_functions(c)
        how = (params or {}).get("how") or rng.choice(["add-empty-list", "delete-only-test", "delete-absent-test", "set-index-0", "set-index-last",
                                                     "set-same-object", "delete-first", "delete-last", "add-to-empty", "add-list-of-one"])
        entry.append(how)
        if how in ("delete-only-test",):
            c.test_case_chromosomes = c.test_case_chromosomes[:1] or [world.new_tc()]
            c.changed = True
        if how == "add-to-empty":
            c = world.tsc.TestSuiteChromosome(world.chf)
            mon.meta_of(c)
            pool[i] = c
            ensure_functions(c)
        if how.startswith(("set-", "delete-first", "delete-last")) and c.size() == 0:
            c.add_test_case_chromosome(world.new_tc())
        query_all(c)
        before = world.snapshot(c)
        if how == "add-empty-list":
            c.add_test_case_chromosomes([])
        elif how == "add-list-of-one":
            c.add_test_case_chromosomes([world.new_tc()])
        elif how == "add-to-empty":
            c.add_test_case_chromosome(world.new_tc())
        elif how == "delete-only-test":
            c.delete_test_case_chromosome(c.get_test_case_chromosome(0))
        elif how == "delete-absent-test":
            c.delete_test_case_chromosome(world.new_tc())
        elif how == "delete-first":
            c.delete_test_case_chromosome(c.get_test_case_chromosome(0))
        elif how == "delete-last":
            c.delete_test_case_chromosome(c.get_test_case_chromosome(c.size() - 1))
        elif how == "set-index-0":
            c.set_test_case_chromosome(0, world.new_tc())
        elif how == "set-index-last":
            c.set_test_case_chromosome(c.size() - 1, rng.choice(world.tcs).clone())
        elif how == "set-same-object":
            k = rng.randrange(c.size())
            c.set_test_case_chromosome(k, c.get_test_case_chromosome(k))
        world.mark_members()
        _event(mon, c, f"suite-{how}", before, world)
        ctx.cls(f"degenerate:suite:{how}")
        query_all(c)
    elif op == "tc-degenerate":
        import pynguin.testcase.testcase as tc

        ensure_functions(c)
        how = (params or {}).get("how") or rng.choice(["set-empty-test-case", "set-test-case-clone", "set-other-test-case",
                                                     "remove-last-execution-result", "remove-all-statements"])
        entry.append(how)
        query_all(c)
        before = world.snapshot(c)
        if how == "set-empty-test-case":
            c.test_case = tc.TestCase()
            c.changed = True  # the setter is the raw path; the operators set the flag themselves
        elif how == "set-test-case-clone":
            c.test_case = c.test_case.clone()
            c.changed = True
        elif how == "set-other-test-case":
            c.test_case = rng.choice(world.tcs).test_case.clone()
            c.changed = True
        elif how == "remove-last-execution-result":
            c.remove_last_execution_result()  # tests unchanged: cached values stay valid
        elif how == "remove-all-statements":
            c.test_case.remove_statements_batch(set(range(c.size())))
            c.changed = True
        _event(mon, c, f"tc-{how}", before, world)
        ctx.cls(f"degenerate:testcase:{how}")
        query_all(c)
    elif op == "query-unregistered":
        # a function that is *not* registered on this chromosome is queried (works through the 'only' path)
        which = rng.choice(["tc", "suite"])
        ch = rng.choice(world.tcs if which == "tc" else world.suites)
        allf = world.case_ffs if which == "tc" else world.suite_ffs
        cand = [f for f in allf if f not in ch.get_fitness_functions()]
        if cand:
            f = rng.choice(cand)
            entry.append([which, repr(f)])
            try:
                rng.choice([ch.get_fitness_for, ch.get_is_covered])(f)
            except Exception:  # noqa: BLE001
                pass
            ctx.cls("op:query-unregistered")
    # keep the configuration knobs moving inside a history now and then
    if rng.random() < 0.05:
        _random_config(rng, config)


def _random_config(rng, config):
    sa = config.configuration.search_algorithm
    sa.chromosome_length = rng.choice([6, 12, 25, 48])
    sa.chop_max_length = rng.random() < 0.8
    style = rng.random()
    if style < 0.5:
        sa.test_delete_probability = sa.test_change_probability = sa.test_insert_probability = 1.0 / 3.0
    elif style < 0.65:
        sa.test_delete_probability, sa.test_change_probability, sa.test_insert_probability = 1.0, 0.0, 0.0
    elif style < 0.8:
        sa.test_delete_probability, sa.test_change_probability, sa.test_insert_probability = 0.0, 1.0, 0.2
    elif style < 0.9:
        sa.test_delete_probability, sa.test_change_probability, sa.test_insert_probability = 0.0, 0.0, 0.0
    else:
        sa.test_delete_probability, sa.test_change_probability, sa.test_insert_probability = 1.0, 1.0, 1.0
    sa.statement_insertion_probability = rng.choice([0.5, 0.5, 0.1, 0.9])
    sa.test_insertion_probability = rng.choice([0.1, 0.1, 0.5])
    config.configuration.test_creation.max_size = rng.choice([3, 8, 100])


def _history(ctx, mon, rng, env, length, forced=None, setup=None):
    import pynguin.configuration as config

    from pynguin.utils import randomness

    randomness.RNG.seed(rng.getrandbits(32))
    _random_config(rng, config)
    mon.hist = None  # world construction is not part of the history
    mon.meta.clear()
    mon.keep.clear()
    _MEMO.clear()
    mon.failed = False
    world = World(ctx, mon, rng, env)
    if setup:
        setup(world)
    world.mark_members()
    mon.hist = [["config", config.configuration.search_algorithm.chromosome_length,
                 round(config.configuration.search_algorithm.test_delete_probability, 2),
                 round(config.configuration.search_algorithm.test_change_probability, 2),
                 round(config.configuration.search_algorithm.test_insert_probability, 2)]]
    evals0 = ctx.evals
    ops = forced or [None] * length
    for f in ops:
        _apply(world, rng, forced=f)
    opseq = [h[0] for h in mon.hist]
    nontrivial = ctx.evals > evals0 and any(o.endswith(("mutate", "crossover", "edit", "test", "member", "direct", "degenerate")) for o in opseq)
    tests = [world.snapshot(c) for c in world.tcs + world.suites]
    ctx.ok(0, cls="history", distinct={"ops": opseq, "tests": tests} if nontrivial else None)
    ctx.cls("history")
    ctx.count("executions", world.executor.executions)
    if not mon.failed and len(ctx.samples) < 3 and 8 <= len(opseq) <= 16:
        ctx.sample({"history": [h[:3] for h in mon.hist], "oracle_evaluations": ctx.evals - evals0})
    mon.hist = None
    return world


def _make_env(ctx, name):
    import importlib

    import pynguin.configuration as config
    import pynguin.ga.testcasefactory as tcf
    import pynguin.testcase.testfactory as tf

    from pynguin.analyses.module import generate_test_cluster

    modname = f"vc12_{name}"
    (ctx.scratch / f"{modname}.py").write_text(SUTS[name])
    if str(ctx.scratch) not in sys.path:
        sys.path.insert(0, str(ctx.scratch))
    importlib.invalidate_caches()
    config.configuration.module_name = modname
    cluster = generate_test_cluster(modname)
    factory = tf.TestFactory(cluster)
    return {"name": name, "module": modname, "cluster": cluster, "factory": factory,
            "tcfactory": tcf.RandomLengthTestCaseFactory(factory, cluster), "classes": _mk_functions()}


def _primitive_only_tc(world, n=1):
    """A test case chromosome without any call on the SUT (as crossover/chop can leave behind)."""
    import libcst as cst

    import pynguin.testcase.testcase as tc

    t = tc.TestCase()
    for k in range(n):
        t.add_statement(tc.Statement(node=cst.parse_module(f"var_{k} = {5 + k}\n").body[0], bound_variable=f"var_{k}", bound_type=int))
    c = world.tcc.TestCaseChromosome(t, world.env["factory"])
    for f in world.case_ffs[:3]:
        c.add_fitness_function(f)
    c.add_coverage_function(world.case_cfs[0])
    world.mon.meta_of(c)
    return c


def run_chunk(spec, ctx):
    import pynguin.configuration as config

    saved = (config.configuration.search_algorithm, config.configuration.test_creation, config.configuration.module_name)
    import copy

    config.configuration.search_algorithm = copy.deepcopy(saved[0])
    config.configuration.test_creation = copy.deepcopy(saved[1])
    mon = Monitor(ctx)
    mon.install()
    try:
        if spec["name"] == "directed":
            rng = random.Random(1212 + sorted(SUTS).index(spec["sut"]) if spec.get("sut") else 1212)
            envs = [_make_env(ctx, n) for n in SUTS if spec.get("sut") in (None, n)]
            for env in envs:
                # every operation kind, each followed by queries of every kind
                kinds = ["tc-mutate", "tc-crossover", "tc-clone", "tc-add-ff", "tc-add-cf", "tc-set-changed", "tc-invalidate",
                         "tc-set-fitness-values", "tc-direct-edit", "suite-mutate", "suite-crossover", "suite-clone", "suite-add-test",
                         "suite-delete-test", "suite-replace-member", "suite-add-ff", "suite-add-cf", "suite-set-changed",
                         "suite-invalidate", "suite-set-fitness-values", "suite-reset", "member-query"]
                for kind in kinds:
                    for rep in range(10):
                        pre = ["tc-add-ff", "tc-add-cf", "suite-add-ff", "suite-add-cf", "suite-add-test", "suite-add-test"] * 2
                        qs = ["suite-query-all", "tc-query-all"] if kind.startswith("suite") or kind == "member-query" else ["tc-query-all", "suite-query-all"]
                        mid = ["tc-aggregate", "suite-aggregate", "tc-query", "suite-query", "tc-query", "suite-query"]
                        _history(ctx, mon, rng, env, 0, forced=pre + qs + [kind] * 3 + qs + mid + [kind] + mid + qs)
                # members with cached test-case level values, changed through the suite, executed by a suite query, queried again
                for rep in range(20):
                    _history(ctx, mon, rng, env, 0, forced=["suite-add-test", "suite-add-ff", "suite-add-cf"] * 3 + ["member-query"] * 6 + [
                        "suite-mutate", "suite-replace-member", "suite-mutate", "suite-query-all", "member-query", "member-query",
                        "suite-replace-member", "suite-query-all", "member-query", "suite-mutate", "suite-mutate", "suite-query",
                        "member-query", "member-query"] * 2)
                for rep in range(40):
                    _history(ctx, mon, rng, env, 0, forced=["tc-add-ff", "suite-add-ff"] * 2 + ["query-unregistered", "tc-query-all", "suite-query-all",
                                                           "tc-mutate", "suite-mutate", "tc-query", "suite-query", "query-unregistered", "tc-query", "suite-query"])
                # tests without a call on the SUT: mutate takes the 'restore backup and insert' path
                for rep in range(30):
                    def setup(world, rep=rep):
                        world.tcs[0] = _primitive_only_tc(world, 1 + rep % 3)
                        world.tcs[1] = _primitive_only_tc(world, 2)

                    _history(ctx, mon, rng, env, 0, setup=setup,
                             forced=["tc-query-all", "tc-mutate", "tc-query-all", "tc-mutate", "tc-query", "tc-query", "tc-mutate", "tc-query-all"] * 2)
                # explicit boundary split points of Chromosome.cross_over and degenerate arguments of the public mutators
                for opname in ("suite-cross-direct", "tc-cross-direct"):
                    for k1 in ("0", "1", "size-1", "size"):
                        for k2 in ("0", "size-1", "size", ">size"):
                            for okind in ("pool", "empty", "clone-of-self"):
                                for self_empty in (False, True) if (k1 in ("0", "size") and okind != "clone-of-self") else (False,):
                                    for rep in range(1):
                                        _history(ctx, mon, rng, env, 0, forced=["suite-add-test", (opname, {"p1": k1, "p2": k2, "other": okind, "self_empty": self_empty})])
                for how in ("add-empty-list", "delete-only-test", "delete-absent-test", "set-index-0", "set-index-last", "set-same-object",
                            "delete-first", "delete-last", "add-to-empty", "add-list-of-one"):
                    for rep in range(8):
                        _history(ctx, mon, rng, env, 0, forced=["suite-add-test", ("suite-degenerate", {"how": how}), "suite-query-all"])
                for how in ("set-empty-test-case", "set-test-case-clone", "set-other-test-case", "remove-last-execution-result", "remove-all-statements"):
                    for rep in range(8):
                        _history(ctx, mon, rng, env, 0, forced=[("tc-degenerate", {"how": how}), "tc-query-all"])
                # mutate() chops after the failing statement 0, what is left has no call on the SUT, nothing is inserted
                for rep in range(15):
                    _history(ctx, mon, rng, env, 0, forced=["tc-chop-setup", "tc-mutate", "tc-query-all", "tc-mutate", "tc-query-all",
                                                           "tc-mutate", "tc-query-all", "tc-mutate", "tc-query-all"])
                # the same through a suite: its only member has no call on the SUT, TestSuiteMutation mutates it
                for rep in range(30):
                    def setup_suites(world, rep=rep):
                        for s in world.suites:
                            s.test_case_chromosomes = [_primitive_only_tc(world, 1 + rep % 3)]
                            s.changed = True
                            for f in world.suite_ffs[:2]:
                                if f not in s.get_fitness_functions():
                                    s.add_fitness_function(f)
                            if world.suite_cfs[0] not in s.get_coverage_functions():
                                s.add_coverage_function(world.suite_cfs[0])

                    _history(ctx, mon, rng, env, 0, setup=setup_suites,
                             forced=["suite-query-all"] * 3 + ["suite-mutate", "suite-query-all", "suite-query", "suite-mutate", "suite-query-all"] * 3)
            return
        rng = random.Random(spec["seed"] * 7919 + spec["part"] * 101 + 12)
        envs = [_make_env(ctx, n) for n in SUTS]
        for hi in range(spec["histories"]):
            env = envs[hi % len(envs)]
            config.configuration.module_name = env["module"]
            setup = None
            if rng.random() < 0.1:
                def setup(world):
                    world.tcs[rng.randrange(4)] = _primitive_only_tc(world, rng.randint(1, 3))
            _history(ctx, mon, rng, env, rng.randint(5, 60), setup=setup)
    finally:
        mon.uninstall()
        config.configuration.search_algorithm, config.configuration.test_creation, config.configuration.module_name = saved
