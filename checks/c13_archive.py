"""C13 — the archive never loses a covered goal or a better solution.

Shape: event log + offline checker.  Monitors are installed from the harness on the real classes
(CoverageArchive.__init__/update/add_goals/reset with a recording dict swapped in for ``_covered``;
MIOArchive.__init__/update/shrink_solutions; MIOPopulation.add_solution/shrink_population) and
append one event per state change.  The same monitors and the same offline checker serve two workloads:

(a) synthetic histories: real TestCaseChromosome objects over real TestCases whose first statement carries a
    table id; deterministic FitnessFunction subclasses look the fitness vector up in a table (clone- and
    chop-proof), sizes 1..9, execution results with exceptions at random positions / timeouts / no result.
    CoverageArchive: random update batches (re-submissions, duplicates, clones), DynaMOSA-style add_goals.
    MIOArchive: update / shrink_solutions with the parameter n shrinking monotonically as in MIO / sampling.
(b) real short runs of DYNAMOSA, MOSA, MIO and WHOLE_SUITE(+use_archive), each in a fresh interpreter
    (``python c13_archive.py --child spec out``), 5-20 iterations on three tiny SUT modules; after the search
    every archived test is re-executed with a fresh executor and must cover the goal it is archived for.

Offline rules: covered set monotone over the whole history; first archived test covers; a replacement covers
and (old had exception/timeout and new has neither, or new is strictly shorter) [CoverageArchive]; MIO:
len(population) <= capacity and <= the current parameter n, a covered target stays covered with exactly one
solution of h == 1.0, and is never replaced by a longer test that does not fix an error.
"""

from __future__ import annotations

import json
import os
import random
import subprocess
import sys
import time

from pathlib import Path

ID = "C13"
LEVEL = "exploration"
IN_PROCESS = False
CHUNK_TIMEOUT = 900
RULE = (
    "(a) synthetic update histories (40-120 operations) on the real CoverageArchive and MIOArchive with real TestCaseChromosome "
    "objects whose fitness vector comes from a table (3-8 goals, ties, covering/non-covering, exception/timeout/no-result flags, "
    "sizes 1-9, re-submitted and cloned solutions, DynaMOSA-style add_goals, MIO parameter n shrinking 10->1); (b) real "
    "DYNAMOSA/MOSA/MIO/WHOLE_SUITE+archive runs (5-20 iterations, 3 tiny SUTs, fresh interpreter each) with the same monitors; "
    "oracle = offline checker over the event log (monotone covered set, first-cover, replacement rule, MIO capacity / exactly-one) "
    "plus re-execution of every archived test with a fresh executor; distinct = hash of a history's operation sequence / run spec"
)
ASSUMPTIONS = [
    "the monitors observe the archive through a recording dict swapped in for CoverageArchive._covered and wrappers on the public "
    "methods; they call only get_is_covered/get_fitness_for on already evaluated chromosomes (cached values)",
    "error-free = last execution result has neither test exceptions nor timeout (a missing result counts as error-free, as in the code)",
    "the replacement rule is applied literally to both archives; MIO's equal-size replacement of the covered solution (it prefers the "
    "newer of two equally long tests) is a recorded known finding keyed mio:covered-solution-replaced-by-equal-size",
    "CoverageArchive.reset() is a deliberate public way to forget everything and is not part of any history",
    "re-execution uses a new TestCaseExecutor on the run's subject properties and a copy of the goal's fitness function bound to it; "
    "the SUT corpus is deterministic and stateless",
    "a real run that dies or times out makes the chunk inconclusive, never a violation",
]

PY = "/venv/bin/python"
ALGOS = ["DYNAMOSA", "MOSA", "MIO", "WHOLE_SUITE"]

SUTS = {
    "c13_tri": '''
def classify(a: int, b: int, c: int) -> str:
    if a <= 0 or b <= 0 or c <= 0:
        raise ValueError("sides must be positive")
    if a + b <= c or a + c <= b or b + c <= a:
        return "none"
    if a == b and b == c:
        return "equilateral"
    if a == b or b == c or a == c:
        return "isosceles"
    return "scalene"


def sign(x: int) -> int:
    if x > 0:
        return 1
    if x < 0:
        return -1
    return 0
''',
    "c13_stack": '''
class Stack:
    def __init__(self, limit: int = 3):
        if limit < 1:
            raise ValueError("limit")
        self.limit = limit
        self.items: list[int] = []

    def push(self, x: int) -> int:
        if len(self.items) >= self.limit:
            raise OverflowError("full")
        self.items.append(x)
        return len(self.items)

    def pop(self) -> int:
        if not self.items:
            raise IndexError("empty")
        return self.items.pop()

    def peek_or(self, default: int) -> int:
        if self.items:
            return self.items[-1]
        return default


def drain(s: Stack) -> int:
    total = 0
    while s.items:
        v = s.pop()
        if v < 0:
            total -= v
        else:
            total += v
    return total
''',
    "c13_text": '''
def shorten(text: str, width: int) -> str:
    if width < 3:
        raise ValueError("width")
    if len(text) <= width:
        return text
    return text[: width - 3] + "..."


def kind(text: str) -> str:
    if not text:
        return "empty"
    if text.isdigit():
        if len(text) > 3:
            return "long-number"
        return "number"
    if text[0] == "#":
        return "comment"
    if " " in text:
        return "phrase"
    return "word"


def ratio(a: float, b: float) -> float:
    if b == 0:
        raise ZeroDivisionError("b")
    r = a / b
    if r > 1:
        return 1.0
    if r < 0:
        return 0.0
    return r
''',
}


def floors(tier):
    k = 1 if tier == "quick" else 8
    return {
        "evals": 12000 * k,
        "distinct": 150 * k,
        "classes": {
            "cov.update:synthetic": 3000,
            "cov.first-cover": 500,
            "cov.replacement:shorter": 300,
            "cov.replacement:error-fix": 100,
            "cov.replacement:error-fix-by-longer": 30,
            "cov.add_goals": 100,
            "mio.add:synthetic": 3000,
            "mio.add:covered-replaced": 100,
            "mio.add:newly-covered": 300,
            "mio.shrink": 300,
            "mio.chopped-solution": 100,
            "real-run:DYNAMOSA": 6 * k,
            "real-run:MOSA": 6 * k,
            "real-run:MIO": 6 * k,
            "real-run:WHOLE_SUITE": 6 * k,
            "reexec:DYNAMOSA": 10,
            "reexec:MOSA": 10,
            "reexec:MIO": 10,
            "reexec:WHOLE_SUITE": 10,
            "cov.update:real": 200,
            "mio.add:real": 200,
        },
    }


def plan(tier, seed):
    quick = tier == "quick"
    specs = [{"name": "directed"}]
    for part in range(3):
        specs.append({"name": "synthetic", "seed": seed, "part": part, "histories": 60 if quick else 600})
    runs = []
    reps = 2 if quick else 16
    for rep in range(reps):
        for algo in ALGOS:
            for si, sut in enumerate(SUTS):
                # the first repetition is the same for every seed (directed real runs)
                run_seed = 1000 + rep if rep == 0 else seed * 7919 + rep * 101 + si
                iters = [8, 14, 20][(rep + si) % 3] if algo != "WHOLE_SUITE" else [5, 8, 10][(rep + si) % 3]
                runs.append({"algo": algo, "sut": sut, "seed": run_seed, "iterations": iters,
                             "local_search": bool(algo == "DYNAMOSA" and rep % 2 == 1)})
    per = 2 if quick else 8
    for i in range(0, len(runs), per):
        specs.append({"name": "real", "runs": runs[i:i + per]})
    return specs


# --------------------------------------------------------------------------------------------
# Monitors (shared by the synthetic workload, the real-run child and the seeded-break self-test)
# --------------------------------------------------------------------------------------------
class ArchiveMonitors:
    def __init__(self, events, describe=None):
        self.events = events
        self.describe = describe
        self._objs: dict[int, tuple] = {}
        self._goals: dict[int, tuple] = {}
        self.goal_names: dict[int, str] = {}
        self.archives: list = []
        self._undo: list = []
        self.calls = {"cov.update": 0, "mio.update": 0, "mio.add": 0, "mio.shrink": 0}

    # ---- naming ----------------------------------------------------------------------------
    def sid(self, sol):
        hit = self._objs.get(id(sol))
        if hit is None or hit[0] is not sol:
            hit = (sol, len(self._objs))
            self._objs[id(sol)] = hit
        return hit[1]

    def gid(self, goal):
        hit = self._goals.get(id(goal))
        if hit is None or hit[0] is not goal:
            hit = (goal, len(self._goals))
            self._goals[id(goal)] = hit
            try:
                self.goal_names[hit[1]] = str(goal)[:160]
            except Exception:  # noqa: BLE001
                self.goal_names[hit[1]] = "?"
        return hit[1]

    def summ(self, sol):
        if sol is None:
            return None
        res = sol.get_last_execution_result()
        d = {
            "sid": self.sid(sol),
            "size": sol.size(),
            "exc": bool(res is not None and res.has_test_exceptions()),
            "timeout": bool(res is not None and res.timeout),
            "no_result": res is None,
        }
        if self.describe is not None:
            d.update(self.describe(sol))
        return d

    # ---- installation ----------------------------------------------------------------------
    def install(self):
        import pynguin.ga.algorithms.archive as arch

        mon = self

        class RecDict(dict):
            """Stands in for CoverageArchive._covered and reports every single change."""

            aid = -1

            def __setitem__(self, k, v):
                old = dict.get(self, k)
                try:
                    covers = bool(v.get_is_covered(k))
                except Exception as e:  # noqa: BLE001
                    covers = f"raised {type(e).__name__}"
                mon.events.append({"t": "cov.set", "arch": self.aid, "goal": mon.gid(k), "old": mon.summ(old),
                                   "new": mon.summ(v), "new_covers": covers, "same_object": old is v})
                dict.__setitem__(self, k, v)

            def _removed(self, how, keys):
                mon.events.append({"t": "cov.remove", "arch": self.aid, "how": how, "goals": [mon.gid(k) for k in keys]})

            def __delitem__(self, k):
                self._removed("del", [k])
                dict.__delitem__(self, k)

            def clear(self):
                self._removed("clear", list(self))
                dict.clear(self)

            def pop(self, k, *d):
                if k in self:
                    self._removed("pop", [k])
                return dict.pop(self, k, *d)

            def popitem(self):
                k, v = dict.popitem(self)
                self._removed("popitem", [k])
                return k, v

            def update(self, *a, **kw):
                for k, v in dict(*a, **kw).items():
                    self[k] = v

            def setdefault(self, k, d=None):
                if k not in self:
                    self[k] = d
                return dict.__getitem__(self, k)

        def patch(owner, name, make):
            orig = owner.__dict__[name]
            setattr(owner, name, make(orig))
            mon._undo.append((owner, name, orig))

        # -- CoverageArchive
        def mk_cov_init(orig):
            def __init__(self, objectives):
                orig(self, objectives)
                aid = len(mon.archives)
                mon.archives.append(self)
                rec = RecDict(self._covered)
                rec.aid = aid
                self._covered = rec
                self._c13_aid = aid
                mon.events.append({"t": "cov.init", "arch": aid, "objectives": [mon.gid(g) for g in self._objectives]})
            return __init__

        def cov_state(self, t, **extra):
            if not isinstance(self._covered, RecDict):
                mon.events.append({"t": "cov.monitor-lost", "arch": getattr(self, "_c13_aid", -1)})
                rec = RecDict(self._covered)
                rec.aid = getattr(self, "_c13_aid", -1)
                self._covered = rec
            ev = {"t": t, "arch": self._c13_aid, "covered": [mon.gid(g) for g in self._covered],
                  "uncovered": [mon.gid(g) for g in self._uncovered], "objectives": len(self._objectives)}
            ev.update(extra)
            mon.events.append(ev)

        def mk_cov_update(orig):
            def update(self, solutions):
                mon.calls["cov.update"] += 1
                ret = orig(self, solutions)
                cov_state(self, "cov.update", ret=bool(ret))
                return ret
            return update

        def mk_cov_add_goals(orig):
            def add_goals(self, new_goals):
                ret = orig(self, new_goals)
                cov_state(self, "cov.add_goals")
                return ret
            return add_goals

        def mk_cov_reset(orig):
            def reset(self):
                mon.events.append({"t": "cov.reset", "arch": self._c13_aid})
                return orig(self)
            return reset

        patch(arch.CoverageArchive, "__init__", mk_cov_init)
        patch(arch.CoverageArchive, "update", mk_cov_update)
        patch(arch.CoverageArchive, "add_goals", mk_cov_add_goals)
        patch(arch.CoverageArchive, "reset", mk_cov_reset)

        # -- MIO
        def pop_id(p):
            tag = getattr(p, "_c13", None)
            if tag is None:
                tag = p._c13 = (-1, -1 - mon.sid(p))
            return tag

        def pop_state(p):
            sols = p._solutions
            return {"len": len(sols), "cap": p._capacity, "covered": bool(p.is_covered), "hs": [x.h for x in sols[:12]]}

        def mk_mio_init(orig):
            def __init__(self, targets, initial_size):
                orig(self, targets, initial_size)
                aid = len(mon.archives)
                mon.archives.append(self)
                self._c13_aid = aid
                for t, p in self._archive.items():
                    p._c13 = (aid, mon.gid(t))
                    p._c13_target = t
                mon.events.append({"t": "mio.init", "arch": aid, "n": initial_size, "targets": [mon.gid(t) for t in self._archive]})
            return __init__

        def mk_add_solution(orig):
            def add_solution(self, h, chrom):
                mon.calls["mio.add"] += 1
                aid, tgt = pop_id(self)
                was = bool(self.is_covered)
                old_best = self._solutions[0].test_case_chromosome if was else None
                old_summ = mon.summ(old_best)
                try:
                    ret = orig(self, h, chrom)
                except AssertionError as e:
                    st = pop_state(self)
                    mon.events.append({"t": "mio.assert", "arch": aid, "target": tgt, "h": h, "msg": str(e)[:80], **st})
                    raise
                st = pop_state(self)
                best = self._solutions[0].test_case_chromosome if st["covered"] and self._solutions else None
                ev = {"t": "mio.add", "arch": aid, "target": tgt, "h": h, "ret": bool(ret), "was_covered": was,
                      "old_best": old_summ, "new_best": mon.summ(best), "cand": mon.summ(chrom), **st}
                target = getattr(self, "_c13_target", None)
                if best is not None and target is not None and best is not old_best:
                    try:
                        ev["best_fitness"] = float(best.get_fitness_for(target))
                    except Exception as e:  # noqa: BLE001
                        ev["best_fitness"] = f"raised {type(e).__name__}"
                mon.events.append(ev)
                return ret
            return add_solution

        def mk_shrink_population(orig):
            def shrink_population(self, n):
                mon.calls["mio.shrink"] += 1
                aid, tgt = pop_id(self)
                was = bool(self.is_covered)
                ret = orig(self, n)
                mon.events.append({"t": "mio.shrink", "arch": aid, "target": tgt, "n": n, "was_covered": was, **pop_state(self)})
                return ret
            return shrink_population

        def mk_mio_update(orig):
            def update(self, solutions):
                mon.calls["mio.update"] += 1
                ret = orig(self, solutions)
                mon.events.append({"t": "mio.update", "arch": self._c13_aid, "ret": bool(ret),
                                   "covered": [mon.gid(t) for t, p in self._archive.items() if p.is_covered],
                                   "num_covered": self.num_covered_targets})
                return ret
            return update

        def mk_shrink_solutions(orig):
            def shrink_solutions(self, n):
                mon.events.append({"t": "mio.param-n", "arch": self._c13_aid, "n": n})
                ret = orig(self, n)
                for t, p in self._archive.items():
                    mon.events.append({"t": "mio.state", "arch": self._c13_aid, "target": mon.gid(t), **pop_state(p)})
                return ret
            return shrink_solutions

        patch(arch.MIOArchive, "__init__", mk_mio_init)
        patch(arch.MIOArchive, "update", mk_mio_update)
        patch(arch.MIOArchive, "shrink_solutions", mk_shrink_solutions)
        patch(arch.MIOPopulation, "add_solution", mk_add_solution)
        patch(arch.MIOPopulation, "shrink_population", mk_shrink_population)

    def uninstall(self):
        for owner, name, orig in reversed(self._undo):
            setattr(owner, name, orig)
        self._undo.clear()


# --------------------------------------------------------------------------------------------
# Offline checker
# --------------------------------------------------------------------------------------------
def _err(s):
    return bool(s["exc"] or s["timeout"])


def check_log(events, ctx, source, case, truth=None):
    """Replay an event log against the rules of the property.

    truth: for synthetic logs, callable (summary, goal_id) -> bool telling whether the solution covers the goal
    (from the fitness table, independent of any cache); None for real runs (cached verdict + final re-execution).
    """
    real = source.startswith("real")
    kind = "real" if real else "synthetic"
    cov_prev: dict[int, set] = {}
    cov_removed_legit: set = set()
    mio_n: dict[int, int] = {}
    mio_cov: dict[tuple, bool] = {}

    def wit(key, desc, ev, idx):
        c = dict(case)
        c.update({"event_index": idx, "event": ev, "preceding_events": events[max(0, idx - 4):idx]})
        ctx.witness(key, f"[{source}] {desc}", c)

    for idx, ev in enumerate(events):
        t = ev["t"]
        if t == "cov.init":
            cov_prev[ev["arch"]] = set()
        elif t == "cov.reset":
            cov_removed_legit.add(ev["arch"])
            cov_prev[ev["arch"]] = set()
            ctx.anomaly("cov.reset-called")
        elif t == "cov.monitor-lost":
            ctx.inconclusive_because(f"[{source}] CoverageArchive._covered was rebound; replacement events may be missing")
        elif t == "cov.remove":
            if ev["arch"] in cov_removed_legit and ev["how"] == "clear":
                cov_removed_legit.discard(ev["arch"])
            elif ev["goals"]:
                wit(f"coverage:covered-entry-removed:{ev['how']}", f"{len(ev['goals'])} covered goal(s) removed from the archive", ev, idx)
        elif t == "cov.set":
            new, old = ev["new"], ev["old"]
            covers = ev["new_covers"]
            if truth is not None:
                tv = truth(new, ev["goal"])
                if tv is not None:
                    if covers is True and not tv:
                        ctx.anomaly("cache-says-covered-table-says-not")
                    covers = tv
            if old is None:
                ctx.ok(cls=["cov.first-cover", f"cov.set:{kind}"])
                if covers is not True:
                    wit("coverage:archived-test-does-not-cover:first", f"goal {ev['goal']} archived with a test that does not cover it ({covers})", ev, idx)
            else:
                if ev.get("same_object"):
                    ctx.anomaly("cov.same-object-rearchived")
                    continue
                fixes = _err(old) and not _err(new)
                shorter = new["size"] < old["size"]
                cls = ["cov.replacement", f"cov.set:{kind}"]
                if fixes:
                    cls.append("cov.replacement:error-fix")
                    if not shorter:
                        cls.append("cov.replacement:error-fix-by-longer")
                elif shorter:
                    cls.append("cov.replacement:shorter")
                    if _err(new) and not _err(old):
                        cls.append("cov.replacement:shorter-but-erroring")
                ctx.ok(cls=cls)
                if covers is not True:
                    wit("coverage:replacement-does-not-cover", f"goal {ev['goal']}: replacement does not cover ({covers})", ev, idx)
                elif not (fixes or shorter):
                    rel = "equal-size" if new["size"] == old["size"] else "longer"
                    wit(f"coverage:replacement-not-better:{'err' if _err(old) else 'clean'}->{'err' if _err(new) else 'clean'}:{rel}",
                        f"goal {ev['goal']}: test of size {old['size']} (error={_err(old)}) replaced by size {new['size']} (error={_err(new)})", ev, idx)
        elif t in ("cov.update", "cov.add_goals"):
            a = ev["arch"]
            now = set(ev["covered"])
            lost = cov_prev.get(a, set()) - now
            ctx.ok(cls=[f"{t}:{kind}", t])
            if lost:
                wit("coverage:covered-set-shrank", f"goals {sorted(lost)} were recorded as covered and no longer are after {t}", ev, idx)
            both = now & set(ev["uncovered"])
            if both:
                wit("coverage:covered-goal-listed-uncovered", f"goals {sorted(both)} are in covered_goals and in uncovered_goals after {t}", ev, idx)
            if len(now) + len(set(ev["uncovered"])) != ev["objectives"]:
                ctx.anomaly("coverage:covered+uncovered!=objectives")
            cov_prev[a] = now
        elif t == "mio.init":
            mio_n[ev["arch"]] = ev["n"]
        elif t == "mio.param-n":
            if ev["n"] > mio_n.get(ev["arch"], ev["n"]):
                ctx.anomaly("mio:parameter-n-grew")
            mio_n[ev["arch"]] = ev["n"]
        elif t == "mio.assert":
            wit("mio:population-exceeds-capacity:assertion", f"add_solution tripped its own assertion: {ev['msg']} (len {ev['len']}, capacity {ev['cap']})", ev, idx)
        elif t in ("mio.add", "mio.shrink", "mio.state"):
            key = (ev["arch"], ev["target"])
            n_now = mio_n.get(ev["arch"])
            cls = [f"{t}:{kind}", t]
            if t == "mio.add":
                if ev["covered"] and not ev["was_covered"]:
                    cls.append("mio.add:newly-covered")
                if ev["cand"] and ev["cand"].get("chopped"):
                    cls.append("mio.chopped-solution")
            ctx.ok(cls=cls)
            if ev["len"] > ev["cap"]:
                wit("mio:population-exceeds-capacity", f"target {ev['target']}: {ev['len']} solutions, capacity {ev['cap']} after {t}", ev, idx)
            elif n_now is not None and ev["arch"] >= 0 and ev["len"] > n_now:
                wit("mio:population-exceeds-parameter-n", f"target {ev['target']}: {ev['len']} solutions although n is {n_now} after {t}", ev, idx)
            was = mio_cov.get(key, False) or bool(ev.get("was_covered"))
            if was and not ev["covered"]:
                why = "not-one-solution" if ev["len"] != 1 else ("capacity" if ev["cap"] != 1 else "h-below-1")
                wit(f"mio:covered-target-lost:{why}", f"target {ev['target']} was covered; after {t}: len {ev['len']}, capacity {ev['cap']}, h {ev['hs'][:3]}", ev, idx)
            if ev["covered"] and (ev["len"] != 1 or ev["hs"][:1] != [1.0]):
                wit("mio:covered-target-not-exactly-one-solution", f"target {ev['target']}: len {ev['len']} h {ev['hs'][:3]}", ev, idx)
            mio_cov[key] = was or ev["covered"]
            if t == "mio.add" and ev["covered"] and ev["new_best"] is not None:
                new, old = ev["new_best"], ev["old_best"]
                bf = ev.get("best_fitness")
                covers = None
                if truth is not None:
                    covers = truth(new, ev["target"])
                if covers is None and bf is not None:
                    covers = bf == 0.0
                if covers is False:
                    wit("mio:covered-target-holds-noncovering-test", f"target {ev['target']} counts as covered by a test with fitness {bf}", ev, idx)
                if old is not None and new["sid"] != old["sid"]:
                    ctx.cls("mio.add:covered-replaced")
                    fixes = _err(old) and not _err(new)
                    if not fixes and new["size"] > old["size"]:
                        wit("mio:covered-solution-replaced-by-longer", f"target {ev['target']}: size {old['size']} (error={_err(old)}) replaced by size {new['size']} (error={_err(new)})", ev, idx)
                    elif not fixes and new["size"] == old["size"]:
                        wit("mio:covered-solution-replaced-by-equal-size", f"target {ev['target']}: covered solution of size {old['size']} replaced by another of the same size without an error fix", ev, idx)
        elif t == "mio.update":
            ctx.ok(cls=[f"mio.update:{kind}"])
            if ev["num_covered"] != len(ev["covered"]):
                ctx.anomaly("mio:num_covered_targets-differs")


# --------------------------------------------------------------------------------------------
# (a) synthetic workload
# --------------------------------------------------------------------------------------------
class Synth:
    """Factory of real chromosomes whose fitness vector lives in a table keyed by the literal of statement 0."""

    def __init__(self):
        import libcst as cst

        import pynguin.ga.computations as ff
        import pynguin.testcase.testcase as tc

        from pynguin.ga.testcasechromosome import TestCaseChromosome
        from pynguin.testcase.execution_result import ExecutionResult

        self.cst, self.tc, self.TCC, self.ER = cst, tc, TestCaseChromosome, ExecutionResult
        self.table: dict[int, list[float]] = {}
        self.sizes: dict[int, int] = {}
        synth = self

        class TableFF(ff.FitnessFunction):
            def __init__(self, index):
                self.index = index

            def compute_fitness(self, individual):
                return synth.vector(individual)[self.index]

            def compute_is_covered(self, individual):
                return synth.vector(individual)[self.index] == 0.0

            def is_maximisation_function(self):
                return False

            def __repr__(self):
                return f"G{self.index}"

        self.TableFF = TableFF
        self.goals: list = []

    def make_goals(self, n):
        self.goals = [self.TableFF(i) for i in range(n)]
        return self.goals

    def tid(self, chrom):
        tcase = chrom.test_case
        if tcase.size() == 0:
            return None
        node = tcase.get_statement(0).node
        try:
            return int(self.cst.Module(body=[node]).code.split("=", 1)[1])
        except Exception:  # noqa: BLE001
            return None

    def vector(self, chrom):
        t = self.tid(chrom)
        if t is None or t not in self.table:
            return [1.0] * len(self.goals)
        return self.table[t]

    def describe(self, chrom):
        t = self.tid(chrom)
        return {"tid": t, "chopped": bool(t in self.sizes and chrom.size() < self.sizes[t])}

    def truth(self, summ, goal_id):
        t = summ.get("tid")
        if t is None or t not in self.table or goal_id >= len(self.goals):
            return None
        return self.table[t][goal_id] == 0.0

    def solution(self, rng, vector, size, flag):
        tid = len(self.table) + 1
        self.table[tid] = list(vector)
        self.sizes[tid] = size
        tcase = self.tc.TestCase()
        for i in range(size):
            name = tcase.next_var_name()
            value = tid if i == 0 else i
            node = self.cst.parse_module(f"{name} = {value}\n").body[0]
            tcase.add_statement(self.tc.Statement(node=node, bound_variable=name, bound_type=int))
        chrom = self.TCC(tcase, None)
        for g in self.goals:
            chrom.add_fitness_function(g)
        if flag != "no-result":
            res = self.ER(timeout=(flag == "timeout"))
            if flag == "exception":
                res.report_new_thrown_exception(rng.randrange(size), ValueError("synthetic"))
            chrom.set_last_execution_result(res)
        # evaluate like the search does before the archive sees the individual
        for g in self.goals:
            chrom.get_fitness_for(g)
        return chrom


FIT_POOL = [0.0, 0.0, 0.0, 0.5, 1.0, 1.0, 2.5, 1e-12, 7.0, 1e308]


def _vector(rng, n, style):
    if style == "sparse":
        return [0.0 if rng.random() < 0.15 else rng.choice(FIT_POOL[3:]) for _ in range(n)]
    if style == "dense":
        return [0.0 if rng.random() < 0.6 else rng.choice(FIT_POOL[3:]) for _ in range(n)]
    return [rng.choice(FIT_POOL) for _ in range(n)]


def _flag(rng, mio=False):
    r = rng.random()
    if r < 0.55:
        return "clean"
    if r < 0.85:
        return "exception"
    if r < 0.93:
        return "timeout"
    return "clean" if mio else "no-result"


def synthetic_coverage_history(ctx, rng, forced=None):
    from pynguin.ga.algorithms.archive import CoverageArchive
    from pynguin.utils.orderedset import OrderedSet

    synth = Synth()
    events: list = []
    mon = ArchiveMonitors(events, synth.describe)
    mon.install()
    ops: list = []
    try:
        n_goals = 3 if forced is not None else rng.randint(3, 8)
        goals = synth.make_goals(n_goals)
        for g in goals:  # goal ids == table indices
            mon.gid(g)
        start = n_goals if forced is not None else rng.randint(0, n_goals)
        archive = CoverageArchive(OrderedSet(goals[:start]))
        pending = list(goals[start:])
        pool: list = []
        style = rng.choice(["sparse", "dense", "mixed"])
        steps = forced if forced is not None else [None] * rng.randint(40, 120)
        for step in steps:
            if step is not None:
                batch = [synth.solution(rng, v, s, f) for (v, s, f) in step]
                ops.append(["update", [[s, f] for (_, s, f) in step]])
                archive.update(batch)
                continue
            r = rng.random()
            if r < 0.12 and pending:
                k = rng.randint(1, len(pending))
                new, pending = pending[:k], pending[k:]
                ops.append(["add_goals", k])
                archive.add_goals(OrderedSet(new))
            elif r < 0.17:
                ops.append(["read"])
                sols = archive.solutions
                if len(sols) > len(archive.covered_goals):
                    ctx.witness("coverage:more-solutions-than-covered-goals", "solutions larger than covered_goals", {"ops": ops[-10:]})
            else:
                batch = []
                for _ in range(rng.choice([1, 1, 2, 3, 5])):
                    q = rng.random()
                    if pool and q < 0.2:
                        batch.append(rng.choice(pool))  # re-submission of a known individual
                    elif pool and q < 0.3:
                        batch.append(rng.choice(pool).clone())  # equal clone
                    elif pool and q < 0.55:
                        # a competitor for an already seen vector: same coverage, different size/error status
                        base = rng.choice(pool)
                        batch.append(synth.solution(rng, synth.vector(base), rng.randint(1, 9), _flag(rng)))
                    else:
                        batch.append(synth.solution(rng, _vector(rng, n_goals, style), rng.randint(1, 9), _flag(rng)))
                pool.extend(batch)
                if len(pool) > 40:
                    del pool[:10]
                if rng.random() < 0.15:
                    batch = tuple(batch)
                ops.append(["update", [[b.size(), synth.describe(b)["tid"]] for b in batch]])
                archive.update(batch)
        # final: every archived test covers its goal (table truth), and the public views agree
        for goal, sol in archive._covered.items():  # noqa: SLF001
            ctx.ok(cls="cov.final-covers:synthetic")
            if synth.vector(sol)[goal.index] != 0.0:
                ctx.witness("coverage:archived-test-does-not-cover:final", f"goal {goal} archived test has fitness {synth.vector(sol)[goal.index]}",
                            {"ops": ops[-12:]})
    finally:
        mon.uninstall()
    case = {"workload": "synthetic-coverage", "ops_tail": ops[-15:], "n_ops": len(ops)}
    check_log(events, ctx, "synthetic:CoverageArchive", case, truth=synth.truth)
    ctx.ok(0, distinct={"w": "cov", "ops": [o[0] if o[0] != "update" else ["u", o[1]] for o in ops]})
    if len(ctx.samples) < 2:
        ctx.sample({"workload": "synthetic-coverage", "ops_head": ops[:8], "events": len(events)})


def synthetic_mio_history(ctx, rng, forced_n0=None):
    from pynguin.ga.algorithms.archive import MIOArchive
    from pynguin.utils import randomness
    from pynguin.utils.orderedset import OrderedSet

    synth = Synth()
    events: list = []
    mon = ArchiveMonitors(events, synth.describe)
    mon.install()
    ops: list = []
    try:
        n_goals = rng.randint(2, 7)
        goals = synth.make_goals(n_goals)
        for g in goals:
            mon.gid(g)
        n = forced_n0 or rng.choice([1, 2, 3, 5, 10, 10])
        randomness.RNG.seed(rng.randrange(1 << 30))
        archive = MIOArchive(OrderedSet(goals), n)
        style = rng.choice(["sparse", "dense", "mixed"])
        pool: list = []
        for _ in range(rng.randint(40, 120)):
            r = rng.random()
            if r < 0.12 and n > 1:
                n = max(1, n - rng.choice([1, 1, 2, 4]))
                ops.append(["shrink", n])
                archive.shrink_solutions(n)
            elif r < 0.22:
                ops.append(["sample"])
                got = archive.get_solution()
                if got is not None and rng.random() < 0.5:
                    # MIO mutates the sampled clone and offers it again: emulate with a competitor of the same vector
                    pool.append(synth.solution(rng, synth.vector(got), rng.randint(1, 9), _flag(rng, mio=True)))
            elif r < 0.27:
                ops.append(["read"])
                sols = archive.solutions
                if len(sols) > archive.num_covered_targets:
                    ctx.witness("mio:more-solutions-than-covered-targets", "solutions larger than num_covered_targets", {"ops": ops[-10:]})
            else:
                q = rng.random()
                if pool and q < 0.25:
                    sol = rng.choice(pool)
                elif pool and q < 0.5:
                    base = rng.choice(pool)
                    sol = synth.solution(rng, synth.vector(base), rng.randint(1, 9), _flag(rng, mio=True))
                else:
                    sol = synth.solution(rng, _vector(rng, n_goals, style), rng.randint(1, 9), _flag(rng, mio=True))
                pool.append(sol)
                if len(pool) > 30:
                    del pool[:8]
                ops.append(["update", sol.size(), synth.describe(sol)["tid"]])
                try:
                    archive.update([sol])
                except AssertionError:
                    # the population's own capacity assertion: logged by the monitor as mio.assert and judged offline
                    if not (events and events[-1]["t"] == "mio.assert"):
                        raise
                    break
        for goal, popn in archive._archive.items():  # noqa: SLF001
            best = popn.get_best_solution_if_any()
            if best is not None:
                ctx.ok(cls="mio.final-covers:synthetic")
                if synth.vector(best)[goal.index] != 0.0:
                    ctx.witness("mio:archived-test-does-not-cover:final", f"target {goal}: best solution has fitness {synth.vector(best)[goal.index]}",
                                {"ops": ops[-12:]})
    finally:
        mon.uninstall()
    case = {"workload": "synthetic-mio", "ops_tail": ops[-15:], "n_ops": len(ops)}
    check_log(events, ctx, "synthetic:MIOArchive", case, truth=synth.truth)
    ctx.ok(0, distinct={"w": "mio", "ops": ops})
    if len(ctx.samples) < 3:
        ctx.sample({"workload": "synthetic-mio", "ops_head": ops[:12], "events": len(events)})


def directed(ctx):
    """Every replacement class and every MIO class, independent of the seed."""
    rng = random.Random(1313)
    cov, non = [0.0, 0.0, 0.0], [1.0, 0.5, 2.5]
    E, C, T, N = "exception", "clean", "timeout", "no-result"
    for _ in range(40):
        # (vector, size, flag) batches; one update each
        synthetic_coverage_history(ctx, rng, forced=[
            [(non, 2, C)],                      # nothing covered
            [(cov, 6, E)],                      # first cover, erroring
            [(cov, 8, C)],                      # error fix by a longer test
            [(cov, 8, C)],                      # equal: must not replace
            [(cov, 9, C)],                      # longer: must not replace
            [(cov, 5, C)],                      # shorter
            [(cov, 4, E)],                      # shorter but erroring (allowed by the statement)
            [(cov, 4, T)],                      # equal size, still erroring: no
            [(cov, 7, N)],                      # no result counts as error-free: fixes
            [(cov, 3, C), (cov, 2, E), (cov, 2, C), (non, 1, C)],  # chain inside one batch
            [([0.0, 1.0, 0.0], 1, C), ([1.0, 0.0, 1.0], 1, T)],
        ])
    for n0 in (1, 2, 3, 5, 10):
        for _ in range(12):
            synthetic_mio_history(ctx, rng, forced_n0=n0)
    for _ in range(30):
        synthetic_coverage_history(ctx, rng)


# --------------------------------------------------------------------------------------------
# (b) real runs: child side
# --------------------------------------------------------------------------------------------
def child_main(spec_path, out_path):
    spec = json.loads(Path(spec_path).read_text())
    out: dict = {"spec": spec, "events": [], "final": [], "error": None}
    t0 = time.time()
    try:
        import copy

        import pynguin.configuration as config

        events = out["events"]
        brk = spec.get("seeded_break")
        if brk:  # self-test only: a seeded break is applied to the pynguin classes before the monitors wrap them
            sys.path.insert(0, str(Path(__file__).resolve().parent.parent / "tools"))
            import selftest_c13  # noqa: PLC0415

            selftest_c13.BREAKS[brk]()
        mon = ArchiveMonitors(events)
        mon.install()

        cfg = config.Configuration(
            algorithm=config.Algorithm[spec["algo"]],
            project_path=spec["project_path"],
            module_name=spec["sut"],
            test_case_output=config.TestCaseOutputConfiguration(output_path=spec["output_path"]),
        )
        cfg.stopping.maximum_search_time = -1
        cfg.stopping.maximum_iterations = spec["iterations"]
        cfg.seeding.seed = spec["seed"]
        cfg.use_master_worker = False
        cfg.statistics_output.statistics_backend = config.StatisticsBackend.NONE
        cfg.test_case_output.assertion_generation = config.AssertionGenerator.NONE
        cfg.search_algorithm.population = spec.get("population", 12)
        if spec["algo"] == "WHOLE_SUITE":
            cfg.search_algorithm.use_archive = True
        cfg.local_search.local_search = bool(spec.get("local_search"))
        if spec.get("local_search"):
            cfg.local_search.local_search_time = 200
            cfg.local_search.local_search_probability = 0.3

        import pynguin.ga.algorithms.dynamosaalgorithm as dyn
        import pynguin.ga.algorithms.mioalgorithm as mio
        import pynguin.ga.algorithms.mosaalgorithm as mosa
        import pynguin.ga.algorithms.wholesuitealgorithm as ws

        from pynguin.ga.testcasechromosome import TestCaseChromosome
        from pynguin.testcase.execution import TestCaseExecutor

        final = out["final"]

        def reexecute(algorithm):
            archive = algorithm.archive
            fresh = TestCaseExecutor(algorithm.executor.subject_properties)
            pairs = []
            if hasattr(archive, "_covered"):
                pairs = list(archive._covered.items())  # noqa: SLF001
            else:
                for target, popn in archive._archive.items():  # noqa: SLF001
                    best = popn.get_best_solution_if_any()
                    if best is not None:
                        pairs.append((target, best))
            for goal, sol in pairs:
                rec = {"goal": mon.gid(goal), "goal_str": str(goal)[:120], "sol": mon.summ(sol), "code": sol.test_case.to_code()[:600]}
                try:
                    rec["cached_covers"] = bool(sol.get_is_covered(goal))
                except Exception as e:  # noqa: BLE001
                    rec["cached_covers"] = f"raised {type(e).__name__}: {e}"
                try:
                    g2 = copy.copy(goal)
                    g2._executor = fresh  # noqa: SLF001
                    twin = TestCaseChromosome(sol.test_case.clone())
                    rec["reexec_covers"] = bool(g2.compute_is_covered(twin))
                    res = twin.get_last_execution_result()
                    rec["reexec_exc"] = bool(res is not None and res.has_test_exceptions())
                    rec["reexec_timeout"] = bool(res is not None and res.timeout)
                except Exception as e:  # noqa: BLE001
                    rec["reexec_covers"] = f"raised {type(e).__name__}: {e}"
                final.append(rec)
            out["archive_class"] = type(archive).__name__

        def wrap_generate(cls):
            orig = cls.__dict__["generate_tests"]

            def generate_tests(self):
                ret = orig(self)
                out["search_finished"] = True
                reexecute(self)
                return ret

            cls.generate_tests = generate_tests

        for cls in (dyn.DynaMOSAAlgorithm, mosa.MOSAAlgorithm, mio.MIOAlgorithm, ws.WholeSuiteAlgorithm):
            wrap_generate(cls)

        from pynguin.generator import run_pynguin, set_configuration

        set_configuration(cfg)
        rc = run_pynguin()
        out["rc"] = repr(rc)
        out["goal_names"] = mon.goal_names
        out["calls"] = mon.calls
    except BaseException as e:  # noqa: BLE001
        import traceback

        out["error"] = f"{type(e).__name__}: {e}\n{traceback.format_exc()[-1500:]}"
    out["wall"] = round(time.time() - t0, 2)
    Path(out_path).write_text(json.dumps(out, default=repr))


def run_real(ctx, run, sut_dir, idx, seeded_break=None):
    from vlib import core

    work = ctx.scratch / f"run{idx}"
    work.mkdir(parents=True, exist_ok=True)
    spec = dict(run)
    spec.update({"project_path": str(sut_dir), "output_path": str(work / "out")})
    if seeded_break:
        spec["seeded_break"] = seeded_break
    (work / "spec.json").write_text(json.dumps(spec))
    outp = work / "out.json"
    env = core.child_env()
    tag = f"real:{run['algo']}:{run['sut']}:seed={run['seed']}:it={run['iterations']}"
    try:
        cp = subprocess.run([PY, str(Path(__file__).resolve()), "--child", str(work / "spec.json"), str(outp)],
                            env=env, capture_output=True, text=True, timeout=240, cwd=str(work))
    except subprocess.TimeoutExpired:
        ctx.inconclusive_because(f"{tag}: watchdog fired")
        return
    if not outp.exists():
        ctx.inconclusive_because(f"{tag}: child died rc={cp.returncode}: {cp.stderr[-400:]}")
        return
    res = json.loads(outp.read_text())
    case = {"workload": "real-run", "run": run}
    events = res["events"]
    source = f"real:{run['algo']}"
    check_log(events, ctx, source, case)
    if res.get("error"):
        # an AssertionError of the archive's own invariant shows up in the log as mio.assert (a witness); anything else is harness trouble
        if "Some covered targets have a fitness != 0.0" in res["error"]:
            # CoverageArchive's own invariant (solutions -> _all_covered): a covered target is held by a test that does not cover it
            ctx.ok(cls=f"real-run:{run['algo']}")
            ctx.witness("archive-own-invariant:covered-target-with-positive-fitness:CoverageArchive",
                        f"[{source}] the run ended with the archive's own assertion: {res['error'][:200]}", case)
        elif not any(e["t"] == "mio.assert" for e in events):
            ctx.inconclusive_because(f"{tag}: run failed: {res['error'][:300]}")
        return
    if not res.get("search_finished"):
        ctx.inconclusive_because(f"{tag}: search did not finish (rc {res.get('rc')})")
        return
    calls = res.get("calls", {})
    if calls.get("cov.update", 0) + calls.get("mio.update", 0) == 0:
        ctx.inconclusive_because(f"{tag}: the update monitors saw no call")
        return
    ctx.ok(cls=f"real-run:{run['algo']}", distinct=run)
    ctx.note(f"wall:{run['algo']}", res.get("wall"))
    for rec in res["final"]:
        ctx.ok(cls=f"reexec:{run['algo']}")
        c = dict(case)
        c["archived"] = rec
        if rec["reexec_covers"] is True:
            if rec["cached_covers"] is not True:
                ctx.anomaly("reexec-covers-but-cache-says-not")
            continue
        if isinstance(rec["reexec_covers"], str):
            ctx.inconclusive_because(f"{tag}: re-execution failed: {rec['reexec_covers'][:200]}")
            continue
        how = "timeout" if rec.get("reexec_timeout") else ("exception" if rec.get("reexec_exc") else "plain")
        ctx.witness(f"reexec:archived-test-does-not-cover:{res.get('archive_class')}:{how}",
                    f"[{source}] archived test for goal `{rec['goal_str']}` does not cover it when re-executed (cached verdict {rec['cached_covers']})", c)
    if len(ctx.samples) < 6:
        ctx.sample({"run": run, "events": len(events), "archived": len(res["final"]), "wall": res.get("wall"),
                    "first_archived": res["final"][0] if res["final"] else None})


def write_suts(ctx):
    d = ctx.scratch / "sut"
    d.mkdir(parents=True, exist_ok=True)
    for name, src in SUTS.items():
        (d / f"{name}.py").write_text(src.lstrip("\n"))
    return d


def run_chunk(spec, ctx):
    if spec["name"] == "directed":
        directed(ctx)
    elif spec["name"] == "synthetic":
        rng = random.Random(spec["seed"] * 1_000_003 + spec["part"] * 7919 + 13)
        for i in range(spec["histories"]):
            if i % 2 == 0:
                synthetic_coverage_history(ctx, rng)
            else:
                synthetic_mio_history(ctx, rng)
    elif spec["name"] == "real":
        sut_dir = write_suts(ctx)
        for i, run in enumerate(spec["runs"]):
            run_real(ctx, run, sut_dir, i, seeded_break=spec.get("seeded_break"))


if __name__ == "__main__":
    if len(sys.argv) == 4 and sys.argv[1] == "--child":
        sys.path.insert(0, str(Path(__file__).resolve().parent.parent))
        os.environ.setdefault("SE2P_PYNGUIN_VERIF", "1")
        child_main(sys.argv[2], sys.argv[3])
