"""C14 — ranking (preference sorting + non-dominated sorting), crowding distance, rank selection.

Oracle: brute-force dominance on the fitness matrix; for rank selection the real get_index is
driven with a patched randomness.next_float over a grid of draws (including 0.0 and the float
adjacent to 1.0) and bisection-located bucket boundaries, so the preimage length of every index is
measured on the real code.
"""

from __future__ import annotations

import math
import random

ID = "C14"
LEVEL = "exploration"
IN_PROCESS = True
RULE = (
    "random fitness matrices with ties (population 1..64, 1..8 goals) ranked by the real RankBasedPreferenceSorting and "
    "compared with brute-force dominance; crowding distances range-checked; RankSelection.get_index driven over a draw "
    "grid for (bias, size) pairs; a case is distinct by its fitness matrix / (bias,size) and non-trivial when the "
    "population has >= 2 individuals"
)
ASSUMPTIONS = [
    "chromosomes are stubs exposing get_fitness_for/length/rank/distance; the real comparator and ranking code is what runs",
    "when front 0 already fills the population the code lumps the remainder into one front (MOSA shortcut); only 'partition of the remainder' is checked there",
    "'never prefers a worse rank' is read as: the measure of draws mapped to index i is non-increasing in i (tolerance 1e-6: the closed formula is ill-conditioned for biases within 1e-9 of 1.0)",
]

BIASES = [1.0, 1.0 + 1e-9, 1.001, 1.2, 1.5, 1.68, 1.99, 2.0, 2.5, 5.0]


def floors(tier):
    return {"evals": 3000, "distinct": 1500,
            "classes": {"ranking:nds-path": 500, "ranking:nds-path:stale-ranks-on-entry": 200, "ranking:shortcut-path": 100, "crowding": 500, "select:pair": 120,
                        "select:bias=1.0": 10, "select:draw-adjacent-1.0": 200}}


def plan(tier, seed):
    n = 2500 if tier == "quick" else 40000
    return [{"name": "selection"}, {"name": "ranking", "n": n, "seed": seed}]


class Goal:
    def __init__(self, i):
        self.i = i

    def __repr__(self):
        return f"g{self.i}"


class Stub:
    """Minimal chromosome: identity equality, fixed fitness vector."""

    def __init__(self, idx, vec, length):
        self.idx, self.vec, self._len = idx, vec, length
        self.rank = -1
        self.distance = -1.0

    def get_fitness_for(self, goal):
        return self.vec[goal.i]

    def get_fitness_functions(self):
        return []

    def length(self):
        return self._len

    def size(self):
        return self._len

    def __repr__(self):
        return f"S{self.idx}{self.vec}"


def _dominates(a, b):
    return all(x <= y for x, y in zip(a, b)) and any(x < y for x, y in zip(a, b))


def _ranking_case(ctx, rng, cfg):
    from pynguin.ga.operators.ranking import RankBasedPreferenceSorting, fast_epsilon_dominance_assignment
    from pynguin.utils.orderedset import OrderedSet

    n = rng.choice([1, 2, 3, 5, 8, 13, 20, 33, 50, 64])
    g = rng.randint(1, 8)
    style = rng.random()
    pool = [0.0, 0.5, 1.0, 2.0, 1e-9, 3.25, 1e6]

    def val():
        if style < 0.5:
            return rng.choice(pool)  # many ties
        if style < 0.8:
            return float(rng.randint(0, 3))
        return rng.random() * 10

    sols = [Stub(i, tuple(val() for _ in range(g)), rng.randint(1, 6)) for i in range(n)]
    goals = OrderedSet([Goal(i) for i in range(g)])
    pop = rng.choice([1, 2, max(1, n // 2), n, n + 5, 50])
    cfg.search_algorithm.population = pop
    case = {"population": pop, "matrix": [list(s.vec) for s in sols], "lengths": [s.length() for s in sols]}
    stale = rng.random() < 0.5
    if stale:
        # rank and distance persist on a chromosome between generations (and are copied by clone()): the individuals of a
        # later generation arrive with the values of an earlier ranking
        for s_ in sols:
            s_.rank = rng.choice([-1, 0, 0, 1, 2])
            s_.distance = rng.choice([-1.0, 0.0, 0.5])
        case["ranks_on_entry"] = [s_.rank for s_ in sols]
    try:
        rf = RankBasedPreferenceSorting().compute_ranking_assignment(list(sols), goals)
    except Exception as e:  # noqa: BLE001
        ctx.witness(f"ranking:raises-{type(e).__name__}", f"compute_ranking_assignment raised {e!r}", case)
        return
    fronts = rf.fronts
    f0 = fronts[0]
    ok = True
    # front 0 has a minimiser for each goal
    for gi in range(g):
        best = min(s.vec[gi] for s in sols)
        if not any(s.vec[gi] == best for s in f0):
            ctx.witness("ranking:front0-lacks-minimiser", f"goal {gi}: min {best} not in front 0 {f0}", case)
            ok = False
            break
    # fronts are disjoint, without repetitions, subsets of solutions
    seen = set()
    for fi, fr in enumerate(fronts):
        for s in fr:
            if id(s) in seen:
                ctx.witness("ranking:individual-in-two-fronts", f"{s} appears twice (front {fi})", case)
                ok = False
            seen.add(id(s))
            if fi > 0 and s.rank != fi:
                ctx.witness("ranking:rank-attribute", f"{s}.rank={s.rank} but in front {fi}", case)
                ok = False
        if fi > 0 and not fr and len(f0) < pop:
            # (the MOSA shortcut legitimately appends an empty remainder front)
            ctx.witness("ranking:empty-front", f"front {fi} is empty", case)
            ok = False
    for s in f0:
        if s.rank != 0:
            ctx.witness("ranking:rank-attribute", f"{s}.rank={s.rank} but in front 0", case)
            ok = False
    if len(f0) < pop:
        path = "ranking:nds-path"
        remaining = [s for s in sols if s not in f0]
        for fi in range(1, len(fronts)):
            expect = [s for s in remaining if not any(_dominates(o.vec, s.vec) for o in remaining if o is not s)]
            got = fronts[fi]
            if {id(s) for s in got} != {id(s) for s in expect}:
                ctx.witness("ranking:later-front-not-nondominated-set",
                            f"front {fi}: got {got} expected {expect} among remaining {remaining}", case)
                ok = False
                break
            remaining = [s for s in remaining if s not in got]
        # the loop must not stop early: it stops only when enough are ranked or nothing remains
        ranked = sum(len(f) for f in fronts)
        if remaining and ranked < pop:
            ctx.witness("ranking:stopped-early", f"{ranked} ranked < population {pop} but {len(remaining)} unranked", case)
            ok = False
    else:
        path = "ranking:shortcut-path"
        rest = [s for s in sols if s not in f0]
        got = fronts[1] if len(fronts) > 1 else []
        if {id(s) for s in got} != {id(s) for s in rest} or len(fronts) > 2:
            ctx.witness("ranking:shortcut-remainder", f"remainder front {got} != {rest}", case)
            ok = False
    ctx.ok(cls=[path] + ([path + ":stale-ranks-on-entry"] if stale else []), distinct=case if n >= 2 else None)
    # crowding distance on each front
    for fr in fronts:
        if not fr:
            continue
        try:
            fast_epsilon_dominance_assignment(fr, goals)
        except Exception as e:  # noqa: BLE001
            ctx.witness(f"crowding:raises-{type(e).__name__}", f"raised {e!r} on front {fr}", case)
            break
        bad = [s for s in fr if not (0 <= s.distance < 1) or s.distance != s.distance]
        ctx.ok(cls="crowding")
        if bad:
            ctx.witness("crowding:out-of-range", f"distance {bad[0].distance} for {bad[0]} in front of {len(fr)}", case)
            break
    if ok and len(ctx.samples) < 3:
        ctx.sample({"population": pop, "matrix": case["matrix"][:6], "fronts": [[s.idx for s in f] for f in fronts][:4]})


def _selection(ctx):
    import pynguin.utils.randomness as randomness

    from pynguin.ga.operators.selection import RankSelection

    orig = randomness.next_float
    draw = [0.0]
    randomness.next_float = lambda: draw[0]
    one_minus = math.nextafter(1.0, 0.0)
    grid = sorted({0.0, 5e-324, 1e-300, 1e-17, 1e-9, 0.001, 0.25, 0.5, 0.75, 0.9, 0.99, 0.999999, 1 - 1e-12, 1 - 2**-52, one_minus,
                   math.nextafter(one_minus, 0.0)} | {i / 97 for i in range(97)})
    try:
        for bias in BIASES:
            sel = RankSelection(bias)
            for n in [1, 2, 3, 4, 5, 7, 10, 16, 25, 31, 32, 50, 63, 64]:
                pop = list(range(n))
                case = {"bias": bias, "size": n}
                mech = "bias=1.0" if bias == 1.0 else ("bias-near-1" if bias < 1.0001 else ("bias<=2" if bias <= 2 else "bias>2"))
                prev, failed = -1, False

                def idx(u):
                    draw[0] = u
                    return sel.get_index(pop)

                for u in grid:
                    try:
                        i = idx(u)
                    except Exception as e:  # noqa: BLE001
                        ctx.witness(f"select:raises-{type(e).__name__}:{mech}", f"get_index raised {e!r} for draw {u!r}", {**case, "draw": u})
                        failed = True
                        break
                    if u >= 1 - 2**-52:
                        ctx.cls("select:draw-adjacent-1.0")
                    if not isinstance(i, int) or not (0 <= i < n):
                        ctx.witness(f"select:index-out-of-range:{mech}", f"index {i!r} for draw {u!r}", {**case, "draw": u})
                        failed = True
                        break
                    if i < prev:
                        ctx.witness(f"select:not-monotone:{mech}", f"index {i} after {prev} at draw {u!r}", {**case, "draw": u})
                        failed = True
                        break
                    prev = i
                ctx.ok(cls=["select:pair", f"select:bias={bias}" if bias in (1.0, 1.68, 2.0) else "select:bias-other"], distinct=case if n >= 2 else None)
                if failed:
                    continue
                # measure of each index's preimage by bisection on the real function
                top = idx(one_minus)
                bounds = [0.0]
                for i in range(1, top + 1):
                    lo, hi = bounds[-1], one_minus
                    for _ in range(60):
                        mid = (lo + hi) / 2
                        if idx(mid) >= i:
                            hi = mid
                        else:
                            lo = mid
                    bounds.append(hi)
                bounds.append(1.0)
                measures = [bounds[k + 1] - bounds[k] for k in range(len(bounds) - 1)] + [0.0] * (n - top - 1)
                for k in range(len(measures) - 1):
                    if measures[k + 1] > measures[k] + 1e-6:
                        ctx.witness(f"select:prefers-worse-rank:{mech}",
                                    f"P(index={k + 1})={measures[k + 1]:.6g} > P(index={k})={measures[k]:.6g}", case)
                        break
                if len(ctx.samples) < 6 and n == 10:
                    ctx.sample({"bias": bias, "size": n, "P(index)": [round(m, 4) for m in measures]})
    finally:
        randomness.next_float = orig


def run_chunk(spec, ctx):
    import pynguin.configuration as config

    if spec["name"] == "selection":
        _selection(ctx)
        return
    rng = random.Random(spec["seed"] * 104729 + 14)
    cfg = config.configuration
    for _ in range(spec["n"]):
        _ranking_case(ctx, rng, cfg)
