"""C15 — variation operators keep every test case well-formed.

Shape: invariant at a hook.  Populations are built by the real factory on small SUT modules; a
history of 50-500 real operations (TestCaseChromosome.mutate, SinglePointRelativeCrossOver.cross_over,
TestCaseChromosome.cross_over, the public TestFactory methods, TestCase.chop / remove_unused_variables /
remove_statement_with_forward_dependencies / append_test_case(_from) / clone, TestCaseLocalSearch.local_search
with a stub objective and timer) is applied.  After every operation -- and, through wrappers installed on the
public TestFactory methods and on TestCaseMutation._mutation_delete/_change/_insert, after every complete
sub-operation -- the well-formedness invariant is evaluated:

  * the rendered code (TestCase.to_code(), and a fresh to_module().code) parses with ast.parse and has one
    top-level statement per Statement object;
  * def-use: every ``var_N`` read by a statement is bound by an *earlier* statement;
  * bound names are unique (AST targets and Statement.bound_variable);
  * TestCase._type_registry == registry recomputed from (bound_variable, bound_type) of the statements, and
    every registered name is the assignment target of its statement;
  * length: sizes are taken before and after every insertion mutation (and every insert_random_statement call it
    issues, to name the mechanism) and every crossover; "grew beyond the limit" = post > chromosome_length and post > pre.

Nothing is checked inside private multi-step helpers of the factory.
"""

from __future__ import annotations

import ast
import builtins
import random
import re
import sys

ID = "C15"
LEVEL = "exploration"
IN_PROCESS = False
CHUNK_TIMEOUT = 1500
RULE = (
    "histories of 50-500 real operations (mutate, relative and positional crossover, 8 public TestFactory methods, chop, "
    "remove_unused_variables, forward-dependency removal, append_test_case(_from), clone, TestCaseLocalSearch with a stub "
    "objective/timer and stub execution results carrying exceptions at random positions) over populations built by the real "
    "RandomLengthTestCaseFactory on 5 small SUT modules (classes with dependency chains, enums, fields/properties, callables, "
    "collections, *args/**kwargs, positional-only), chromosome_length in {4,6,10,20,48}, chop on/off; oracle = ast.parse of the "
    "real rendering + def-use walk over var_N + unique bound names + _type_registry recomputed from the statements, evaluated "
    "after every operation and every complete sub-operation; length: pre/post size of each single insertion call of the "
    "insertion mutation and of each crossover; a history is distinct by (sut, configuration, operation-name sequence)"
)
ASSUMPTIONS = [
    "well-formedness is judged statically on the code the real TestCase.to_code()/to_module() renders (the test is not executed)",
    "names other than var_N (module alias, builtins, lambda parameters) are assumed to be bound by the exporter/namespace",
    "raw building blocks (TestCase.insert_statement/replace_statement/remove_statement, TestFactory.delete_statement/append_statement) "
    "are not operations of the property: they are only exercised through the operators that use them",
    "local search is driven at TestCaseLocalSearch.local_search with a stub objective (random verdicts) and stub timer; "
    "TestSuiteLocalSearch/LocalSearchObjective need a real executor and are exercised by C13's real runs only",
    "the length clause is applied to the insertion mutation (per insert_random_statement call issued by _mutation_insert) and to "
    "crossover only; growth by change mutations, local search or harness-issued factory calls is recorded as an anomaly",
    "an exception escaping an operation is an anomaly (the statement is about the resulting test case, not about totality)",
]

LENGTHS = [4, 6, 10, 20, 48]

# --------------------------------------------------------------------------------------------
# SUT corpus (written into ctx.scratch)
# --------------------------------------------------------------------------------------------
SUTS = {
    "c15_shapes": '''
import enum
from typing import Callable


class Color(enum.Enum):
    RED = 1
    GREEN = 2
    BLUE = 3


class Point:
    origin_label = "o"
    dims = 2

    def __init__(self, x: int, y: int = 0):
        self.x = x
        self.y = y

    def norm1(self) -> int:
        return abs(self.x) + abs(self.y)

    def shifted(self, dx: int, dy: int) -> "Point":
        return Point(self.x + dx, self.y + dy)

    @property
    def quadrant(self) -> int:
        return (1 if self.x >= 0 else 2) if self.y >= 0 else (4 if self.x >= 0 else 3)


class Segment:
    width = 1.5

    def __init__(self, a: Point, b: Point, color: Color):
        self.a = a
        self.b = b
        self.color = color
        self.tags: list[str] = []

    def length1(self) -> int:
        return self.a.shifted(-self.b.x, -self.b.y).norm1()

    def tag(self, name: str, weight: float = 1.0) -> "Segment":
        self.tags.append(name)
        return self

    def midpoint(self) -> Point:
        return Point((self.a.x + self.b.x) // 2, (self.a.y + self.b.y) // 2)


class Canvas:
    def __init__(self, segments: list[Segment], title: str):
        self.segments = segments
        self.title = title

    def total(self) -> int:
        return sum(s.length1() for s in self.segments)

    def by_color(self, color: Color) -> list[Segment]:
        return [s for s in self.segments if s.color == color]

    def apply(self, fn: Callable[[Segment], int]) -> list[int]:
        return [fn(s) for s in self.segments]


def longest(canvas: Canvas, key: Callable[[Segment], int]) -> Segment | None:
    best = None
    for s in canvas.segments:
        if best is None or key(s) > key(best):
            best = s
    return best


def make_adder(n: int):
    def add(x):
        return x + n
    return add


def describe(points: dict[str, Point], flags: set[int], pair: tuple[int, str]) -> str:
    if not points:
        return "empty"
    return ",".join(sorted(points)) + str(len(flags)) + pair[1]
''',
    "c15_chain": '''
import enum


class Level(enum.IntEnum):
    LOW = 0
    MID = 5
    HIGH = 9


class Mode(enum.Flag):
    R = 1
    W = 2
    X = 4


class Seed:
    def __init__(self, value: int, salt: bytes):
        self.value = value
        self.salt = salt


class Key:
    def __init__(self, seed: Seed, level: Level):
        self.seed = seed
        self.level = level

    def rotate(self, by: int) -> "Key":
        return Key(Seed(self.seed.value + by, self.seed.salt), self.level)


class Lock:
    def __init__(self, key: Key, mode: Mode, label: str):
        self.key = key
        self.mode = mode
        self.label = label

    def opens_with(self, other: Key) -> bool:
        return other.seed.value == self.key.seed.value


class Door:
    def __init__(self, lock: Lock, backup: Lock, height: float):
        self.lock = lock
        self.backup = backup
        self.height = height

    def try_open(self, key: Key) -> bool:
        return self.lock.opens_with(key) or self.backup.opens_with(key)


class House:
    def __init__(self, front: Door, back: Door, owner: str):
        self.front = front
        self.back = back
        self.owner = owner

    def secure(self, keys: list[Key]) -> int:
        return sum(1 for k in keys if not self.front.try_open(k) and not self.back.try_open(k))

    def swap(self) -> "House":
        return House(self.back, self.front, self.owner)


class Street:
    def __init__(self, houses: list[House], name: str, level: Level):
        self.houses = houses
        self.name = name
        self.level = level

    def census(self, by_owner: dict[str, House]) -> int:
        return len(self.houses) + len(by_owner)


def burgle(street: Street, key: Key, mode: Mode) -> list[House]:
    return [h for h in street.houses if h.front.try_open(key)]


def master_key(level: Level, salt: bytes) -> Key:
    return Key(Seed(int(level), salt), level)
''',
    "c15_textops": '''
from typing import Any, Callable, Iterable, Sequence


def apply_all(fns: list[Callable[[str], str]], text: str) -> str:
    for f in fns:
        text = f(text)
    return text


def fold(items: Iterable[int], step: Callable[[int, int], int], start: int = 0) -> int:
    acc = start
    for i in items:
        acc = step(acc, i)
    return acc


def pick(seq: Sequence[str], /, index: int, default: str = "") -> str:
    try:
        return seq[index]
    except IndexError:
        return default


def join_all(sep: str, *parts: str, upper: bool = False, **extras: int) -> str:
    out = sep.join(parts)
    for k, v in extras.items():
        out += k * v
    return out.upper() if upper else out


def compose(f, g):
    def h(x):
        return f(g(x))
    return h


def untyped(a, b=None, *rest, flag=False, **kw):
    if b is None:
        return a
    return (a, b, rest, flag, kw)


def table(rows: list[dict[str, int]], cols: tuple[str, ...]) -> list[list[int]]:
    return [[r.get(c, 0) for c in cols] for r in rows]


def convert(value: Any, kind: type) -> Any:
    return kind(value)


def pred_count(pred: Callable[..., bool], values: set[float], limit: int | None = None) -> int:
    n = 0
    for v in values:
        if pred(v):
            n += 1
            if limit is not None and n >= limit:
                break
    return n


class Pipeline:
    def __init__(self, stages: list[Callable[[Any], Any]] | None = None):
        self.stages = list(stages or [])

    def then(self, stage: Callable[[Any], Any]) -> "Pipeline":
        self.stages.append(stage)
        return self

    def run(self, value: Any) -> Any:
        for s in self.stages:
            value = s(value)
        return value
''',
    "c15_records": '''
import enum


class Kind(enum.Enum):
    A = "a"
    B = "b"


class Item:
    unit = "pc"
    taxed = False

    def __init__(self, name: str, qty: int = 1, price: float = 0.0, kind: Kind = Kind.A):
        self.name = name
        self.qty = qty
        self.price = price
        self.kind = kind

    def cost(self) -> float:
        return self.qty * self.price


class Order:
    def __init__(self, items: list[Item], note: str = "", paid: bool = False):
        self.items = items
        self.note = note
        self.paid = paid

    def total(self) -> float:
        return sum(i.cost() for i in self.items)

    def add(self, item: Item) -> "Order":
        self.items.append(item)
        return self


class Base:
    registry_size = 0
    label = "base"
    ratio = 0.5

    def __init__(self, ident: int):
        self.ident = ident

    def describe(self) -> str:
        return f"{self.label}:{self.ident}"

    @staticmethod
    def parse(text: str) -> "Base":
        return Base(int(text or "0"))

    @classmethod
    def default(cls) -> "Base":
        return cls(0)


class Derived(Base):
    label = "derived"
    depth = 2

    def __init__(self, ident: int, parent: Base):
        super().__init__(ident)
        self.parent = parent

    def chain(self) -> list[int]:
        out = [self.ident]
        p = self.parent
        while isinstance(p, Derived):
            out.append(p.ident)
            p = p.parent
        return out


class Ledger:
    currency = "EUR"
    open = True

    def __init__(self, orders: dict[int, Order], owner: Base):
        self.orders = orders
        self.owner = owner

    @property
    def size(self) -> int:
        return len(self.orders)

    @property
    def first(self) -> Order:
        return next(iter(self.orders.values()))

    def settle(self, who: Derived, amount: complex) -> tuple[bool, float]:
        return (who.ident == self.owner.ident, abs(amount))


def audit(ledger: Ledger, kinds: set[Kind], threshold: float) -> list[Order]:
    return [o for o in ledger.orders.values() if o.total() > threshold]
''',
    "c15_tiny": '''
def inc(x: int) -> int:
    return x + 1


def cat(a: str, b: bytes) -> str:
    return a + b.decode("latin-1")


class Box:
    def __init__(self, v: bool):
        self.v = v

    def flip(self) -> "Box":
        return Box(not self.v)
''',
}

_VAR = re.compile(r"^var_\d+$")
_BUILTINS = set(dir(builtins))


def floors(tier):
    k = 1 if tier == "quick" else 10
    return {
        "evals": 60000 * k,
        "distinct": 200 * k,
        "classes": {
            "op:mutate": 5000,
            "op:crossover-relative": 1500,
            "op:crossover-positional": 1000,
            "op:factory.insert_random_statement": 500,
            "op:factory.append_generic_accessible": 300,
            "op:factory.delete_statement_gracefully": 500,
            "op:factory.change_random_call": 500,
            "op:factory.change_statement_type": 500,
            "op:factory.change_random_field_call": 100,
            "op:factory.mutate_value": 500,
            "op:factory.mutate_call": 500,
            "op:chop": 300,
            "op:remove_unused_variables": 300,
            "op:remove_statement_with_forward_dependencies": 300,
            "op:append_test_case_from": 300,
            "op:clone": 200,
            "op:local_search": 300,
            "hook:mutate/delete": 1000,
            "hook:mutate/change": 1000,
            "hook:mutate/insert": 1000,
            "mutate:chop-at-limit": 100,
            "state:exception-result": 2000,
            "insert-call:under-limit": 1000,
            "crossover:accepted": 500,
            "crossover:rejected-too-long": 50,
            "stmt:field": 50,
            "stmt:enum": 200,
            "stmt:callable-value": 200,
            "stmt:collection-with-reference": 100,
            "stmt:unbound-expression": 100,
        },
    }


def plan(tier, seed):
    per_chunk = 19 if tier == "quick" else 200
    specs = [{"name": "directed", "histories": 2, "sut": sut} for sut in SUTS]
    for part in range(11):
        specs.append({"name": "random", "seed": seed, "part": part, "histories": per_chunk})
    return specs


# --------------------------------------------------------------------------------------------
# Invariant checker
# --------------------------------------------------------------------------------------------
class _NodeInfo:
    __slots__ = ("node", "code", "error", "reads", "targets", "nstmts", "other_reads")


class Checker:
    """Static well-formedness of one TestCase, computed from what the real code renders."""

    def __init__(self, alias_of):
        self._cache: dict[int, _NodeInfo] = {}
        self._parsed: dict[str, object] = {}
        self._n = 0
        self._alias_of = alias_of
        import libcst as cst

        self._cst = cst

    def _info(self, node) -> _NodeInfo:
        hit = self._cache.get(id(node))
        if hit is not None and hit.node is node:
            return hit
        info = _NodeInfo()
        info.node = node
        info.error = None
        info.reads, info.targets, info.other_reads, info.nstmts = [], [], [], 0
        try:
            info.code = self._cst.Module(body=[node]).code
        except Exception as e:  # noqa: BLE001
            info.code = ""
            info.error = f"render:{type(e).__name__}: {e}"
        if info.error is None:
            try:
                tree = ast.parse(info.code)
            except (SyntaxError, ValueError, RecursionError, MemoryError) as e:
                info.error = f"parse:{type(e).__name__}: {e}"
            else:
                info.nstmts = len(tree.body)
                local = set()
                for sub in ast.walk(tree):
                    if isinstance(sub, ast.arg):
                        local.add(sub.arg)
                    elif isinstance(sub, ast.Name) and isinstance(sub.ctx, (ast.Store, ast.Del)):
                        local.add(sub.id)
                for top in tree.body:
                    if isinstance(top, ast.Assign):
                        for t in top.targets:
                            for n in ast.walk(t):
                                if isinstance(n, ast.Name) and isinstance(n.ctx, ast.Store):
                                    info.targets.append(n.id)
                    elif isinstance(top, (ast.AnnAssign, ast.AugAssign)) and isinstance(top.target, ast.Name):
                        info.targets.append(top.target.id)
                for sub in ast.walk(tree):
                    if isinstance(sub, ast.Name) and isinstance(sub.ctx, ast.Load):
                        if _VAR.match(sub.id):
                            info.reads.append(sub.id)
                        elif sub.id not in local and sub.id not in _BUILTINS:
                            info.other_reads.append(sub.id)
        if len(self._cache) > 200000:
            self._cache.clear()
        self._cache[id(node)] = info
        return info

    def check(self, tcase):
        """Returns (problems, anomalies, features): problems = list of (kind, description)."""
        problems, anomalies, feats = [], [], set()
        stmts = tcase._statements  # noqa: SLF001 - the state the property names
        alias = self._alias_of()
        # (1) valid Python, through the real rendering method
        infos = [self._info(st.node) for st in stmts]
        try:
            code = tcase.to_code()
        except Exception as e:  # noqa: BLE001
            problems.append((f"render-raises-{type(e).__name__}", f"to_code() raised {e!r}"))
            code = None
        if code is not None:
            # a Module renders as the concatenation of its statements; the per-node renderings are cached, the
            # real to_module().code is consulted whenever the two disagree and on a sample of evaluations
            concat = "".join(i.code for i in infos) if stmts else "pass\n"
            self._n += 1
            fresh = concat
            if concat != code or self._n % 40 == 0:
                try:
                    fresh = tcase.to_module().code
                except Exception as e:  # noqa: BLE001
                    problems.append((f"render-raises-{type(e).__name__}", f"to_module().code raised {e!r}"))
                    fresh = code
                if fresh != concat and not any(i.error for i in infos):
                    anomalies.append("harness:module-code-is-not-concatenation")
            if fresh != code:
                anomalies.append("render:code-cache-stale")
            for label, src in (("to_code", code), ("to_module", fresh)) if fresh != code else (("to_code", code),):
                hit = self._parsed.get(src)
                if hit is None:
                    try:
                        hit = len(ast.parse(src).body)
                    except (SyntaxError, ValueError, RecursionError, MemoryError) as e:
                        hit = f"{type(e).__name__}: {e}"
                    if len(self._parsed) > 20000:
                        self._parsed.clear()
                    self._parsed[src] = hit
                if isinstance(hit, str):
                    problems.append(("syntax", f"ast.parse({label}) failed: {hit}"))
                else:
                    expect = len(stmts) if stmts else 1
                    if hit != expect:
                        problems.append(("syntax-statement-count", f"{label} parses to {hit} statements for {expect} Statement objects"))
        # (2)-(4) def-use, uniqueness, metadata, registry
        bound_ast: set[str] = set()
        bound_meta: set[str] = set()
        expected_registry: dict = {}
        max_index = -1
        for i, st in enumerate(stmts):
            info = infos[i]
            if info.error:
                problems.append(("syntax-statement", f"statement {i}: {info.error}"))
                continue
            for r in info.reads:
                if r not in bound_ast:
                    later = any(r in self._info(s2.node).targets for s2 in stmts[i:])
                    problems.append((
                        "unbound-read" + (":bound-later" if later else ":never-bound"),
                        f"statement {i} `{info.code.strip()[:120]}` reads {r} which no earlier statement binds",
                    ))
            for r in info.other_reads:
                if r != alias:
                    anomalies.append("name:non-var-free-name")
            for t in info.targets:
                if t in bound_ast:
                    problems.append(("duplicate-bound-name", f"statement {i} `{info.code.strip()[:120]}` rebinds {t}"))
                bound_ast.add(t)
                if _VAR.match(t):
                    max_index = max(max_index, int(t[4:]))
            bv = st.bound_variable
            if bv is not None:
                if bv in bound_meta:
                    problems.append(("duplicate-bound-name", f"statement {i}: Statement.bound_variable {bv} already used"))
                bound_meta.add(bv)
                if info.targets != [bv]:
                    problems.append((
                        "registry:bound-variable-desync",
                        f"statement {i}: bound_variable={bv} but the node assigns {info.targets} (`{info.code.strip()[:100]}`)",
                    ))
                if st.bound_type is not None:
                    expected_registry.setdefault(st.bound_type, []).append(bv)
            elif info.targets:
                problems.append((
                    "registry:bound-variable-desync",
                    f"statement {i}: bound_variable=None but the node assigns {info.targets} (`{info.code.strip()[:100]}`)",
                ))
            # features for class floors
            if bv is None:
                feats.add("stmt:unbound-expression")
            acc = st.accessible
            if acc is not None:
                n = type(acc).__name__
                if n == "GenericField":
                    feats.add("stmt:field")
                elif n == "GenericEnum":
                    feats.add("stmt:enum")
            elif st.bound_type is not None:
                tn = getattr(st.bound_type, "__name__", "")
                if tn in ("function", "builtin_function_or_method", "type"):
                    feats.add("stmt:callable-value")
                elif tn in ("list", "set", "tuple", "dict") and info.reads:
                    feats.add("stmt:collection-with-reference")
        real = {k: list(v) for k, v in tcase._type_registry.items() if v}  # noqa: SLF001
        if real != expected_registry:
            if {k: sorted(v) for k, v in real.items()} == {k: sorted(v) for k, v in expected_registry.items()}:
                anomalies.append("registry:order-differs")
            else:
                problems.append((
                    "registry:mismatch",
                    f"_type_registry {_fmt_reg(real)} != recomputed {_fmt_reg(expected_registry)}",
                ))
        else:
            for t, names in expected_registry.items():
                if tcase.variables_of_type(t) != names:
                    problems.append(("registry:variables_of_type", f"variables_of_type({t!r}) != {names}"))
        if max_index >= tcase._var_counter:  # noqa: SLF001
            anomalies.append("names:var-counter-not-beyond-bound-names")
        return problems, anomalies, feats


def _fmt_reg(reg):
    return {getattr(k, "__name__", repr(k)): v for k, v in reg.items()}


# --------------------------------------------------------------------------------------------
# Monitors
# --------------------------------------------------------------------------------------------
class Monitor:
    """Installs recording wrappers on pynguin classes; evaluates the invariant at operation boundaries."""

    FACTORY_METHODS = [
        "insert_random_statement", "append_generic_accessible", "delete_statement_gracefully", "change_random_call",
        "change_statement_type", "change_random_field_call", "mutate_value", "mutate_call",
    ]

    def __init__(self, ctx, checker):
        self.ctx = ctx
        self.checker = checker
        self.stack: list[str] = []
        self.trace: list = []
        self.reported = False
        self.case_info = None  # callable returning the replayable case dict
        self.limit = lambda: 0
        self._undo = []
        self.hook_calls = 0
        self.insert_calls: list = []

    # ---- invariant evaluation --------------------------------------------------------------
    def evaluate(self, tcase, op: str, extra_cls=()):
        problems, anomalies, feats = self.checker.check(tcase)
        for a in anomalies:
            self.ctx.anomaly(a)
        self.ctx.ok(cls=[op, *extra_cls, *sorted(feats)])
        if problems and not self.reported:
            self.reported = True
            seen = set()
            for kind, desc in problems:
                key = f"{kind}:{op.split(':', 1)[1]}"
                if key in seen:
                    continue
                seen.add(key)
                case = self.case_info() if self.case_info else {}
                case["code_after"] = _safe_code(tcase)
                case["trace"] = self.trace[-12:]
                self.ctx.witness(key, f"after {op}: {desc}", case)
        return not problems

    # ---- installation ------------------------------------------------------------------------
    def install(self):
        import pynguin.ga.operators.mutation as mutation
        import pynguin.testcase.testfactory as tf

        mon = self

        def wrap_factory(name):
            raw = tf.TestFactory.__dict__[name]
            is_static = isinstance(raw, staticmethod)
            orig = raw.__func__ if is_static else raw

            def body(args, kwargs, call):
                tcase = args[0] if args else kwargs.get("test_case")
                pre = tcase.size()
                ret = call()
                post = tcase.size()
                mon.hook_calls += 1
                mon.trace.append([name, pre, post, ret if isinstance(ret, (int, bool)) else repr(ret)[:40]])
                if name == "insert_random_statement" and mon.stack and mon.stack[-1] == "mutate/insert":
                    mon.insert_call(pre, post, tcase)
                if mon.stack and mon.stack[0] != "direct":
                    mon.evaluate(tcase, f"hook:{mon.stack[-1]}>{name}")
                return ret

            if is_static:
                def w(*args, **kwargs):
                    return body(args, kwargs, lambda: orig(*args, **kwargs))
                new = staticmethod(w)
            else:
                def w(self, *args, **kwargs):
                    return body(args, kwargs, lambda: orig(self, *args, **kwargs))
                new = w
            setattr(tf.TestFactory, name, new)
            mon._undo.append((tf.TestFactory, name, raw))

        for m in self.FACTORY_METHODS:
            wrap_factory(m)

        def wrap_mutation(name, label):
            orig = mutation.TestCaseMutation.__dict__[name]

            def w(self, chromosome, *a, **k):
                mon.stack.append(label)
                if label == "mutate/insert":
                    mon.insert_calls = []
                pre = chromosome.size()
                try:
                    ret = orig(self, chromosome, *a, **k)
                finally:
                    mon.stack.pop()
                post = chromosome.size()
                mon.trace.append([label, pre, post, bool(ret)])
                limit = mon.limit()
                if label == "mutate/change" and post > limit and post > pre:
                    mon.ctx.anomaly("length:change-dependencies-grow-beyond-limit")
                if label == "mutate/insert":
                    mon.insertion_done(pre, post, chromosome.test_case)
                mon.evaluate(chromosome.test_case, f"hook:{label}")
                return ret

            setattr(mutation.TestCaseMutation, name, w)
            mon._undo.append((mutation.TestCaseMutation, name, orig))

        wrap_mutation("_mutation_delete", "mutate/delete")
        wrap_mutation("_mutation_change", "mutate/change")
        wrap_mutation("_mutation_insert", "mutate/insert")

    def uninstall(self):
        for owner, name, orig in reversed(self._undo):
            setattr(owner, name, orig)
        self._undo.clear()

    # ---- length rule -------------------------------------------------------------------------
    def insert_call(self, pre, post, tcase):
        """One insert_random_statement call issued by the insertion mutation (judged when the mutation returns)."""
        if pre < self.limit():
            self.ctx.cls("insert-call:under-limit")
        self.insert_calls.append((pre, post))

    def insertion_done(self, pre0, post, tcase):
        """The insertion mutation returned: did it leave the test longer than the limit, and by which mechanism?"""
        limit = self.limit()
        calls, self.insert_calls = self.insert_calls, []
        if not (post > limit and post > pre0):
            return
        case = self.case_info() if self.case_info else {}
        case.update({"size_before_insertion_mutation": pre0, "size_after": post, "limit": limit,
                     "insert_calls_pre_post": calls, "code_after": _safe_code(tcase)})
        growing = [(p, q) for p, q in calls if q > p and q > limit]
        if growing and all(p < limit for p, q in growing):
            p, q = growing[-1]
            self.ctx.witness(
                "length:insert-dependencies-overshoot",
                f"insertion mutation left {post} statements (limit {limit}, {pre0} before): an insert_random_statement call issued at "
                f"size {p} < {limit} added the call plus its dependency statements and reached {q}; the size is only tested before a call",
                case,
            )
        elif growing:
            p, q = next((p, q) for p, q in growing if p >= limit)
            self.ctx.witness(
                "length:insert-when-already-at-limit",
                f"insertion mutation issued an insertion although size {p} >= limit {limit}; grew to {q} (final {post})",
                case,
            )
        else:
            self.ctx.witness(
                "length:insert-grew-beyond-limit:unattributed",
                f"insertion mutation grew the test from {pre0} to {post} > limit {limit} without a growing insert_random_statement call",
                case,
            )

    def crossover(self, pre, post, tcase, how):
        limit = self.limit()
        if post > limit and post > pre:
            case = self.case_info() if self.case_info else {}
            case.update({"pre_size": pre, "post_size": post, "limit": limit, "code_after": _safe_code(tcase)})
            self.ctx.witness(
                f"length:crossover-grew-beyond-limit:{how}",
                f"crossover grew a parent from {pre} to {post} statements, limit {limit}",
                case,
            )


def _cheap_code(tcase):
    try:
        return tcase.to_code()[:3000]
    except Exception as e:  # noqa: BLE001
        return f"<unrenderable: {e!r}>"


def _safe_code(tcase):
    try:
        return tcase.to_module().code[:3000]
    except Exception as e:  # noqa: BLE001
        return f"<unrenderable: {e!r}>"


# --------------------------------------------------------------------------------------------
# Stubs for local search
# --------------------------------------------------------------------------------------------
class StubTimer:
    def __init__(self, budget):
        self.left = budget

    def limit_reached(self):
        self.left -= 1
        return self.left < 0

    def start_timer(self):
        pass


class StubObjective:
    """Random verdicts; like the real objective it leaves a fresh execution result on the chromosome."""

    def __init__(self, rng, p, make_result):
        self.rng, self.p, self.make_result = rng, p, make_result
        self.calls = 0

    def has_changed(self, chromosome):
        from pynguin.testcase.localsearchobjective import LocalSearchImprovement

        self.calls += 1
        chromosome.changed = True
        if self.rng.random() < 0.5:
            chromosome.set_last_execution_result(self.make_result(chromosome))
        if self.calls < 400 and self.rng.random() < self.p:
            return LocalSearchImprovement.IMPROVEMENT
        return LocalSearchImprovement.DETERIORATION if self.rng.random() < 0.5 else LocalSearchImprovement.NONE

    def has_improved(self, chromosome):
        from pynguin.testcase.localsearchobjective import LocalSearchImprovement

        return self.has_changed(chromosome) == LocalSearchImprovement.IMPROVEMENT


# --------------------------------------------------------------------------------------------
# Histories
# --------------------------------------------------------------------------------------------
OPS = [
    ("mutate", 30), ("crossover-relative", 10), ("crossover-positional", 6),
    ("factory.insert_random_statement", 4), ("factory.append_generic_accessible", 2),
    ("factory.delete_statement_gracefully", 4), ("factory.change_random_call", 4), ("factory.change_statement_type", 4),
    ("factory.change_random_field_call", 3), ("factory.mutate_value", 4), ("factory.mutate_call", 4),
    ("chop", 2), ("remove_unused_variables", 2), ("remove_statement_with_forward_dependencies", 2),
    ("append_test_case_from", 2), ("clone", 1), ("local_search", 1), ("new-individual", 1), ("set-result", 4),
]


class World:
    """One process-wide set of clusters (one per SUT module and field setting)."""

    def __init__(self, ctx):
        self.ctx = ctx
        self.clusters = {}
        d = ctx.scratch / "sut"
        d.mkdir(parents=True, exist_ok=True)
        for name, src in SUTS.items():
            (d / f"{name}.py").write_text(src.lstrip("\n"))
        if str(d) not in sys.path:
            sys.path.insert(0, str(d))

    def cluster(self, module, fields):
        import pynguin.configuration as config

        from pynguin.analyses.module import generate_test_cluster

        key = (module, fields)
        if key not in self.clusters:
            config.configuration.module_name = module
            config.configuration.test_creation.generate_field_statements = fields
            self.clusters[key] = generate_test_cluster(module)
        return self.clusters[key]


def _configure(cfgd):
    import pynguin.configuration as config

    c = config.configuration
    c.module_name = cfgd["sut"]
    sa = c.search_algorithm
    sa.chromosome_length = cfgd["L"]
    sa.chop_max_length = cfgd["chop"]
    sa.change_statement_type_probability = cfgd["p_type"]
    sa.statement_insertion_probability = cfgd["p_ins"]
    sa.test_insert_probability = cfgd["p3"][0]
    sa.test_change_probability = cfgd["p3"][1]
    sa.test_delete_probability = cfgd["p3"][2]
    tcr = c.test_creation
    tcr.generate_field_statements = cfgd["fields"]
    tcr.max_recursion = cfgd["max_rec"]
    tcr.object_reuse_probability = cfgd["reuse"]
    tcr.primitive_reuse_probability = cfgd["reuse_p"]
    tcr.callable_invocation_probability = cfgd["p_invoke"]
    ls = c.local_search
    ls.local_search_probability = cfgd["ls_p"]
    ls.local_search_same_datatype = True
    ls.local_search_different_datatype = True
    ls.local_search_llm = False
    ls.local_search_primitives = True
    ls.local_search_collections = True
    ls.local_search_complex_objects = True


def _random_cfg(rng, forced=None):
    cfgd = {
        "sut": rng.choice(list(SUTS)),
        "L": rng.choice(LENGTHS),
        "chop": rng.random() < 0.7,
        "p_type": rng.choice([0.05, 0.05, 0.3, 0.8]),
        "p_ins": rng.choice([0.5, 0.5, 0.9]),
        "p3": rng.choice([[1 / 3, 1 / 3, 1 / 3], [1 / 3, 1 / 3, 1 / 3], [0.8, 0.8, 0.2], [0.2, 0.9, 0.6], [1.0, 1.0, 1.0]]),
        "fields": rng.random() < 0.6,
        "max_rec": rng.choice([10, 10, 3, 1]),
        "reuse": rng.choice([0.9, 0.9, 0.3]),
        "reuse_p": rng.choice([0.5, 0.5, 0.1, 0.95]),
        "p_invoke": rng.choice([0.25, 0.25, 0.9]),
        "ls_p": rng.choice([0.1, 0.3, 1.0]),
        "pop": rng.choice([2, 4, 8, 12]),
        "n_ops": rng.randint(50, 500),
    }
    if forced:
        cfgd.update(forced)
    return cfgd


def run_history(ctx, world, mon, hist_seed, forced_cfg=None, round_robin=False):
    import pynguin.testcase.localsearch as lsmod
    import pynguin.testcase.testfactory as tf

    from pynguin.ga.operators.crossover import SinglePointRelativeCrossOver
    from pynguin.ga.testcasechromosome import TestCaseChromosome
    from pynguin.ga.testcasefactory import RandomLengthTestCaseFactory
    from pynguin.testcase.execution_result import ExecutionResult
    from pynguin.utils import randomness

    rng = random.Random(hist_seed)
    cfgd = _random_cfg(rng, forced_cfg)
    cfgd["round_robin"] = round_robin = bool(round_robin or cfgd.get("round_robin"))
    cluster = world.cluster(cfgd["sut"], cfgd["fields"])
    _configure(cfgd)
    randomness.RNG.seed(hist_seed)
    factory = tf.TestFactory(cluster)
    tcf = RandomLengthTestCaseFactory(factory, cluster)
    L = cfgd["L"]
    mon.limit = lambda: L
    accessibles = list(cluster.accessible_objects_under_test)
    op_names: list[str] = []
    state = {"i": -1, "op": None, "before": None}

    def case_info():
        return {"sut": cfgd["sut"], "cfg": {k: v for k, v in cfgd.items()}, "history_seed": hist_seed,
                "op_index": state["i"], "op": state["op"], "code_before": state["before"]}

    mon.case_info = case_info

    def make_result(chrom):
        res = ExecutionResult()
        n = chrom.size()
        if n and rng.random() < 0.5:
            for _ in range(rng.choice([1, 1, 2])):
                res.report_new_thrown_exception(rng.randrange(n), ValueError("stub"))
        return res

    def fresh():
        mon.stack[:] = ["direct"]
        try:
            t = tcf.get_test_case()
        finally:
            mon.stack.clear()
        if t.size() > L:
            ctx.anomaly("length:initial-individual-beyond-limit")
        c = TestCaseChromosome(t, factory)
        if rng.random() < 0.7:
            c.set_last_execution_result(make_result(c))
        return c

    state["op"] = ["initial-population"]
    pop = [fresh() for _ in range(cfgd["pop"])]
    for c in pop:
        mon.reported = False
        mon.trace = []
        mon.evaluate(c.test_case, "op:initial")
    weights = [w for _, w in OPS]
    names = [n for n, _ in OPS]
    xover = SinglePointRelativeCrossOver()

    def pos_for(tcase, allow_out=True):
        n = tcase.size()
        if allow_out and rng.random() < 0.08:
            return rng.choice([-1, n, n + 3])
        return rng.randrange(n) if n else 0

    for i in range(cfgd["n_ops"]):
        op = names[i % len(names)] if round_robin else rng.choices(names, weights)[0]
        a = rng.randrange(len(pop))
        chrom = pop[a]
        tcase = chrom.test_case
        state.update(i=i, op=[op, a], before=_cheap_code(tcase))
        mon.reported = False
        mon.trace = []
        op_names.append(op)
        extra = []
        res = chrom.get_last_execution_result()
        if res is not None and res.has_test_exceptions():
            extra.append("state:exception-result")
        checked = [chrom]
        try:
            if op == "mutate":
                pre = chrom.size()
                will_chop = cfgd["chop"] and pre >= L
                mon.stack[:] = ["mutate"]
                chrom.mutate()
                if will_chop:
                    extra.append("mutate:chop-at-limit")
            elif op == "crossover-relative":
                b = rng.randrange(len(pop))
                other = pop[b]
                state["op"] = [op, a, b]
                state["before"] = [_cheap_code(tcase), _cheap_code(other.test_case)]
                pa, pb = chrom.size(), other.size()
                ida, idb = chrom.test_case, other.test_case
                mon.stack[:] = ["crossover"]
                xover.cross_over(chrom, other)
                if a != b:
                    mon.crossover(pa, chrom.size(), chrom.test_case, "relative")
                    mon.crossover(pb, other.size(), other.test_case, "relative")
                    for was, now in ((ida, chrom.test_case), (idb, other.test_case)):
                        if pa >= 2 and pb >= 2:
                            ctx.cls("crossover:accepted" if was is not now else "crossover:rejected-too-long")
                checked = [chrom, other]
            elif op == "crossover-positional":
                b = rng.randrange(len(pop))
                other = pop[b].clone()
                p1 = rng.randint(0, chrom.size())
                p2 = rng.randint(0, other.size())
                if rng.random() < 0.8 and chrom.size() >= 2 and other.size() >= 2:
                    p1 = rng.randint(1, chrom.size() - 1)
                    p2 = rng.randint(1, other.size() - 1)
                state["op"] = [op, a, b, p1, p2]
                state["before"] = [_cheap_code(tcase), _cheap_code(other.test_case)]
                pa = chrom.size()
                mon.stack[:] = ["crossover"]
                chrom.cross_over(other, p1, p2)
                mon.crossover(pa, chrom.size(), chrom.test_case, "positional")
            elif op.startswith("factory."):
                meth = op.split(".", 1)[1]
                mon.stack[:] = ["direct"]
                if meth == "insert_random_statement":
                    p = pos_for(tcase)
                    state["op"] = [op, a, p]
                    pre = tcase.size()
                    factory.insert_random_statement(tcase, p)
                    if tcase.size() > L and tcase.size() > pre:
                        ctx.anomaly("length:harness-issued-insertion-beyond-limit")
                elif meth == "append_generic_accessible":
                    k = rng.randrange(len(accessibles))
                    state["op"] = [op, a, k]
                    factory.append_generic_accessible(tcase, accessibles[k])
                else:
                    p = pos_for(tcase)
                    if meth == "change_random_field_call" and rng.random() < 0.8:
                        fpos = [j for j, s in enumerate(tcase.statements()) if type(s.accessible).__name__ == "GenericField"]
                        if fpos:
                            p = rng.choice(fpos)
                    state["op"] = [op, a, p]
                    getattr(factory, meth)(tcase, p)
                chrom.changed = True
            elif op == "chop":
                if rng.random() < 0.6:
                    p = chrom.get_last_mutatable_statement()
                    p = -1 if p is None else p
                else:
                    p = rng.randint(-1, max(tcase.size() - 1, 0))
                state["op"] = [op, a, p]
                tcase.chop(p)
            elif op == "remove_unused_variables":
                tcase.remove_unused_variables()
            elif op == "remove_statement_with_forward_dependencies":
                if tcase.size():
                    p = rng.randrange(tcase.size())
                    state["op"] = [op, a, p]
                    tcase.remove_statement_with_forward_dependencies(p)
            elif op == "append_test_case_from":
                b = rng.randrange(len(pop))
                other = pop[b].test_case.clone()
                start = 0 if rng.random() < 0.4 else rng.randint(0, other.size())
                state["op"] = [op, a, b, start]
                state["before"] = [_cheap_code(tcase), _cheap_code(other)]
                if start == 0:
                    tcase.append_test_case(other)
                else:
                    tcase.append_test_case_from(other, start)
            elif op == "clone":
                cl = chrom.clone()
                if cl.test_case.to_module().code != tcase.to_module().code:
                    ctx.witness("clone:code-differs", "clone renders different code", case_info())
                pop[a] = cl
                checked = [cl]
            elif op == "local_search":
                if chrom.get_last_execution_result() is None:
                    chrom.set_last_execution_result(make_result(chrom))
                timer = StubTimer(rng.randint(5, 300))
                objective = StubObjective(rng, rng.choice([0.0, 0.3, 0.6]), make_result)
                mon.stack[:] = ["local_search"]
                pre = chrom.size()
                lsmod.TestCaseLocalSearch(None, None, timer).local_search(chrom, factory, objective)
                if chrom.size() > L and chrom.size() > pre:
                    ctx.anomaly("length:local-search-grew-beyond-limit")
            elif op == "new-individual":
                pop[a] = fresh()
                checked = [pop[a]]
            elif op == "set-result":
                if rng.random() < 0.2:
                    chrom.remove_last_execution_result()
                else:
                    chrom.set_last_execution_result(make_result(chrom))
                checked = []
        except Exception as e:  # noqa: BLE001 - totality is not part of the statement
            import traceback

            tb = traceback.extract_tb(e.__traceback__)
            inner = next((f for f in reversed(tb) if "/pynguin/" in f.filename), None)
            if inner is None:
                raise
            where = f"{inner.filename.rsplit('/', 1)[-1]}:{inner.name}"
            ctx.anomaly(f"raised:{op}:{type(e).__name__}@{where}")
            if len(ctx.extra.get("raised_examples", [])) < 6:
                ctx.extra.setdefault("raised_examples", []).append(
                    {"op": state["op"], "exc": repr(e)[:200], "where": where, "before": state["before"], "cfg": cfgd, "history_seed": hist_seed})
            mon.stack.clear()
            pop[a] = fresh()
            continue
        finally:
            mon.stack.clear()
        for c in checked:
            mon.evaluate(c.test_case, f"op:{op}", extra)
        ctx.cls(f"len:L={L}")
        if mon.reported:
            # quarantine: a malformed individual is replaced so that later operations are not blamed for it
            for j, member in enumerate(pop):
                if any(member is c for c in checked):
                    pop[j] = fresh()
            continue
        # keep the population alive
        if pop[a].size() == 0 and rng.random() < 0.7:
            pop[a] = fresh()
    ctx.ok(0, distinct={"sut": cfgd["sut"], "cfg": [cfgd[k] for k in ("L", "chop", "fields", "pop")], "ops": op_names})
    if len(ctx.samples) < 2 and pop:
        big = max(pop, key=lambda c: c.size())
        ctx.sample({"sut": cfgd["sut"], "L": L, "n_ops": cfgd["n_ops"], "history_seed": hist_seed,
                    "final_sizes": [c.size() for c in pop], "largest_final_test": _safe_code(big.test_case)[:900]})


def run_chunk(spec, ctx):
    import pynguin.configuration as config

    world = World(ctx)
    checker = Checker(lambda: _alias(config))
    mon = Monitor(ctx, checker)
    mon.install()
    try:
        if spec["name"] == "directed":
            # every operation class, every SUT, every length -- independent of the seed
            k = 0
            for sut in SUTS:
                for L in LENGTHS:
                    if spec.get("sut") not in (None, sut):
                        k += spec["histories"]
                        continue
                    for rep in range(spec["histories"]):
                        k += 1
                        run_history(ctx, world, mon, 15_000_000 + k,
                                    forced_cfg={"sut": sut, "L": L, "n_ops": 190, "fields": True, "chop": rep % 2 == 0,
                                                "pop": 6, "p3": [1 / 3, 1 / 3, 1 / 3] if rep % 2 else [0.9, 0.9, 0.4]},
                                    round_robin=(rep % 2 == 0))
        else:
            base = spec["seed"] * 1_000_003 + spec["part"] * 10_007 + 15
            for h in range(spec["histories"]):
                run_history(ctx, world, mon, base * 1000 + h)
    finally:
        mon.uninstall()
    if mon.hook_calls == 0:
        ctx.inconclusive_because("factory hook wrappers saw no call (monitor not installed on the running code)")


def _alias(config):
    from pynguin.utils.naming import get_module_alias  # noqa: PLC0415

    return get_module_alias(config.configuration.module_name)


def replay(w, ctx):
    """Re-run the history of a witness up to its end (deterministic under PYTHONHASHSEED=0)."""
    import pynguin.configuration as config

    case = w.get("case") or {}
    world = World(ctx)
    mon = Monitor(ctx, Checker(lambda: _alias(config)))
    mon.install()
    try:
        cfg = dict(case.get("cfg") or {})
        run_history(ctx, world, mon, case["history_seed"], forced_cfg=cfg)
    finally:
        mon.uninstall()
