"""C16 - the same seed and budget reproduce the same test suite, whatever PYTHONHASHSEED is.

Shape: differential execution + diagnosis monitor.  A case is one pipeline configuration (corpus module, algorithm, seed,
iteration- or execution-bounded budget, assertion generation); it is run 2-3 times, each time in a fresh interpreter
(vlib.pyndriver.run_pipeline) with a different PYTHONHASHSEED (0, 1, 2, 123, "random"; a few pairs with the SAME hash seed
to expose plain races).  Oracle: byte comparison of the exported test files of run 0 with every other run.

Diagnosis (vlib/monitors/rngtap.py): randomness.RNG is replaced by a logging subclass instance (every random() /
getrandbits() draw with its pynguin call stack) and TestCaseExecutor.execute is wrapped (draw index at entry, size, timeout
flag, hash of the test's code, hash of the trace/exceptions the search sees).  The first difference of the two logs names the
mechanism and that is what the witness key is made of:
  diverges-at:<file>:<function>              first diverging draw (call stack differs or another number of bits is requested)
  timing:timeout-flag-differs:<empty|nonempty>-test   the same test, entered after identical draws, timed out in one run only
  exec-result-differs:same-test-code         the same test (no set anywhere in it) produced another trace
  same-draws-different-test:<site>           another test was executed although every draw before was identical
  output-order:<construct>                   logs identical, files differ: construct of the first differing line
Excused (anomaly, not a witness): the same test *building a set* (set literal / set() / containers.uniq) produced another
trace - the iteration order inside the SUT follows the string hash, which is the SUT's behaviour (the precondition
"deterministic module" does not hold for that input).  Files equal but logs different -> anomaly ``latent:<key>``.

Peeling: for a mechanism with a registered candidate repair (PEEL) the pair is re-run with the repair monkeypatched inside the
driver child (VERIF_FIX), cumulatively, to expose the sources hidden behind it; every level reports its own witness.
"""

from __future__ import annotations

import random

ID = "C16"
LEVEL = "exploration"
IN_PROCESS = False
CHUNK_TIMEOUT = 2400
RULE = (
    "pipeline configurations = corpus module (sut_corpus.ALL + EXTRA, deterministic modules) x algorithm {DYNAMOSA, MOSA, MIO, WHOLE_SUITE, RANDOM} x seed x "
    "budget {maximum_iterations n, maximum_test_executions n} x assertion generation {NONE, SIMPLE, MUTATION_ANALYSIS}; directed covering "
    "set (every module x algorithm once, factors rotated, identical for every check seed) first, then configurations drawn from the check "
    "seed; each configuration is run 2-3 times in fresh interpreters with PYTHONHASHSEED from {0,1,2,123,random} (some pairs with equal "
    "hash seeds); oracle = byte equality of the exported test files; diagnosis = first difference of the RNG draw logs (call stacks) and "
    "execution logs; one evaluation = one compared pair of finished runs; distinct = the configuration; pairs that diverge on a mechanism "
    "with a known candidate repair are re-run with the repair monkeypatched (VERIF_FIX) to expose the sources behind it"
)
ASSUMPTIONS = [
    "the corpus modules are deterministic functions of their inputs; a test that builds a set (literal, set(), containers.uniq) and whose "
    "trace differs between hash seeds is attributed to the SUT's own iteration order and excused (anomaly sut-hash-order), the pair is then "
    "not judged further - except for the modules of sut_corpus.NO_ARGUMENT_ITERATION, whose functions never iterate over an argument",
    "the RNG tap overrides random() and getrandbits() of a subclass of pynguin's Random: the draw sequence is the one of the base class",
    "budgets are iteration- or execution-bounded (maximum_search_time disabled); executor timeouts (wall-clock) that differ between two runs "
    "are reported under their own mechanism timing:*, they are a property violation (same seed, different files) but not a hash-order one",
    "a run that dies or hits the driver timeout makes its pair inconclusive, never a violation",
    "candidate repairs used for peeling are monkeypatches inside the driver child; /repo is never modified",
]

ALGOS = ["DYNAMOSA", "MOSA", "MIO", "WHOLE_SUITE", "RANDOM"]
AGS = ["NONE", "SIMPLE", "MUTATION_ANALYSIS"]
HASHSEEDS = ["0", "1", "2", "123", "random"]

# Every budget of the run must be free of the wall clock: DYNAMOSA's local search has its own time budget (5 s by default,
# LocalSearchTimer) and the executor's per-test timeout is 1 s per statement; under machine load both fire at different
# points in two otherwise identical runs.  The corpus has no long-running code, so generous limits change nothing else.
NO_WALL_CLOCK = {
    "local_search.local_search_time": 100_000_000,
    "stopping.maximum_test_execution_timeout": 60,
    "stopping.test_execution_time_per_statement": 15,
}

# mechanism key -> candidate repair (vlib.monitors.rngtap.FIXES) that removes it, so that the next source becomes visible
# Both divergence sources this machinery was built to peel away (9de9373 hash-ordered crossover, ebca6ec empty-test race) are
# repaired in the tree now, so no key has a candidate repair any more.  What remains of the peeling loop is ONE re-run of the same
# pair without any change ("reproduce"): a divergence is reported only if the pair diverges again; one that does not reproduce
# (wall-clock effects of a loaded machine, e.g. in the assertion-filtering subprocess executor) is an anomaly.
PEEL: dict = {}
FIX_ORDER = ["reproduce"]
KEY_OF_FIX: dict = {}


def floors(tier):
    if tier == "quick":
        cl = {f"algo:{a}": 4 for a in ALGOS}
        cl.update({"ag:NONE": 8, "ag:SIMPLE": 6, "ag:MUTATION_ANALYSIS": 3, "budget:iterations": 8, "budget:executions": 8,
                   "hashseed:random": 4, "pair:same-hashseed": 3, "pair:different-hashseed": 24,
                   "render:values-rendered-under-several-hash-seeds": 60})
        return {"evals": 30, "distinct": 24, "classes": cl}
    k = 4
    cl = {f"algo:{a}": 6 * k for a in ALGOS}
    cl.update({"ag:NONE": 12 * k, "ag:SIMPLE": 8 * k, "ag:MUTATION_ANALYSIS": 3 * k})
    cl.update({"budget:iterations": 12 * k, "budget:executions": 12 * k, "hashseed:random": 5 * k, "pair:same-hashseed": 3,
               "pair:different-hashseed": 30 * k, "render:values-rendered-under-several-hash-seeds": 60})
    return {"evals": 40 * k, "distinct": 30 * k, "classes": cl}


def _budget(kind, algo, step):
    if kind == "iterations":
        return {"maximum_iterations": [3, 4, 5, 4][step % 4] if algo not in ("MIO", "RANDOM") else [25, 40, 50, 30][step % 4]}
    return {"maximum_test_executions": [90, 130, 110][step % 3] if algo not in ("MIO", "RANDOM") else [30, 50, 40][step % 3]}


def _suts():
    from vlib import sut_corpus

    return list(sut_corpus.ALL) + list(getattr(sut_corpus, "EXTRA", []))


# assertion generation per directed case: MUTATION_ANALYSIS is by far the most expensive (mutants x tests in subprocesses)
_AG_ROTATION = ["NONE", "SIMPLE", "NONE", "MUTATION_ANALYSIS", "SIMPLE", "NONE", "SIMPLE", "NONE", "MUTATION_ANALYSIS", "NONE", "SIMPLE"]


def _directed_cases():
    cases = []
    i = 0
    for si, sut in enumerate(_suts()):
        for ai, algo in enumerate(ALGOS):
            kind = "iterations" if (si + ai) % 2 == 0 else "executions"
            ag = _AG_ROTATION[i % len(_AG_ROTATION)]
            hs = [HASHSEEDS[(si + ai) % 5], HASHSEEDS[(si + ai + 1 + (i % 3)) % 5]]
            if hs[0] == hs[1]:
                hs[1] = HASHSEEDS[(HASHSEEDS.index(hs[1]) + 1) % 5]
            if i % 11 == 4:
                hs.append(HASHSEEDS[(si + ai + 3) % 5])
            cases.append({"sut": sut, "algo": algo, "seed": 11 + (i % 2) * 31, "budget": _budget(kind, algo, i), "ag": ag, "hashseeds": hs})
            i += 1
    # membership tests against a large frozenset of strings: the branch distance of `x in S` is a minimum over all elements of S,
    # whose iteration order follows the hash seed; longer searches so that a distance that depends on that order reaches the files
    cases.append({"sut": "vocab", "algo": "DYNAMOSA", "seed": 7, "budget": {"maximum_iterations": 5}, "ag": "NONE", "hashseeds": ["1", "2", "3"]})
    cases.append({"sut": "vocab", "algo": "WHOLE_SUITE", "seed": 7, "budget": {"maximum_iterations": 10}, "ag": "NONE", "hashseeds": ["1", "2"]})
    cases.append({"sut": "vocab", "algo": "DYNAMOSA", "seed": 7, "budget": {"maximum_iterations": 20}, "ag": "SIMPLE", "hashseeds": ["2", "3"]})
    # plain races: the very same environment twice
    for j, (sut, algo) in enumerate([("tri", "RANDOM"), ("queue_", "WHOLE_SUITE"), ("account", "DYNAMOSA"), ("strings", "MIO")]):
        cases.append({"sut": sut, "algo": algo, "seed": 5 + j, "budget": _budget("iterations", algo, j), "ag": "NONE", "hashseeds": ["0", "0"]})
    return cases


def _random_case(rng):
    algo = rng.choice(ALGOS)
    hs = rng.sample(HASHSEEDS, 3 if rng.random() < 0.15 else 2)
    if rng.random() < 0.08:
        hs = [hs[0], hs[0]] if hs[0] != "random" else ["1", "1"]
    return {"sut": rng.choice(_suts()), "algo": algo, "seed": rng.randrange(1, 100_000),
            "budget": _budget(rng.choice(["iterations", "executions"]), algo, rng.randrange(12)),
            "ag": rng.choice(["NONE", "NONE", "SIMPLE", "SIMPLE", "MUTATION_ANALYSIS"]), "hashseeds": hs}


def plan(tier, seed):
    quick = tier == "quick"
    directed = _directed_cases()
    if quick:
        # two thirds of the module x algorithm grid (every module and every algorithm still occurs) + the same-hash-seed pairs
        directed = [c for i, c in enumerate(directed) if i % 3 != 2 or c["hashseeds"][0] == c["hashseeds"][1] or (c["sut"] == "vocab" and c["seed"] == 7)]
    rng = random.Random(seed * 1_000_003 + 16)
    rand = [_random_case(rng) for _ in range(4 if quick else 240)]
    # interleave so that every chunk gets a mix of cheap and expensive (MUTATION_ANALYSIS) cases
    n_chunks = 32 if quick else 96
    cases = directed + rand
    # in the quick tier only a few diverging pairs per chunk are peeled (each level costs a full re-run of the pair)
    # diagnosis aid: C16_ASSUME_FIXES=<repair,...> runs the whole workload with these candidate repairs monkeypatched from the
    # start ("is anything left once the known sources are repaired?"); never set in a normal run
    import os

    assume = [f for f in os.environ.get("C16_ASSUME_FIXES", "").split(",") if f]
    return [{"name": "render"}] + [{"name": "directed+random", "cases": cases[i::n_chunks], "max_peeled_cases": (1 if i % 2 == 0 else 0) if quick else 2,
             "assume_fixes": assume} for i in range(n_chunks)]


def _spec(ctx, case, proj, tag):
    return {"module": case["sut"], "project_path": str(proj), "output_path": str(ctx.scratch / f"out_{tag}"), "algorithm": case["algo"],
            "seed": case["seed"], "budget": case["budget"], "assertion_generation": case["ag"], "monitors": ["vlib.monitors.rngtap"],
            "config": dict(NO_WALL_CLOCK)}


def _run(ctx, case, proj, tag, hashseed, fixes, breaks):
    from vlib.monitors import rngtap
    from vlib.pyndriver import run_pipeline

    env = {"PYTHONHASHSEED": hashseed}
    if fixes:
        env["VERIF_FIX"] = ",".join(fixes)
    if breaks:
        env["VERIF_BREAK"] = breaks
    res = run_pipeline(_spec(ctx, case, proj, tag), timeout=600, env_extra=env)
    why = None
    if res.get("timeout"):
        why = "driver timeout"
    elif res.get("exception") or res.get("rc") is None:
        why = f"run failed: {res.get('exception')} {res.get('stderr_tail', '')[-200:]}"
    elif rngtap.tap_of(res) is None or rngtap.calls_of(res) is None:
        why = f"no tap log (rc {res.get('rc')})"
    elif rngtap.calls_of(res)["calls"] == 0 or not rngtap.calls_of(res)["still_installed"]:
        why = f"the RNG tap saw no draw or was replaced: {rngtap.calls_of(res)}"
    elif rngtap.calls_of(res)["truncated"]:
        why = "draw log truncated"
    elif not rngtap.test_files(res):
        why = f"no test file exported (rc {res.get('rc')})"
    return res, why


def run_case(ctx, case, idx, proj, breaks=None, peel_budget=None, assume_fixes=()):
    """peel_budget: one-element list holding the number of cases of this chunk that may still be peeled (None = no cap).

    Level 0 is the judged comparison.  Further levels re-run the case with candidate repairs monkeypatched (cumulative):
      * a divergence keyed by a mechanism with a known repair: that repair is applied next (exposes what hides behind it);
      * a divergence of an unrecognised mechanism (typically ``same-draws-different-test:*``: the first visible effect is far
        from its cause) is held back as *pending* and the known repairs are applied one by one: if it disappears with a
        repair it is attributed to that repair's mechanism (attribution by intervention), if it survives all of them it is
        reported under its own key - a new source.  If several repairs were needed before the case became clean the key is
        ``explained-by-known-sources:<repair>+<repair>``.
    """
    from vlib import sut_corpus
    from vlib.monitors import rngtap

    tag0 = f"{case['sut']}:{case['algo']}:seed={case['seed']}:{case['budget']}:{case['ag']}"
    # "random" = an arbitrary 32-bit hash seed; drawn here (from the check seed and the case) instead of by the interpreter so
    # that a witness can be replayed
    from vlib import core

    hrng = random.Random(int(core.stable_hash([case, ctx.seed]), 16))
    labels = list(case["hashseeds"])
    hss = [str(hrng.randrange(1000, 4294967295)) if h == "random" else h for h in labels]
    case = dict(case, hashseeds=hss, hashseed_labels=labels)
    reexamination_incomplete = False
    fixes: list[str] = list(assume_fixes)
    seen_keys: list[str] = []
    pending: list[tuple] = []   # (key, desc, case-dict) of unrecognised mechanisms not yet attributed

    def emit(key, desc, wcase):
        if key not in seen_keys:
            seen_keys.append(key)
            ctx.witness(key, desc, wcase)

    for level in range(len(FIX_ORDER) + 1):
        runs = []
        for j, hs in enumerate(hss):
            res, why = _run(ctx, case, proj, f"{idx}_{level}_{j}", hs, fixes, breaks)
            if why:
                ctx.inconclusive_because(f"{tag0} hashseed={hs} fixes={fixes}: {why}")
            runs.append(None if why else res)
        if runs[0] is None:
            reexamination_incomplete = level > 0
            break
        next_fix = None
        diverging = 0
        unjudged = 0
        for j in range(1, len(runs)):
            if runs[j] is None:
                unjudged += 1
                continue
            dg = rngtap.diagnose(runs[0], runs[j])
            pair = [hss[0], hss[j]]
            if dg["kind"] == "timing" and dg["key"].endswith(":nonempty-test"):
                # a non-empty test ran into a wall-clock timeout in one run only: machine load, not a verdict
                ctx.anomaly("timing:wall-clock-timeout-of-nonempty-test-in-one-run-only")
                ctx.count("pairs_not_judged_because_of_load")
                unjudged += 1
                continue
            if level == 0:
                cls = [f"algo:{case['algo']}", f"ag:{case['ag']}", "budget:iterations" if "maximum_iterations" in case["budget"] else "budget:executions",
                       "pair:same-hashseed" if pair[0] == pair[1] else "pair:different-hashseed"]
                if "random" in (labels[0], labels[j]):
                    cls.append("hashseed:random")
                cls.append(f"outcome:{dg['kind']}" if dg["kind"] in ("same", "sut-hash-order") or dg["files_same"] else "outcome:files-differ")
                ctx.ok(cls=cls, distinct={k: case[k] for k in ("sut", "algo", "seed", "budget", "ag")})
                ctx.count("draws_compared", len(rngtap.tap_of(runs[0])["draws"]))
                ctx.count("executions_compared", len(rngtap.tap_of(runs[0])["execs"]))
                if len(ctx.samples) < 2:
                    ctx.sample({"case": case, "pair": pair, "diagnosis": {k: dg[k] for k in ("kind", "key", "files_same")},
                                "draws": len(rngtap.tap_of(runs[0])["draws"]), "wall_s": runs[0].get("wall_s")})
            else:
                ctx.cls("peeled-pair")
            if dg["kind"] == "same":
                continue
            if dg["kind"] == "sut-hash-order" and case["sut"] in sut_corpus.NO_ARGUMENT_ITERATION:
                # this module never iterates over an argument: the differing result of the same test is not the SUT's doing
                dg = dict(dg, kind="exec-result", key="exec-result-differs:same-test-code")
            if dg["kind"] == "sut-hash-order":
                ctx.anomaly("sut-hash-order:test-builds-a-set")
                unjudged += 1
                continue
            key = dg["key"]
            diverging += 1
            if dg["files_same"]:
                if key in PEEL or level > 0:
                    ctx.anomaly(f"latent:{key}")
                elif key not in [p[0] for p in pending]:
                    # unrecognised mechanism without visible effect on the files: attributed like a visible one, reported as anomaly
                    pending.append((key, None, None))
            else:
                fo = rngtap.first_output_difference(rngtap.test_files(runs[0]), rngtap.test_files(runs[j]))
                detail = {k: v for k, v in dg.items() if k not in ("exec_detail",)}
                desc = (f"{tag0}: PYTHONHASHSEED {pair[0]} vs {pair[1]} export different test files"
                        + (f" (with candidate repairs {fixes} applied)" if fixes else "") + f"; mechanism {key}; first differing line "
                        f"{fo and fo['lineno']}: {fo and fo['line_a']!r} vs {fo and fo['line_b']!r}")
                wcase = {"case": case, "pair": pair, "fixes_applied": list(fixes), "diagnosis": detail}
                if key in PEEL:
                    emit(key, desc, wcase)
                elif key not in [p[0] for p in pending]:
                    pending.append((key, desc, wcase))
            if key in PEEL and PEEL[key] not in fixes and next_fix is None:
                next_fix = PEEL[key]
        if diverging == 0:
            if pending and fixes and unjudged == 0:
                # the held-back divergence is gone with the repairs applied so far.  One repair: its mechanism.  Several (another
                # known divergence showed up first at an intermediate level and may have masked it): no single culprit can be
                # named without more runs, so the key names the set of known sources that explains it.
                if fixes == ["reproduce"]:
                    for key, desc, wcase in pending:
                        ctx.anomaly(f"divergence-not-reproduced:{key}")
                        ctx.count("divergences_not_reproduced_on_rerun")
                        ctx.extra.setdefault("not_reproduced", []).append({"key": key, "desc": (desc or "")[:300]})
                    pending = []
                    break
                if len(fixes) == 1:
                    attributed = KEY_OF_FIX[fixes[0]]
                else:
                    attributed = "explained-by-known-sources:" + "+".join(sorted(fixes))
                for key, desc, wcase in pending:
                    if desc is None:
                        ctx.anomaly(f"latent:{attributed}")
                        ctx.count("latent_divergences_attributed_by_intervention")
                        continue
                    wcase = dict(wcase, observed_as=key, disappears_with=list(fixes))
                    emit(attributed, desc + f"; observed as {key}, gone when candidate repair(s) {fixes} are applied", wcase)
                pending = []
            elif pending:
                reexamination_incomplete = True   # the re-run could not be judged (load / excused / failed run)
            break
        if next_fix is None and pending:
            next_fix = next((f for f in FIX_ORDER if f not in fixes), None)
        if next_fix is None:
            break
        if peel_budget is not None and level == 0 and not pending:
            if peel_budget[0] <= 0:
                ctx.count("pairs_not_peeled_for_cost")
                break
            peel_budget[0] -= 1
        fixes.append(next_fix)
    # whatever is still pending survived every candidate repair (or could not be re-examined): its own mechanism
    for key, desc, wcase in pending:
        if reexamination_incomplete:
            # neither attributed to a known source nor shown to survive the repairs: no verdict on this mechanism
            ctx.anomaly(f"unattributed-reexamination-incomplete:{key}")
            if desc is not None:
                ctx.inconclusive_because(f"{tag0}: files differ ({key}) but the re-run with candidate repairs {fixes} could not be judged")
        elif desc is None:
            ctx.anomaly(f"latent-unattributed:{key}")
        else:
            emit(key, desc, wcase)


RENDER_SCRIPT = r"""
import json, sys
import libcst as cst
from pynguin.assertion.assertion import ObjectAssertion
from pynguin.assertion.assertion_to_ast import assertion_to_cst
from pynguin.testcase.literalgen import literal_to_cst

VALUES = [
    {"alpha", "beta", "gamma", "delta"}, {"x", "y"}, {b"raw", b"bytes", b"more"}, {("a", 1), ("b", 2), ("c", 3)},
    [{"p", "q", "r"}, {"s", "t"}], ({"k1", "k2", "k3"},), {"outer": {"i1", "i2", "i3", "i4"}}, {1, "one", "uno", b"1"},
    {"only"}, set(), {"a", "b", "c", "d", "e", "f", "g", "h", "i", "j", "k", "l"},
]
out = []
for v in VALUES:
    lit = cst.Module(body=[cst.SimpleStatementLine(body=[cst.Expr(literal_to_cst(v))])]).code.strip()
    try:
        asr = cst.Module(body=[assertion_to_cst(ObjectAssertion("var_0", v))]).code.strip()
    except Exception as e:
        asr = "<%s>" % type(e).__name__
    out.append([lit, asr])
json.dump(out, sys.stdout)
"""


def _render_chunk(ctx):
    """The same values rendered by the real literal / assertion renderers in interpreters with different PYTHONHASHSEED: the
    written bytes must not depend on the hash seed (a set of strings iterates in hash order)."""
    import json
    import os
    import subprocess
    import sys

    outs = {}
    for hs in ("1", "2", "3", "123"):
        env = dict(os.environ, PYTHONHASHSEED=hs)
        try:
            cp = subprocess.run([sys.executable, "-c", RENDER_SCRIPT], capture_output=True, text=True, timeout=300, env=env, cwd=str(ctx.scratch))
        except subprocess.TimeoutExpired:
            ctx.inconclusive_because(f"render under PYTHONHASHSEED={hs}: timeout")
            return
        if cp.returncode != 0:
            ctx.inconclusive_because(f"render under PYTHONHASHSEED={hs} failed: {cp.stderr[-300:]}")
            return
        outs[hs] = json.loads(cp.stdout)
    base = outs["1"]
    for hs, rendered in outs.items():
        for i, (a, b) in enumerate(zip(base, rendered)):
            for which, x, y in (("literal_to_cst", a[0], b[0]), ("assertion_to_cst", a[1], b[1])):
                ctx.ok(cls=["render:values-rendered-under-several-hash-seeds"], distinct=f"render|{which}|{i}|{hs}" if hs != "1" else None)
                if x != y:
                    ctx.witness(f"render:set-order-follows-hash-seed:{which}",
                                f"value #{i} renders as `{x[:120]}` under PYTHONHASHSEED=1 and as `{y[:120]}` under PYTHONHASHSEED={hs}",
                                {"value_index": i, "hashseeds": ["1", hs], "renderer": which, "a": x, "b": y})


def run_chunk(spec, ctx):
    from vlib import sut_corpus

    if spec["name"] == "render":
        _render_chunk(ctx)
        return
    proj = sut_corpus.copy_to(ctx.scratch / "proj", _suts())
    peel_budget = [spec["max_peeled_cases"]] if spec.get("max_peeled_cases") is not None else None
    for i, case in enumerate(spec["cases"]):
        run_case(ctx, case, i, proj, breaks=spec.get("seeded_break"), peel_budget=peel_budget, assume_fixes=spec.get("assume_fixes") or ())
    import resource

    ru = resource.getrusage(resource.RUSAGE_CHILDREN)
    ctx.count("cpu_s_children", round(ru.ru_utime + ru.ru_stime, 1))


def replay(w, ctx):
    """Re-runs the configuration of a witness (same hash seeds); the race/hash-order mechanisms are re-diagnosed."""
    from vlib import sut_corpus

    proj = sut_corpus.copy_to(ctx.scratch / "proj", _suts())
    run_case(ctx, w["case"]["case"], 0, proj)
