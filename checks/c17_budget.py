"""C17 - the search stops as soon as a configured budget is exhausted (at iteration boundaries).

Shape: event log + offline checker.  Every case is one complete Pynguin run in a fresh interpreter
(vlib.pyndriver.run_pipeline) with the monitor vlib/monitors/budget.py installed.  The monitor wraps
GenerationAlgorithm.resources_left / before_search_start / after_search_iteration / after_search_finish, the evolve
method of every algorithm class that has one, TestCaseExecutor.execute and TestCaseExecutor._before_statement_execution
and keeps its OWN counters (completed iterations, executions counted at entry of execute, statements whose execution
began in tests that did not time out); no counter is read from a stopping-condition object.

Offline rules (vlib.monitors.budget.check_log):
  * an iteration (evolve-start, or a loop body ending in after_search_iteration for the algorithms without evolve) whose
    BOUNDARY snapshot - the last resources_left() call since the previous iteration ended, or the end of the previous
    iteration when the loop did not ask - already meets a configured limit is a witness
    ``iteration-started-after:<limit>:<ALGORITHM>[:no-check-at-boundary]``;
  * more completed iterations than maximum_iterations is a witness ``completed-iterations-exceed:max_iterations:<ALGORITHM>``.
A budget that is crossed *inside* an iteration (DYNAMOSA started its only iteration at 10 executions with a budget of 20 and
finished it at 67) is allowed: the statement is about iteration boundaries.
"""

from __future__ import annotations

import random

ID = "C17"
LEVEL = "exploration"
IN_PROCESS = False
CHUNK_TIMEOUT = 1500
RULE = (
    "complete Pynguin runs (fresh interpreter each) of every algorithm of pynguin.configuration.Algorithm that needs no LLM "
    "(DYNAMOSA, MOSA, MIO, WHOLE_SUITE, RANDOM, RANDOM_TEST_SUITE_SEARCH, RANDOM_TEST_CASE_SEARCH) on 3 corpus modules with budgets "
    "maximum_iterations 1..10, maximum_test_executions 1..200, maximum_statement_executions 1..500 and pairs of them; directed grid "
    "(algorithm x budget kind x module, fixed values, identical for every seed) first, then budgets/seeds/population sizes drawn from the "
    "check seed; monitor = wrappers on resources_left / evolve / after_search_iteration / execute / _before_statement_execution "
    "with its own counters; oracle = offline replay of the event log: no iteration may start when the counters at the iteration "
    "boundary already meet a configured limit, completed iterations <= maximum_iterations; a run is non-trivial (distinct) when the "
    "search was ended by a monitored limit (resources_left() returned False with the limit met on the monitor's counters)"
)
ASSUMPTIONS = [
    "iteration boundary = the resources_left() call of the algorithm's loop (or the end of the previous iteration if the loop does not "
    "ask); executions that a lazily evaluated loop condition (suite.get_fitness()) performs after resources_left() returned True are "
    "attributed to the iteration (anomaly budget-crossed-between-check-and-iteration-start, not a violation)",
    "executions are counted at entry of TestCaseExecutor.execute and statements per _before_statement_execution that returned, added "
    "when the test returns and only for tests that did not time out - the quantities the conditions are documented to count, measured "
    "from outside; counters are zeroed when GenerationAlgorithm.before_search_start returns, as the conditions do",
    "resources_left() returning True with a met limit but no iteration following (all goals covered) is recorded as an anomaly only",
    "LLM-based algorithms (LLM, LLMOSA) are out of scope (no model available); the default in-process executor is used",
    "a run that dies, times out in the driver, or whose monitor saw no resources_left/execute call is inconclusive, never a violation",
]

ALGOS_EVOLVE = ["DYNAMOSA", "MOSA", "MIO", "WHOLE_SUITE"]
ALGOS_LOOP = ["RANDOM", "RANDOM_TEST_SUITE_SEARCH", "RANDOM_TEST_CASE_SEARCH"]
ALGOS = ALGOS_EVOLVE + ALGOS_LOOP
SUTS = ["tri", "queue_", "lastcall"]
KINDS = {"maximum_iterations": "iters", "maximum_test_executions": "execs", "maximum_statement_executions": "stmts"}


def floors(tier):
    k = 1 if tier == "quick" else 6
    cl = {f"run:{a}": 6 * k for a in ALGOS}
    cl.update({f"budget:{v}": 15 * k for v in KINDS.values()})
    cl.update({"budget:pair": 6 * k, "stopped-by:maximum_iterations": 8 * k, "stopped-by:maximum_test_executions": 8 * k,
               "stopped-by:maximum_statement_executions": 8 * k, "iteration-boundary-checked": 150 * k,
               "crossed-within-iteration": 3 * k, "run:with-timed-out-executions": 3})
    for a in ALGOS:
        cl[f"bound:{a}"] = 3 * k
    return {"evals": 60 * k, "distinct": 40 * k, "classes": cl}


def _directed_runs():
    """Algorithm x budget kind x module with fixed values: the same for every seed."""
    runs = []
    i = 0
    for ai, algo in enumerate(ALGOS):
        for ki, kind in enumerate(KINDS):
            sut = SUTS[(ai + ki) % len(SUTS)]
            if kind == "maximum_iterations":
                val = [1, 3, 6, 10, 2, 5, 8][ai]
            elif kind == "maximum_test_executions":
                # MIO / random searches execute ~1 test per iteration, the population based ones 10-60 per iteration
                val = [90, 120, 12, 150, 9, 25, 14][ai]
            else:
                val = [400, 330, 60, 500, 40, 120, 70][ai]
            runs.append({"algo": algo, "sut": sut, "seed": 100 + i, "budget": {kind: val}})
            i += 1
    # pairs of limits, one of each combination, and the smallest budgets
    pairs = [
        ("DYNAMOSA", {"maximum_iterations": 4, "maximum_test_executions": 200}),
        ("MOSA", {"maximum_iterations": 9, "maximum_test_executions": 100}),
        ("MIO", {"maximum_iterations": 10, "maximum_statement_executions": 45}),
        ("WHOLE_SUITE", {"maximum_test_executions": 180, "maximum_statement_executions": 480}),
        ("RANDOM", {"maximum_iterations": 8, "maximum_statement_executions": 30}),
        ("RANDOM_TEST_SUITE_SEARCH", {"maximum_iterations": 3, "maximum_test_executions": 40}),
        ("RANDOM_TEST_CASE_SEARCH", {"maximum_test_executions": 11, "maximum_statement_executions": 90}),
        ("MIO", {"maximum_test_executions": 1}),
        ("RANDOM", {"maximum_test_executions": 1}),
        ("DYNAMOSA", {"maximum_statement_executions": 1}),
        ("RANDOM_TEST_CASE_SEARCH", {"maximum_iterations": 1}),
        ("MIO", {"maximum_test_executions": 17, "maximum_iterations": 10}),
    ]
    for j, (algo, budget) in enumerate(pairs):
        runs.append({"algo": algo, "sut": SUTS[j % len(SUTS)], "seed": 200 + j, "budget": budget})
    # executions that run into the per-test timeout (the SUT blocks): they count against the execution budget like any other
    short = {"stopping.maximum_test_execution_timeout": 1, "stopping.test_execution_time_per_statement": 1}
    for j, (algo, budget) in enumerate([
        ("DYNAMOSA", {"maximum_test_executions": 14}), ("MIO", {"maximum_test_executions": 9}), ("RANDOM", {"maximum_test_executions": 7}),
        ("WHOLE_SUITE", {"maximum_test_executions": 16}), ("MOSA", {"maximum_test_executions": 12, "maximum_iterations": 6}),
        ("RANDOM_TEST_CASE_SEARCH", {"maximum_test_executions": 8}),
    ]):
        runs.append({"algo": algo, "sut": "sleepy", "seed": 300 + j, "budget": budget, "population": 4, "config": short})
    return runs


def _random_run(rng):
    algo = rng.choice(ALGOS)
    cheap = algo in ("MIO", "RANDOM", "RANDOM_TEST_CASE_SEARCH")  # about one execution per iteration

    def value(kind):
        if kind == "maximum_iterations":
            return rng.randint(1, 10)
        if kind == "maximum_test_executions":
            return rng.randint(1, 30) if cheap else rng.choice([rng.randint(1, 60), rng.randint(60, 200)])
        return rng.randint(1, 120) if cheap else rng.choice([rng.randint(1, 200), rng.randint(200, 500)])

    r = rng.random()
    kinds = list(KINDS)
    if r < 0.6:
        ks = [rng.choice(kinds)]
    else:
        ks = rng.sample(kinds, 2)
    run = {"algo": algo, "sut": rng.choice(SUTS), "seed": rng.randrange(1, 10_000), "budget": {k: value(k) for k in ks}}
    if algo in ("DYNAMOSA", "MOSA", "WHOLE_SUITE") and rng.random() < 0.5:
        run["population"] = rng.choice([4, 10, 20])
    return run


def plan(tier, seed):
    quick = tier == "quick"
    directed = _directed_runs()
    specs = []
    per = 3 if quick else 3
    for i in range(0, len(directed), per):
        specs.append({"name": "directed", "runs": directed[i:i + per]})
    rng = random.Random(seed * 1_000_003 + 17)
    n_random = 48 if quick else 480
    rand = [_random_run(rng) for _ in range(n_random)]
    per = 3 if quick else 10
    for i in range(0, len(rand), per):
        specs.append({"name": "random", "runs": rand[i:i + per]})
    return specs


def run_one(ctx, run, idx, proj, env_extra=None):
    from vlib.monitors import budget
    from vlib.pyndriver import run_pipeline

    spec = {
        "module": run["sut"], "project_path": str(proj), "output_path": str(ctx.scratch / f"out{idx}"),
        "algorithm": run["algo"], "seed": run["seed"], "budget": run["budget"], "assertion_generation": "NONE",
        "monitors": ["vlib.monitors.budget"], "config": {},
    }
    if "population" in run:
        spec["config"]["search_algorithm.population"] = run["population"]
    spec["config"].update(run.get("config") or {})
    tag = f"{run['algo']}:{run['sut']}:seed={run['seed']}:{run['budget']}"
    res = run_pipeline(spec, timeout=420, env_extra=env_extra)
    if res.get("timeout"):
        ctx.inconclusive_because(f"{tag}: driver timeout")
        return None
    if res.get("exception") or res.get("rc") is None:
        ctx.inconclusive_because(f"{tag}: run failed: {res.get('exception')} {res.get('stderr_tail', '')[-200:]}")
        return None
    bl, calls = budget.budget_log_of(res), budget.calls_of(res)
    if bl is None or calls is None:
        ctx.inconclusive_because(f"{tag}: no budget log in the driver output (rc {res.get('rc')})")
        return None
    if calls["resources_left"] == 0 or calls["before_search_start"] == 0:
        ctx.inconclusive_because(f"{tag}: the monitor saw no resources_left/before_search_start call (rc {res.get('rc')})")
        return None
    if calls["execute"] == 0 or (run["algo"] in ALGOS_EVOLVE and calls["evolve"] == 0 and calls["after_search_iteration"] > 0):
        ctx.inconclusive_because(f"{tag}: execute/evolve wrapper saw no call: {calls}")
        return None
    out = budget.check_log(bl["log"], run["budget"], run["algo"])
    facts = out["facts"]
    if facts["search_starts"] != 1 or not facts["finished"]:
        ctx.inconclusive_because(f"{tag}: search did not run start-to-finish exactly once: {facts}")
        return None
    case = {"run": run, "facts": facts, "log_tail": bl["log"][-8:], "log_head": bl["log"][:6]}
    for key, desc, detail in out["witnesses"]:
        c = dict(case)
        c["detail"] = detail
        ctx.witness(key, desc, c)
    for a in out["anomalies"]:
        ctx.anomaly(a)
    kinds = sorted(run["budget"])
    cls = [f"run:{run['algo']}"] + [f"budget:{KINDS[k]}" for k in kinds]
    if len(kinds) > 1:
        cls.append("budget:pair")
    bound = facts["bound_by"]
    for b in bound:
        cls.append(f"stopped-by:{b}")
    if bound:
        cls.append(f"bound:{run['algo']}")
    else:
        cls.append("stopped-by:coverage-or-other")
    if facts["crossed_within_iteration"]:
        cls.append("crossed-within-iteration")
    if facts["iterations"] == 0:
        cls.append("zero-iterations")
    if (bl.get("counters") or {}).get("timeouts", 0) > 0:
        cls.append("run:with-timed-out-executions")
    ctx.ok(cls=cls, distinct=run if bound else None)
    ctx.cls("iteration-boundary-checked", facts["iterations_started"] + facts["rl_false"])
    ctx.count("iterations_observed", facts["iterations"])
    if len(ctx.samples) < 3:
        ctx.sample({"run": run, "facts": facts, "log_head": bl["log"][:8], "wall_s": res.get("wall_s")})
    return out


def run_chunk(spec, ctx):
    from vlib import sut_corpus

    proj = sut_corpus.copy_to(ctx.scratch / "proj", SUTS + ["sleepy"])
    env_extra = {"VERIF_BREAK": spec["seeded_break"]} if spec.get("seeded_break") else None
    for i, run in enumerate(spec["runs"]):
        run_one(ctx, run, i, proj, env_extra)
    import resource

    ru = resource.getrusage(resource.RUSAGE_CHILDREN)
    ctx.count("cpu_s_children", round(ru.ru_utime + ru.ru_stime, 1))


def replay(w, ctx):
    from vlib import sut_corpus

    proj = sut_corpus.copy_to(ctx.scratch / "proj", SUTS + ["sleepy"])
    run_one(ctx, w["case"]["run"], 0, proj)
