"""C18 — the test file Pynguin writes imports cleanly and passes under pytest against the original module.

One case = one complete Pynguin run (fresh interpreter, ``vlib.pyndriver``) on a module of ``vlib/sut_corpus``; the
written file ``test_<module>.py`` is then run with ``python -m pytest`` in another fresh interpreter whose working
directory holds the *original, uninstrumented* SUT sources.  The oracle is pytest's junit XML: every test must pass,
except tests decorated ``xfail(strict=True)``, which must fail (reported as xfailed; an unexpectedly passing strict xfail
is reported as failed by pytest); no collection / import error.  The text of the failure is only used to key the witness by
mechanism.
"""

from __future__ import annotations

import ast
import re

ID = "C18"
LEVEL = "exploration"
IN_PROCESS = False
CHUNK_TIMEOUT = 3000
RULE = (
    "cases = (SUT of vlib/sut_corpus incl. the never-raising float module, seed, algorithm DYNAMOSA/MIO/WHOLE_SUITE/RANDOM/MOSA, "
    "assertion generation NONE/SIMPLE/MUTATION_ANALYSIS, no_xfail on/off, format_with_black on/off, post_process on/off, "
    "minimisation strategy, 2-6 iterations): 26 fixed directed tuples (float assertion without raising statement, pytest.raises, "
    "enum values, xfail, seed fixture) then random tuples from the seed; each case is one real run_pynguin() in a fresh interpreter; "
    "oracle = junit XML of `python -m pytest` on the written file in a fresh interpreter with the original SUT in the cwd (all pass, "
    "strict xfails fail, nothing errors; number of reported tests == number of test functions in the file); one evaluation per "
    "executed test function; distinct = content hash of the written file"
)
ASSUMPTIONS = [
    "pytest's junit XML is the oracle; the failure text is used only to name the mechanism of a witness",
    "the SUT corpus modules are deterministic; rng_user (uses random, deterministic only through the emitted seed fixture) is "
    "outside the quantifier of the property: its failures are recorded as anomalies, not witnesses",
    "a run that writes no file (empty suite or failed export) has nothing to execute: recorded as an anomaly",
    "driver timeouts / crashes of the harness are inconclusive, never a violation",
    "a run in which an assertion-filtering execution timed out (machine load; observed at the filter itself) keeps unverified, state-dependent assertions "
    "(AssertionGenerator's filter removes nothing for a timed-out filtering execution): AssertionError failures of such runs are "
    "anomalies (after-execution-timeouts:*), every other failure mechanism stays a witness",
]

NONDETERMINISTIC_SUTS = {"rng_user"}


def floors(tier):
    k = 1 if tier == "quick" else 6
    return {
        "evals": 250 * k,
        "distinct": 40 * k,
        "classes": {
            "file": 40 * k,
            "file:float-assert-no-raising-statement": 1,
            "file:pytest.raises": 1,
            "file:enum-value": 1,
            "file:xfail": 1,
            "file:imported-exception-class": 1,
            "file:private-exception-class-in-raises": 1,
            "file:seed-fixture": 1,
            "ag:NONE": 3, "ag:SIMPLE": 10, "ag:MUTATION_ANALYSIS": 5,
            "no_xfail:on": 8, "no_xfail:off": 8, "black:on": 8, "black:off": 5,
            "algo:DYNAMOSA": 15, "algo:MIO": 1, "algo:WHOLE_SUITE": 1, "algo:RANDOM": 1,
            "test:passed": 100 * k, "test:xfailed": 20 * k,
            "fault:filter_execution_times_out": 2,
        },
    }


def plan(tier, seed):
    from vlib import genfiles

    return genfiles.plan(tier, seed)


# ---------------------------------------------------------------------------------------------------------------------
def _failing_line(text):
    """The source line pytest marks with '>' and the 'E   <Exc>: msg' line of a failure text."""
    src, err = None, None
    for line in text.splitlines():
        if line.startswith(">") and src is None:
            src = line[1:].strip()
        m = re.match(r"^E\s+([A-Za-z_][\w.]*)(?::\s*(.*))?$", line)
        if m and err is None:
            err = (m.group(1).rsplit(".", 1)[-1], m.group(2) or "")
    return src, err


def _asserts_on_sut_module_variable(src, fileinfo):
    """Is the failing line ``assert <alias>.NAME <op> ...`` with NAME bound at module level of the SUT (not a class / function)?"""
    if not src or not fileinfo or not fileinfo.alias:
        return False
    try:
        node = ast.parse(src.strip()).body[0]
    except (SyntaxError, IndexError):
        return False
    if not isinstance(node, ast.Assert) or not isinstance(node.test, ast.Compare):
        return False
    left = node.test.left
    return (isinstance(left, ast.Attribute) and isinstance(left.value, ast.Name) and left.value.id == fileinfo.alias
            and left.attr.isupper())


def _mechanism(rec, fileinfo, fn):
    """Mechanism key of a failed / errored test from features of the failure only."""
    from vlib import genfiles

    msg, text = rec["message"], rec["text"]
    if "XPASS(strict)" in msg or "XPASS(strict)" in text:
        return "xfail-strict-passed"
    src, err = _failing_line(text)
    exc = err[0] if err else None
    if exc is None:
        m = re.match(r"^([A-Za-z_][\w.]*?)(?::|$)", msg.strip())
        exc = m.group(1).rsplit(".", 1)[-1] if m else "unknown"
    detail = err[1] if err else msg
    if rec["outcome"] == "error" and ("collection" in msg.lower() or rec["name"] == "" or fn is None):
        return f"collection-error:{exc}"
    if exc == "NameError":
        m = re.search(r"name '(\w+)' is not defined", detail + " " + text)
        name = m.group(1) if m else "?"
        if name == "pytest":
            return "fails:NameError:pytest-not-imported"
        if name == "sys":
            return "fails:NameError:sys-not-imported"
        if genfiles.VAR_RE.match(name):
            return "fails:NameError:test-variable-unbound"
        if name == (fileinfo.alias if fileinfo else None):
            return "fails:NameError:module-alias-unbound"
        return "fails:NameError:other-name"
    if exc == "AssertionError" or (src or "").startswith("assert "):
        kind = genfiles.assert_kind(src) if src and src.startswith("assert ") else "unknown"
        if kind in ("unparsable", "not-an-assert"):
            kind = "multiline"
        if _asserts_on_sut_module_variable(src, fileinfo):
            # the oracle reads a module-level variable of the SUT (``<alias>.NAME``): what it observes is whatever earlier
            # executions in the generating process left there, see known_findings.json
            return f"fails:AssertionError:on-sut-module-variable:{kind}"
        return f"fails:AssertionError:{kind}"
    if exc == "Failed" and "DID NOT RAISE" in (detail + text):
        return "fails:pytest.raises:did-not-raise"
    where = "statement"
    if src and src.startswith("with pytest.raises"):
        where = "pytest.raises-header"
    elif src and src.startswith("assert "):
        where = "assertion"
    return f"fails:{exc}:{where}"


def _statements_removed_after_assertion_generation(res, test_name):
    """Number of statements the post-processing removed from the test case exported as ``test_name`` *after* its assertions had
    been generated (from the assertion_snapshot monitor); None when unknown.  A removed call may have changed the state a
    surviving assertion observes."""
    from vlib import genfiles

    m = re.match(r"^test_(\d+)$", test_name)
    if not m:
        return None
    snaps = {e["step"]: e["tests"] for e in res.get("events", []) if e.get("ev") == "snapshot"}
    if "generated" not in snaps or "export-entry" not in snaps:
        return None
    tx = next((t for t in snaps["export-entry"] if t["pos"] == int(m.group(1))), None)
    if tx is None:
        return None
    t0 = next((t for t in snaps["generated"] if t["tid"] == tx["tid"]), None)
    if t0 is None:
        return None
    align = genfiles.align_statements(t0["stmts"], [(s["bound"], genfiles.code_rhs_key(s["code"])) for s in tx["stmts"]])
    return sum(1 for j in align if j is None)


def _file_classes(fi, text, c):
    cl = ["file", f"ag:{c['ag']}", f"algo:{c['algo']}", f"no_xfail:{'on' if c['no_xfail'] else 'off'}",
          f"black:{'on' if c['black'] else 'off'}", f"post_process:{'on' if c['post_process'] else 'off'}", f"sut:{c['sut']}"]
    from vlib import genfiles

    has_approx = has_raises = has_xfail = has_enum = False
    for fn in fi.functions:
        if genfiles.is_xfail_decorated(fn):
            has_xfail = True
        for node in ast.walk(fn):
            if isinstance(node, ast.Attribute) and node.attr == "approx":
                has_approx = True
            if isinstance(node, ast.With) and genfiles.is_raises_block(node) is not None:
                has_raises = True
            if isinstance(node, ast.Attribute) and isinstance(node.value, (ast.Name, ast.Attribute)):
                base = ast.unparse(node.value).rsplit(".", 1)[-1]
                if base in ("Color", "Level") and node.attr.isupper():
                    has_enum = True
    if has_approx:
        cl.append("file:float-assert")
    if has_approx and not has_raises and not has_xfail:
        cl.append("file:float-assert-no-raising-statement")
    if has_raises:
        cl.append("file:pytest.raises")
    if has_xfail:
        cl.append("file:xfail")
    if has_enum:
        cl.append("file:enum-value")
    if "_pynguin_seed_random" in text:
        cl.append("file:seed-fixture")
    # non-builtin exception class of the SUT inside pytest.raises(...): the writer must import it
    for n in ast.walk(fi.tree):
        if isinstance(n, ast.With):
            name = genfiles.is_raises_block(n)
            if name and name in fi.public_names:
                cl.append("file:imported-exception-class")
                break
    for n in ast.walk(fi.tree):
        if isinstance(n, ast.With):
            name = genfiles.is_raises_block(n)
            if name and name.rsplit(".", 1)[-1].startswith("_"):
                cl.append("file:private-exception-class-in-raises")
                break
    if not fi.imports_pytest:
        cl.append("file:no-import-pytest")
    return cl


def check_file(ctx, r):
    """The C18 oracle on one run result (also used by the self-test)."""
    from vlib import core, genfiles

    c = r["case"]
    if r["f1"] is None:
        ctx.anomaly(f"no-file-written:rc={r['res'].get('rc')}")
        return
    case_info = {"case": c}
    try:
        fi = genfiles.FileInfo(r["f1"], c["sut"])
    except SyntaxError as e:
        ctx.ok(cls=["file", "file:syntax-error"], distinct=core.stable_hash(r["f1"]))  # the parse attempt is the evaluation
        ctx.witness("collection-error:SyntaxError:written-file-does-not-parse", f"{r['tag']}: the written file is not valid Python: {e}",
                    {**case_info, "file": r["f1"][-1500:]})
        return
    n_functions = len(fi.functions)
    pt = genfiles.run_pytest(r["f1_path"], r["proj"], r["out"].parent)
    ctx.count("pytest_wall_s", pt.get("wall", 0))
    if pt["timeout"]:
        ctx.inconclusive_because(f"{r['tag']}: pytest timed out")
        return
    if not pt["tests"] and pt["rc"] not in (0, 1, 2):
        ctx.inconclusive_because(f"{r['tag']}: pytest produced no junit XML (rc {pt['rc']}): {pt['stdout'][-300:]}")
        return
    nondet = c["sut"] in NONDETERMINISTIC_SUTS
    had_timeouts = genfiles.unverified_assertions(r["res"])
    if had_timeouts:
        ctx.cls("run:assertion-filter-execution-timed-out")
    if c.get("fault"):
        applied = [n for e in r["res"].get("events", []) if e.get("ev") == "seeded-breaks" for n in e.get("names", [])]
        if c["fault"] not in applied:
            ctx.inconclusive_because(f"{r['tag']}: injected fault {c['fault']} was not applied")
            return
        ctx.cls(f"fault:{c['fault']}")
    classes = _file_classes(fi, r["f1"], c)
    ctx.ok(0, distinct=core.stable_hash(r["f1"]))
    for name in classes:
        ctx.cls(name)
    reported = [t for t in pt["tests"] if t["name"].startswith("test_")]
    collection_errors = [t for t in pt["tests"] if not t["name"].startswith("test_") or (t["outcome"] == "error" and "collection" in t["message"].lower())]
    if len(ctx.samples) < 4:
        ctx.sample({"case": c, "functions": n_functions, "outcomes": [t["outcome"] for t in reported][:20], "classes": [x for x in classes if x.startswith("file:")]})

    def report(key, desc, extra):
        if nondet:
            ctx.anomaly(f"random-using-sut:{key}")
        elif had_timeouts and not c.get("fault") and key.startswith("fails:AssertionError"):
            # a timed-out filtering execution keeps every unverified assertion (the filter fails open); timeouts come from
            # machine load, so the value mismatch is not attributed to the deterministic pipeline
            ctx.anomaly(f"after-execution-timeouts:{key}")
        else:
            ctx.witness(key, f"{r['tag']} no_xfail={c['no_xfail']} black={c['black']}: {desc}", {**case_info, **extra})

    for t in collection_errors:
        ctx.ok(cls="test:collection-error")
        key = _mechanism({**t, "outcome": "error", "name": ""}, fi, None)
        report(key, f"collection/import error: {t['message'][:200]}", {"failure": t["text"][-1200:], "file_head": r["f1"][:900]})
    if collection_errors:
        return
    if len(reported) != n_functions:
        ctx.inconclusive_because(f"{r['tag']}: pytest reported {len(reported)} tests, the file defines {n_functions} (rc {pt['rc']}): {pt['stdout'][-300:]}")
        return
    for t in reported:
        fn = fi.function(t["name"])
        xfail = fn is not None and genfiles.is_xfail_decorated(fn)
        ctx.ok(cls=[f"test:{t['outcome']}", "test:xfail-marked" if xfail else "test:plain"])
        if t["outcome"] == "passed" and not xfail:
            continue
        if t["outcome"] == "xfailed" and xfail:
            continue
        if t["outcome"] == "passed" and xfail:
            # non-strict xfail that passes would be 'passed' (XPASS); the property demands the strict marker's failure
            report("xfail-passed:not-strict", f"{t['name']} carries an xfail marker and passed", {"function": ast.unparse(fn)[:1200]})
            continue
        if t["outcome"] == "xfailed" and not xfail:
            ctx.inconclusive_because(f"{r['tag']}: {t['name']} reported xfailed without a marker")
            continue
        if t["outcome"] == "skipped":
            report("skipped-test", f"{t['name']} was skipped: {t['message'][:120]}", {"function": ast.unparse(fn)[:1200] if fn else None})
            continue
        key = _mechanism(t, fi, fn)
        if key.startswith("fails:AssertionError") and ":on-sut-module-variable:" not in key:
            removed = _statements_removed_after_assertion_generation(r["res"], t["name"])
            if removed:
                # the value was observed before statement minimisation removed calls from this test case
                key += ":after-statement-removal"
        src, err = _failing_line(t["text"])
        report(key, f"{t['name']} {t['outcome']}: {t['message'][:160]} @ {src}",
               {"test": t["name"], "failing_line": src, "error": list(err) if err else None, "function": ast.unparse(fn)[:1500] if fn else None,
                "failure": t["text"][-1000:], "imports_pytest": fi.imports_pytest})


def run_chunk(spec, ctx):
    from vlib import genfiles

    for i, c in enumerate(genfiles.cases_of(spec)):
        # C18 needs no monitor of its own; the shared monitor set keeps the run identical to the ones of C19/C24 (cache)
        r = genfiles.run_case(ctx, c, i)
        if r is None:
            continue
        check_file(ctx, r)
