"""C19 — every generated regression assertion is still there, for the same statement, in the exported test function.

Monitor ``vlib/monitors/assertion_snapshot.py`` (inside the driver child of a real Pynguin run) snapshots, per test case, the
list of (rendered statement, [rendered assertion]) after assertion generation, after assertion minimisation, after statement
minimisation and at the entry of the export, and logs every ``TestCase.remove_unused_variables`` call that loses an assertion
object.  Offline oracle (this file), two set differences on rendered text:

E1  export: every (statement, assertion) pair of the export-entry snapshot of the i-th test case must have a counterpart in
    ``test_<i>`` of the written file: the k-th non-assert statement of the function is the k-th statement of the test case
    (same code up to (un)binding ``var_N = e`` / ``e`` and a ``with pytest.raises`` wrapper), and the assertion text must be
    among the asserts that directly follow it.  An ExceptionAssertion corresponds to the ``pytest.raises`` wrapper of its
    statement or to the ``xfail`` marker of the function.
E2  post-processing: every pair present after assertion generation (+ assertion minimisation, which may legitimately remove
    assertions) whose statement still exists (same test case object, same code up to (un)binding) at the export entry must
    still be attached to it.  A pair whose statement was removed by statement minimisation is *not* demanded (that is C22's
    business) unless the removal log shows that ``remove_unused_variables`` had stripped the assertion first.

A lost pair is keyed by the step that lost it: ``lost:remove_unused_variables:...`` when the removal log of that call names the
pair, else ``lost:export:<kind>`` / ``lost:minimize:<kind>``.
"""

from __future__ import annotations

import ast
import re

ID = "C19"
LEVEL = "exploration"
IN_PROCESS = False
CHUNK_TIMEOUT = 3000
RULE = (
    "the cases of C18 restricted to assertion generation SIMPLE / MUTATION_ANALYSIS (SUT corpus whose interesting value is often the "
    "result of the last call, x seeds x algorithms x no_xfail x black x post_process on/off x minimisation strategy); each case is one "
    "real run_pynguin() with snapshot wrappers on _generate_assertions / _minimize_assertions / _minimize (exit) and _export_chromosome "
    "(entry) and a before/after wrapper on TestCase.remove_unused_variables; oracle = per test case, set difference of rendered "
    "(statement, assertion) pairs: export-entry snapshot vs. the asserts following the corresponding statement of test_<i> in the "
    "written file (ast), and post-generation snapshot vs. export-entry snapshot for statements that still exist; one evaluation per "
    "(statement, assertion) pair; distinct = (case, test, statement, assertion text)"
)
ASSUMPTIONS = [
    "assertion text is rendered by the real assertion_to_cst in the child and compared after ast.unparse (quote/whitespace/black insensitive)",
    "statements of test case and exported function are aligned in order; statement identity = unparsed code without the `var_N =` binding",
    "an assertion removed by _minimize_assertions (checked-coverage assertion minimisation) is legitimate; statements removed by "
    "statement minimisation take their assertions with them legitimately (C22) unless remove_unused_variables stripped them first",
    "test cases are tracked by object identity (attribute set on the TestCase); suites restored from clones lose it and are only "
    "checked at the export step",
    "an ExceptionAssertion has no text; its counterpart is the pytest.raises wrapper of the statement or the function's xfail marker",
]


NONDETERMINISTIC_SUTS = {"rng_user"}


def floors(tier):
    k = 1 if tier == "quick" else 6
    return {
        "evals": 1200 * k,
        "distinct": 500 * k,
        "classes": {
            "run": 30 * k,
            "pair:on-unused-binding": 100 * k,
            "pair:on-used-binding": 100 * k,
            "pair:on-other-variable": 20,
            "pair:exception-assertion": 10,
            "step:export": 300 * k,
            "step:post-processing": 300 * k,
            "post_process:off": 2,
            "pair:on-static-field:statement-binds-nothing": 20,
            "kind:FloatAssertion": 10, "kind:ObjectAssertion": 100, "kind:IsInstanceAssertion": 10, "kind:CollectionLengthAssertion": 10,
        },
    }


def plan(tier, seed):
    from vlib import genfiles

    return genfiles.plan(tier, seed)  # the same cases as C18/C24 (shared runs under VERIF_GENFILES_CACHE); ag=NONE cases are skipped


# ---------------------------------------------------------------------------------------------------------------------
def _groups(fn):
    """[(statement node, inner node, raises-name|None, [unparsed assert text])] of an exported function body."""
    from vlib import genfiles

    groups = []
    for node in fn.body:
        if isinstance(node, ast.Assert):
            if groups:
                groups[-1][3].append(ast.unparse(node))
            else:
                groups.append((None, None, None, [ast.unparse(node)]))
            continue
        raises = genfiles.is_raises_block(node)
        inner = node
        if raises is not None and len(node.body) == 1:
            inner = node.body[0]
        groups.append((node, inner, raises, []))
    return groups


def _uses(stmts, k, var):
    if not var:
        return False
    pat = re.compile(rf"\b{re.escape(var)}\b")
    return any(pat.search(s["code"]) for s in stmts[k + 1:])


def _pair_classes(stmts, k, a):
    s = stmts[k]
    cl = [f"kind:{a['kind']}"]
    if a["kind"] == "ExceptionAssertion":
        cl.append("pair:exception-assertion")
        return cl
    root = (a.get("source") or "").split(".", 1)[0]
    if s["bound"] and root == s["bound"]:
        cl.append("pair:on-used-binding" if _uses(stmts, k, s["bound"]) else "pair:on-unused-binding")
    elif root.startswith("var_"):
        cl.append("pair:on-other-variable")
    else:
        cl.append("pair:on-static-field")
        if not s["bound"]:
            cl.append("pair:on-static-field:statement-binds-nothing")
    return cl


def _pair_kind(stmts, k, a):
    return next((c.split(":", 1)[1] for c in _pair_classes(stmts, k, a) if c.startswith("pair:")), "other")


def _trivial_literal(code):
    """`var_N = <literal / name>`: an unused primitive whose removal (with its tautological assertion) is the declared job of the
    unused-statement pass."""
    try:
        n = ast.parse(code.strip()).body[0]
    except (SyntaxError, IndexError):
        return False
    if not isinstance(n, ast.Assign):
        return False
    try:
        ast.literal_eval(n.value)
        return True
    except (ValueError, SyntaxError, TypeError, MemoryError, RecursionError):
        return False


def _ruv_index(events):
    """(tid, unparsed statement incl. its binding, unparsed assertion text | exc name) -> caller, for every pair
    remove_unused_variables lost (variable names are unique inside a test case, so the statement text identifies the statement)."""
    from vlib import genfiles

    idx = {}
    for e in events:
        if e.get("ev") != "ruv":
            continue
        for d in e["dropped"]:
            key = genfiles.unparse_code(d["code"])
            for lost in d["lost"]:
                text = genfiles.unparse_code(lost["code"]) if lost.get("code") else f"<exc:{lost.get('exc')}>"
                idx.setdefault((e["tid"], key, text), e["caller"])
    return idx


def _assert_text(a):
    from vlib import genfiles

    if a["kind"] == "ExceptionAssertion":
        return f"<exc:{a['exc']}>"
    if a.get("code") is None:
        return None
    return genfiles.unparse_code(a["code"])


def _lost_key(a, ruv_caller, step, stmts, k):
    from vlib import genfiles

    if ruv_caller is not None:
        s = stmts[k]
        root = (a.get("source") or "").split(".", 1)[0]
        if a["kind"] == "ExceptionAssertion":
            what = "exception-assertion"
        elif s["bound"] and root == s["bound"]:
            what = "assertion-on-unused-binding"
        else:
            what = "assertion-on-other-variable-at-unused-binding"
        return f"lost:remove_unused_variables:{what}"
    kind = "exception-assertion" if a["kind"] == "ExceptionAssertion" else genfiles.assert_kind(a["code"] or "")
    return f"lost:{step}:{a['kind']}:{kind}"


def check_run(ctx, r):
    """The C19 oracle on one run result (also used by the self-test)."""
    from vlib import genfiles

    c, res = r["case"], r["res"]
    calls = genfiles.monitor_calls(res, "vlib.monitors.assertion_snapshot") or genfiles.monitor_calls(res, "assertion_snapshot")
    if not calls or calls.get("_export_chromosome", 0) == 0 or calls.get("_generate_assertions", 0) == 0:
        ctx.inconclusive_because(f"{r['tag']}: the snapshot monitor saw no call ({calls}); rc {res.get('rc')}")
        return
    events = res["events"]
    snaps = {}
    for e in events:
        if e.get("ev") == "snapshot":
            snaps[e["step"]] = e["tests"]
        if e.get("ev") == "ruv-size-changed":
            ctx.anomaly("remove_unused_variables-changed-the-number-of-statements")
    if "export-entry" not in snaps or "generated" not in snaps:
        ctx.inconclusive_because(f"{r['tag']}: snapshots missing ({sorted(snaps)})")
        return
    ruv = _ruv_index(events)
    base_step = "assertions-minimized" if "assertions-minimized" in snaps else "generated"
    base, at_export = snaps[base_step], snaps["export-entry"]
    n_pairs = sum(len(s["asserts"]) for t in base for s in t["stmts"])
    if n_pairs == 0:
        ctx.anomaly("run-without-any-assertion")
    ctx.cls("run")
    ctx.cls(f"post_process:{'on' if c['post_process'] else 'off'}")
    ctx.cls(f"ag:{c['ag']}")
    ctx.cls(f"strategy:{c['strategy']}")
    case_info = {"case": c}
    for t in base + at_export:
        for s in t["stmts"]:
            for a in s["asserts"]:
                if a.get("render_error"):
                    ctx.anomaly(f"assertion-does-not-render:{a['kind']}")

    # ---- E2: post-generation -> export entry ---------------------------------------------------------------------------
    by_tid = {t["tid"]: t for t in at_export}
    for t in base:
        tx = by_tid.get(t["tid"])
        if tx is None:
            # the whole test case is gone (empty-test removal / suite minimisation / restored clones) -- unless ruv stripped it first
            for k, s in enumerate(t["stmts"]):
                key = genfiles.code_rhs_key(s["code"])
                for a in s["asserts"]:
                    text = _assert_text(a)
                    caller = ruv.get((t["tid"], genfiles.unparse_code(s["code"]), text))
                    ctx.ok(cls=["step:post-processing", "pair:test-case-removed"] + _pair_classes(t["stmts"], k, a))
                    if caller is not None and a["kind"] != "ExceptionAssertion" and _trivial_literal(s["code"]):
                        ctx.anomaly("unused-literal-removed-with-its-tautological-assertion")
                    elif caller is not None and a["kind"] != "ExceptionAssertion":
                        ctx.witness(_lost_key(a, caller, "minimize", t["stmts"], k),
                                    f"{r['tag']}: `{a['code']}` on `{s['code']}` was stripped by remove_unused_variables ({caller}); the test case was then removed",
                                    {**case_info, "tid": t["tid"], "statement": s["code"], "assertion": a, "step": caller, "then": "test case removed"})
            continue
        align = genfiles.align_statements(t["stmts"], [(s["bound"], genfiles.code_rhs_key(s["code"]),
                                                        {genfiles.unparse_code(a["code"]) for a in s["asserts"] if a.get("code")}) for s in tx["stmts"]])
        for k, s in enumerate(t["stmts"]):
            key = genfiles.code_rhs_key(s["code"])
            j = align[k]
            if not s["asserts"]:
                continue
            have = {_assert_text(a) for a in tx["stmts"][j]["asserts"]} if j is not None else set()
            for a in s["asserts"]:
                text = _assert_text(a)
                if text is None:
                    continue
                cl = ["step:post-processing"] + _pair_classes(t["stmts"], k, a)
                caller = ruv.get((t["tid"], genfiles.unparse_code(s["code"]), text))
                if j is None:
                    ctx.ok(cls=cl + ["pair:statement-removed"])
                    if caller is not None and a["kind"] != "ExceptionAssertion" and _trivial_literal(s["code"]):
                        ctx.anomaly("unused-literal-removed-with-its-tautological-assertion")
                    elif caller is not None and a["kind"] != "ExceptionAssertion":
                        ctx.witness(_lost_key(a, caller, "minimize", t["stmts"], k),
                                    f"{r['tag']}: `{a['code']}` on `{s['code']}` was stripped by remove_unused_variables ({caller}); the unprotected statement was then removed",
                                    {**case_info, "tid": t["tid"], "statement": s["code"], "assertion": a, "step": caller, "then": "statement removed"})
                    elif caller is None and a["kind"] != "ExceptionAssertion":
                        if _trivial_literal(s["code"]):
                            ctx.anomaly("unused-literal-removed-with-its-tautological-assertion")
                        else:
                            # statement minimisation removed a statement together with the oracle attached to it: an oracle was
                            # dropped silently (the minimisers must keep statements that carry a reference assertion)
                            ctx.witness("lost:minimize:statement-removed-with-its-oracle:" + _pair_kind(t["stmts"], k, a),
                                        f"{r['tag']}: `{a['code']}` was attached to `{s['code']}` after {base_step}; the statement is gone at the "
                                        f"export entry although the test case is still there",
                                        {**case_info, "tid": t["tid"], "statement": s["code"], "assertion": a, "step": "statement minimisation",
                                         "test_at_export": [x["code"] for x in tx["stmts"]]})
                    continue
                ctx.ok(cls=cl, distinct=f"{c['sut']}|{c['seed']}|{c['algo']}|{t['tid']}|{key}|{text}")
                if text in have:
                    continue
                if a["kind"] == "ExceptionAssertion" and caller is not None:
                    # the writer re-detects exceptions by re-execution; whether the structure survives is decided by E1
                    ctx.anomaly("exception-assertion-object-dropped-by-remove_unused_variables")
                    continue
                ctx.witness(_lost_key(a, caller if caller != "export" else None, "minimize", t["stmts"], k),
                            f"{r['tag']}: `{a['code'] or text}` attached to `{s['code']}` after {base_step} is gone at the export entry "
                            f"(statement still there as `{tx['stmts'][j]['code']}`; removal log: {caller})",
                            {**case_info, "tid": t["tid"], "statement": s["code"], "statement_at_export": tx["stmts"][j]["code"],
                             "assertion": a, "step": caller or "between generation and export"})

    # ---- E1: export entry -> written file ------------------------------------------------------------------------------
    if r["f1"] is None:
        if any(s["asserts"] for t in at_export for s in t["stmts"]):
            ctx.witness("lost:export:no-file-written", f"{r['tag']}: the suite carried assertions at the export entry but no file was written (rc {res.get('rc')})",
                        {**case_info, "stderr": res.get("stderr_tail", "")[-600:]})
            ctx.ok()
        return
    try:
        fi = genfiles.FileInfo(r["f1"], c["sut"])
    except SyntaxError as e:
        ctx.inconclusive_because(f"{r['tag']}: written file does not parse ({e}) -- C18's finding")
        return
    for t in at_export:
        fn = fi.function(f"test_{t['pos']}")
        if fn is None:
            ctx.ok()
            ctx.witness("lost:export:test-function-missing", f"{r['tag']}: test case {t['pos']} of the exported suite has no function test_{t['pos']}",
                        {**case_info, "pos": t["pos"], "functions": [f.name for f in fi.functions]})
            continue
        groups = _groups(fn)
        stmt_groups = [g for g in groups if g[0] is not None]
        xfail = genfiles.is_xfail_decorated(fn)
        if len(stmt_groups) != len(t["stmts"]):
            ctx.anomaly("exported-function-statement-count-differs")
        align = genfiles.align_statements(t["stmts"], [(genfiles.bound_of(g[1]), genfiles.rhs_key(g[1]), set(g[3])) for g in stmt_groups])
        for k, s in enumerate(t["stmts"]):
            key = genfiles.code_rhs_key(s["code"])
            j = align[k]
            for a in s["asserts"]:
                text = _assert_text(a)
                if text is None:
                    continue
                cl = ["step:export"] + _pair_classes(t["stmts"], k, a)
                ctx.ok(cls=cl, distinct=f"x|{c['sut']}|{c['seed']}|{c['algo']}|{t['tid']}|{key}|{text}")
                caller = ruv.get((t["tid"], genfiles.unparse_code(s["code"]), text))
                if caller != "export":
                    caller = None
                if j is None:
                    ctx.witness("lost:export:statement-missing" if caller is None else _lost_key(a, caller, "export", t["stmts"], k),
                                f"{r['tag']}: statement `{s['code']}` (with `{a['code'] or text}`) has no counterpart in test_{t['pos']}",
                                {**case_info, "pos": t["pos"], "statement": s["code"], "assertion": a, "function": ast.unparse(fn)[:1500]})
                    continue
                g = stmt_groups[j]
                if a["kind"] == "ExceptionAssertion":
                    if g[2] is not None or xfail:
                        if g[2] is not None and g[2] != a["exc"]:
                            ctx.anomaly("pytest.raises-names-a-different-exception-than-the-assertion")
                        continue
                    if c["sut"] in NONDETERMINISTIC_SUTS:
                        ctx.anomaly("random-using-sut:exception-structure-not-reproduced-at-export")
                        continue
                    ctx.witness("lost:export:exception-assertion:no-raises-no-xfail",
                                f"{r['tag']}: `{s['code']}` carries ExceptionAssertion({a['exc']}) but test_{t['pos']} neither wraps it in pytest.raises nor is marked xfail",
                                {**case_info, "pos": t["pos"], "statement": s["code"], "assertion": a, "function": ast.unparse(fn)[:1500]})
                    continue
                if text in g[3]:
                    continue
                elsewhere = any(text in gg[3] for gg in groups)
                ctx.witness(_lost_key(a, caller, "export" if not elsewhere else "export:moved-to-other-statement", t["stmts"], k),
                            f"{r['tag']}: `{a['code']}` attached to `{s['code']}` at the export entry is not among the asserts after "
                            f"`{ast.unparse(g[0])[:80]}` in test_{t['pos']} (removal log: {caller})",
                            {**case_info, "pos": t["pos"], "statement": s["code"], "exported_statement": ast.unparse(g[0]), "exported_asserts": g[3],
                             "assertion": a, "step": caller or "export"})
    if len(ctx.samples) < 4:
        ctx.sample({"case": c, "pairs_after_generation": n_pairs, "pairs_at_export_entry": sum(len(s["asserts"]) for t in at_export for s in t["stmts"]),
                    "asserts_in_file": r["f1"].count("\n    assert "), "ruv_drops": sum(len(d["lost"]) for e in events if e.get("ev") == "ruv" for d in e["dropped"])})


def run_chunk(spec, ctx):
    from vlib import genfiles

    for i, c in enumerate(genfiles.cases_of(spec)):
        if c["ag"] == "NONE":
            continue
        r = genfiles.run_case(ctx, c, i)
        if r is None:
            continue
        check_run(ctx, r)
