"""C20 — every value the assertion observer decides to assert on renders to valid Python that holds.

The real RemoteAssertionTraceObserver._check_value decides which assertions to create for an observed
value; each is rendered with the real assertion_to_cst, compiled, and executed against the observed
value itself in a namespace built like the header of an exported test file (SUT alias, public SUT
names, pytest).
"""

from __future__ import annotations

import importlib
import math
import random
import sys
import textwrap

ID = "C20"
LEVEL = "exploration"
IN_PROCESS = True
RULE = (
    "values: ints (incl. negative, huge), bools, None, str/bytes with arbitrary characters, complex, all float classes "
    "(-0.0, inf, nan, subnormal, 1e308, 1e-7), enums (top-level, nested, IntEnum, Flag), nested list/tuple/set/dict to "
    "depth 5, SUT objects with public fields, non-importable types; oracle = exec of the rendered assertion against "
    "the observed value; distinct by (value class, rendered code) ; non-trivial = at least one assertion was created"
)
ASSUMPTIONS = [
    "the namespace of the exported file is emulated: sys, the SUT module under its alias, its public names, pytest "
    "(whether 'import pytest' is actually emitted is C18's concern)",
    "values are observed after the statement that bound them, exactly as _check_value receives them (unwrapped)",
]

SUT_SRC = '''
import enum
import http

class Color(enum.Enum):
    RED = 1
    GREEN = "g"

class Num(enum.IntEnum):
    ONE = 1
    TWO = 2

class Mode(str, enum.Enum):
    FAST = "fast"
    SLOW = "slow"

class Perm(enum.Flag):
    R = 1
    W = 2
    X = 4

class Outer:
    class Inner(enum.Enum):
        A = 1
        B = 2
    def __init__(self):
        self.kind = Outer.Inner.A

class _Hidden(enum.Enum):
    H = 1

class Point:
    count = 0
    def __init__(self, x, y):
        self.x = x
        self.y = y
        self._secret = 1

class Bag:
    def __init__(self, *items):
        self.items = list(items)
        self.meta = {"n": len(items)}
    def __len__(self):
        return len(self.items)

class Celsius(float):
    def __repr__(self):
        return f"Celsius({float(self)})"
    __str__ = __repr__

class Money(int):
    def __repr__(self):
        return f"Money({int(self)})"
    __str__ = __repr__

class Tag(str):
    def __repr__(self):
        return f"Tag<{str.__str__(self)}>"

class Vec(tuple):
    def __repr__(self):
        return "Vec" + tuple.__repr__(self)

def hidden():
    return _Hidden.H

def foreign():
    return http.HTTPStatus.OK

def local():
    class Loc(enum.Enum):
        A = 1
    return Loc.A
'''


def floors(tier):
    return {"evals": 3000 if tier == "quick" else 30000, "distinct": 800,
            "classes": {"float:-0.0": 1, "float:nan": 1, "float:inf": 2, "float:subnormal": 1, "complex": 3, "enum:top": 2,
                        "enum:nested": 1, "enum:flag-combo": 1, "int:huge": 1, "nested-depth>=4": 5, "object-fields": 5,
                        "str:odd": 5, "bytes": 3, "subclass-of-builtin-with-custom-repr": 20, "assert:FloatAssertion": 20, "assert:ObjectAssertion": 500,
                        "assert:IsInstanceAssertion": 5, "assert:TypeNameAssertion": 3, "assert:CollectionLengthAssertion": 5,
                        "later-mutation": 300, "later-mutation:tuple": 20, "later-mutation:attr": 20, "later-mutation:list": 20,
                        "later-mutation:dict": 10, "later-mutation:set": 5}}


def plan(tier, seed):
    return [{"name": "all", "seed": seed, "n": 3000 if tier == "quick" else 40000}]


def _rand_value(rng, sut, depth=0):
    c = rng.random()
    if depth >= 5 or c < 0.45:
        k = rng.random()
        if k < 0.2:
            return rng.choice([0, 1, -1, 255, -(2**31), 2**63, 2**64 + 1, -(10**30), rng.randint(-1000, 1000)])
        if k < 0.3:
            return rng.choice([True, False, None])
        if k < 0.5:
            alphabet = "ab'\"\\\n\t\x00\x7f é \ud800\U0001f600{}%"
            return "".join(rng.choice(alphabet) for _ in range(rng.randint(0, 6)))
        if k < 0.6:
            return bytes(rng.randrange(256) for _ in range(rng.randint(0, 5)))
        if k < 0.75:
            return rng.choice([0.0, -0.0, 1.5, -2.5, 1e-7, 1e16, 1e308, -1e308, 5e-324, math.inf, -math.inf, math.nan,
                               0.1 + 0.2, rng.uniform(-1e3, 1e3), rng.random() * 1e-300])
        if k < 0.82:
            return rng.choice([1 + 2j, -0j, complex(0, -1.5), complex(1e308, -1e-300), complex(math.inf, 0), 2j])
        if rng.random() < 0.3:
            return rng.choice([sut.Celsius(rng.choice([0.0, 2.5, -7.25, 1e20])), sut.Money(rng.randint(-5, 5)), sut.Tag("t"), sut.Vec((1,))])
        return rng.choice([sut.Color.RED, sut.Color.GREEN, sut.Num.TWO, sut.Perm.R, sut.Outer.Inner.B, sut.Mode.FAST])
    kind = rng.choice(["list", "tuple", "set", "dict", "tuple1"])
    n = rng.randint(0, 3)
    if kind == "list":
        return [_rand_value(rng, sut, depth + 1) for _ in range(n)]
    if kind == "tuple":
        return tuple(_rand_value(rng, sut, depth + 1) for _ in range(n))
    if kind == "tuple1":
        return (_rand_value(rng, sut, depth + 1),)
    if kind == "set":
        out = set()
        for _ in range(n):
            v = _rand_value(rng, sut, 5)
            try:
                out.add(v)
            except TypeError:
                pass
        return out
    out = {}
    for _ in range(n):
        k = _rand_value(rng, sut, 5)
        try:
            out[k] = _rand_value(rng, sut, depth + 1)
        except TypeError:
            pass
    return out


def _depth(v):
    if isinstance(v, (list, tuple, set, frozenset)):
        return 1 + max([_depth(x) for x in v] + [0])
    if isinstance(v, dict):
        return 1 + max([max(_depth(k), _depth(x)) for k, x in v.items()] + [0])
    return 0


def _contains(v, pred, depth=0):
    if depth > 8:
        return False
    if pred(v):
        return True
    if isinstance(v, (list, tuple, set, frozenset)):
        return any(_contains(x, pred, depth + 1) for x in v)
    if isinstance(v, dict):
        return any(_contains(k, pred, depth + 1) or _contains(x, pred, depth + 1) for k, x in v.items())
    if hasattr(v, "__dict__") and type(v).__module__ == "c20_sut" and not isinstance(v, type):
        import enum

        if isinstance(v, enum.Enum):
            return False
        return any(_contains(x, pred, depth + 1) for x in vars(v).values())
    return False


def _classes(v, sut):
    import enum

    cl = []
    isf = lambda t: lambda x: isinstance(x, float) and t(x)  # noqa: E731
    if _contains(v, isf(lambda x: x == 0 and math.copysign(1, x) < 0)):
        cl.append("float:-0.0")
    if _contains(v, isf(math.isnan)):
        cl.append("float:nan")
    if _contains(v, isf(math.isinf)):
        cl.append("float:inf")
    if _contains(v, isf(lambda x: 0 < abs(x) < 2.3e-308)):
        cl.append("float:subnormal")
    if _contains(v, lambda x: isinstance(x, complex)):
        cl.append("complex")
    if _contains(v, lambda x: isinstance(x, enum.Enum) and type(x).__qualname__.count(".") == 0 and not isinstance(x, enum.Flag)):
        cl.append("enum:top")
    if _contains(v, lambda x: isinstance(x, enum.Enum) and "." in type(x).__qualname__):
        cl.append("enum:nested")
    if _contains(v, lambda x: isinstance(x, enum.Flag) and (x.name is None or "|" in str(x.name))):
        cl.append("enum:flag-combo")
    if _contains(v, lambda x: isinstance(x, int) and not isinstance(x, (bool, enum.Enum)) and abs(x) >= 2**63):
        cl.append("int:huge")
    if _contains(v, lambda x: isinstance(x, int) and not isinstance(x, (bool, enum.Enum)) and abs(x) >= 10**4300):
        cl.append("int:beyond-str-digit-limit")
    if _depth(v) >= 4:
        cl.append("nested-depth>=4")
    if type(v).__module__ == "c20_sut" and not isinstance(v, enum.Enum):
        cl.append("object-fields")
    if _contains(v, lambda x: isinstance(x, str) and any(ord(ch) < 32 or ord(ch) > 126 or ch in "'\"\\" for ch in x)):
        cl.append("str:odd")
    if _contains(v, lambda x: isinstance(x, bytes)):
        cl.append("bytes")
    if _contains(v, lambda x: type(x).__module__ == "c20_sut" and isinstance(x, (float, int, str, tuple)) and not isinstance(x, enum.Enum)):
        cl.append("subclass-of-builtin-with-custom-repr")
    return cl


def _mech(v, a, cl):
    """Mechanism of a failure from features of the value/assertion only."""
    an = type(a).__name__
    import enum

    def not_importable(x):
        if not isinstance(x, enum.Enum):
            return False
        t = type(x)
        return t.__name__.startswith("_") or "<locals>" in t.__qualname__ or t.__module__ != "c20_sut"

    if _contains(v, not_importable):
        return f"{an}:enum-class-not-importable"
    for c in ("subclass-of-builtin-with-custom-repr", "float:nan", "float:-0.0", "complex", "enum:flag-combo", "enum:nested", "int:beyond-str-digit-limit"):
        if c in cl:
            return f"{an}:{c}"
    return f"{an}:{type(v).__name__}"


def _srepr(v):
    try:
        return repr(v)[:300]
    except ValueError:
        return f"<{type(v).__name__} whose repr exceeds the int->str digit limit>"


def _mutate_in_place(v, seen=None, depth=0):
    """Change every mutable builtin container reachable from v (through containers and public attributes) in place, the way a
    later statement of the test could; returns the kinds of container changed."""
    seen = set() if seen is None else seen
    if id(v) in seen or depth > 6:
        return []
    seen.add(id(v))
    kinds = []
    if type(v) is list:
        for x in list(v):
            kinds += _mutate_in_place(x, seen, depth + 1)
        v.append(424242)
        kinds.append("list")
    elif type(v) is dict:
        for x in list(v.values()):
            kinds += _mutate_in_place(x, seen, depth + 1)
        v["__later__"] = 424242
        kinds.append("dict")
    elif type(v) is set:
        v.add(424242)
        kinds.append("set")
    elif type(v) is bytearray:
        v.append(7)
        kinds.append("bytearray")
    elif type(v) is tuple:
        for x in v:
            kinds += [f"tuple>{k}" for k in _mutate_in_place(x, seen, depth + 1)]
    elif type(v).__module__ == "c20_sut" and hasattr(v, "__dict__") and not isinstance(v, type):
        for name, x in list(vars(v).items()):
            if not name.startswith("_"):
                kinds += [f"attr>{k}" for k in _mutate_in_place(x, seen, depth + 1)]
    return kinds


def _render_all(assertions):
    import libcst as cst

    from pynguin.assertion.assertion_to_ast import assertion_to_cst

    out = []
    for a in assertions:
        try:
            out.append(cst.Module(body=[assertion_to_cst(a)]).code)
        except Exception as e:  # noqa: BLE001
            out.append(f"<{type(e).__name__}>")
    return out


def _later_mutation(ctx, v, assertions, case):
    """An assertion is a snapshot of what was observed at its position: changing the observed object afterwards (what later
    statements of the same test do) must not change the recorded assertion."""
    before = _render_all(assertions)
    try:
        kinds = _mutate_in_place(v)
    except Exception:  # noqa: BLE001
        return
    if not kinds:
        return
    after = _render_all(assertions)
    shape = sorted(set(kinds), key=len)[-1]
    ctx.ok(cls=["later-mutation", f"later-mutation:{shape.split('>')[0]}"])
    for a, b, c in zip(assertions, before, after):
        if b != c:
            ctx.witness(f"aliased:assertion-follows-later-mutation:{type(a).__name__}:{shape}",
                        f"after the observed object was changed in place the recorded assertion renders `{c.strip()[:160]}` instead of `{b.strip()[:160]}`",
                        {**case, "before": b, "after": c, "containers_changed": sorted(set(kinds))})


def _one(ctx, obs, ns_base, v, label, sut):
    import libcst as cst

    import pynguin.assertion.assertion_trace as at

    from pynguin.assertion.assertion_to_ast import assertion_to_cst

    cl = _classes(v, sut)
    trace = at.AssertionTrace()
    case = {"value": _srepr(v), "label": label}
    try:
        obs._check_value("var_0", v, 0, trace, depth=0, max_depth=1)
    except Exception as e:  # noqa: BLE001
        ctx.ok(cls=cl)
        ctx.witness(f"decide:raises-{type(e).__name__}:{_mech(v, None, cl)}", f"_check_value raised {e!r}", case)
        return
    assertions = list(trace.get_assertions(0)) if hasattr(trace, "get_assertions") else [a for s in trace.trace.values() for a in s]
    if not assertions:
        ctx.ok(cls=cl + ["no-assertion"])
        return
    for a in assertions:
        an = type(a).__name__
        try:
            node = assertion_to_cst(a)
            code = cst.Module(body=[node]).code
        except Exception as e:  # noqa: BLE001
            ctx.ok(cls=cl + [f"assert:{an}"])
            ctx.witness(f"render:raises-{type(e).__name__}:{_mech(v, a, cl)}", f"rendering {_srepr(a)} raised {type(e).__name__}: {str(e)[:120]}", case)
            continue
        ctx.ok(cls=cl + [f"assert:{an}"], distinct=f"{an}|{code[:200]}")
        if len(ctx.samples) < 8 and cl:
            ctx.sample({"value": _srepr(v)[:120], "rendered": code.strip()[:200]})
        try:
            compiled = compile(code, "<assertion>", "exec")
        except Exception as e:  # noqa: BLE001
            ctx.witness(f"compile:{type(e).__name__}:{_mech(v, a, cl)}", f"{code.strip()[:200]!r} does not compile: {e}", {**case, "code": code})
            continue
        ns = dict(ns_base)
        ns["var_0"] = v
        try:
            exec(compiled, ns)  # noqa: S102
        except AssertionError:
            ctx.witness(f"fails:{_mech(v, a, cl)}", f"rendered assertion is false for the observed value: {code.strip()[:200]}", {**case, "code": code})
        except Exception as e:  # noqa: BLE001
            ctx.witness(f"exec:{type(e).__name__}:{_mech(v, a, cl)}", f"{code.strip()[:200]!r} raised {e!r}", {**case, "code": code})
    _later_mutation(ctx, v, assertions, case)


def run_chunk(spec, ctx):
    import pytest

    import pynguin.configuration as config

    from pynguin.assertion.assertiontraceobserver import RemoteAssertionTraceObserver
    from pynguin.utils.naming import get_module_alias

    (ctx.scratch / "c20_sut.py").write_text(textwrap.dedent(SUT_SRC))
    sys.path.insert(0, str(ctx.scratch))
    sut = importlib.import_module("c20_sut")
    config.configuration.module_name = "c20_sut"
    alias = get_module_alias("c20_sut")
    ns_base = {"sys": sys, "c20_sut": sut, alias: sut, "pytest": pytest}
    ns_base.update({n: getattr(sut, n) for n in dir(sut) if not n.startswith("_") and n != alias})
    obs = RemoteAssertionTraceObserver()

    directed = [
        0, -5, 2**63, -(2**64), 10**100, 10**5000, True, None, "", "it's \"x\"\\\n\x00", "\ud800", b"", b"\xff\x00'", 0.0, -0.0, 1.5, -2.25,
        1e-7, 1e16, 1e22, 1e308, 5e-324, 2.2250738585072014e-308, math.inf, -math.inf, math.nan, 1 + 2j, -0j, complex(math.nan, 1), complex(0, math.inf),
        sut.Color.RED, sut.Color.GREEN, sut.Num.TWO, sut.Perm.R, sut.Perm.R | sut.Perm.W, sut.Perm(0), sut.Outer.Inner.A, sut.Mode.FAST, [sut.Mode.SLOW], {sut.Mode.FAST: 1}, sut.Celsius(37.0), sut.Celsius(0.0), sut.Celsius(-1.5), sut.Celsius(float('nan')), sut.Money(5), sut.Money(-3), sut.Tag('x'), sut.Vec((1, 2)), [sut.Celsius(2.5)], {'k': sut.Money(1)}, sut.Point(sut.Celsius(1.0), sut.Tag('t')), sut.hidden(), sut.foreign(), sut.local(), [sut.local()], sut.Point(sut.foreign(), 1),
        [], (), set(), {}, [1, [2, [3, [4, [5]]]]], ((((1,),),),), {1: {2: {3: {4: {5: 6}}}}}, [sut.Color.RED, (sut.Num.ONE, "x")],
        {sut.Color.RED: [1, 2]}, {(1, 2): "t", "k": (None, True)}, {1, "a", (2, 3)}, frozenset({1}), [1.5], (1, 2.5), {"a": math.nan},
        [[[[[[1]]]]]], sut.Point(1, 2.5), sut.Point(-0.0, math.nan), sut.Point([1, 2], {"a": sut.Color.RED}), sut.Point(sut.Outer(), None),
        sut.Outer(), sut.Bag(1, 2, 3), sut.Bag(), int, sut.Point, len, (i for i in range(2)), range(3), bytearray(b"ab"), memoryview(b"ab"),
        random.Random(1), math, object(), NotImplemented, ..., 1e-5, 123456789.123456789, 1e100, -1e-100, float("1e23"), 0.1 + 0.2,
        [sut.Perm.R | sut.Perm.X], (1j,), {"z": 1 - 1j}, [10**5000],
        # containers that a later statement can change in place, directly and inside immutable wrappers / attributes
        [1, 2], {"k": [1]}, {1, 2}, ("ledger", []), (1, {"a": [1]}), ([1, 2], {3}), (((["x"],),),), sut.Point(("t", [1]), [2]), sut.Bag(1, 2),
        sut.Point((1, (2, {"d": 0})), None), ({}, set()),
    ]
    for i, v in enumerate(directed):
        _one(ctx, obs, ns_base, v, f"directed-{i}", sut)
    rng = random.Random(spec["seed"] * 65537 + 20)
    for i in range(spec["n"]):
        v = _rand_value(rng, sut)
        if rng.random() < 0.08:
            v = sut.Point(v, _rand_value(rng, sut))
        _one(ctx, obs, ns_base, v, f"random-{i}", sut)
