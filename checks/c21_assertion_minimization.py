"""C21 - kept assertions hold on the original module; assertion minimisation preserves mutant kills; mutation score.

Parts
  (a') in-process: the real greedy set-cover ``_select_minimal_assertions`` on random kill maps (0-12 assertions x 0-20
       mutants; empty maps, all-empty kill sets, duplicates, nested chains, disjoint sets, greedy traps).  Oracle = set
       arithmetic: selection is a subset of the keys, the union of the selected kill sets equals the union of all kill sets,
       no selected key has an empty kill set.
  (a'') in-process: the real private ``__compute_mutation_summary`` + ``__remove_non_relevant_assertions`` (both the
       minimising and the plain path) on real TestCase objects with synthetic per-mutant ExecutionResults (violated
       positions, raised exceptions, timeouts followed by ``None`` = aborted slots).  Same oracle as for real runs.
  (b') real pipelines (``vlib.pyndriver`` + ``vlib.monitors.assertion_gen``), MUTATION_ANALYSIS with
       ``test_case_output.assertion_minimization`` on/off, mutation strategies FIRST_ORDER_MUTANTS (plain, capped by
       ``maximum_mutants`` = reordered, time-capped) and the higher-order strategies, in-process/subprocess filtering.  The
       monitor records the per-test x per-mutant verification traces *before* anything is removed, so "killed by the full
       set" is known independently of what was kept; afterwards every final test is re-executed on the unmutated module
       with a fresh executor and ``RemoteAssertionVerificationObserver``.
  (c') the score the run reports (``stat.track_output_variable(MutationScore)``) is recomputed from the recorded raw
       per-mutant results: killed / (checked - timed out), 1.0 for an empty divisor; unchecked mutants (invalid module,
       not reached within the time budget) are counted independently through ``_execute_test_case_on_mutant``.
"""

from __future__ import annotations

import math
import random

ID = "C21"
LEVEL = "exploration"
IN_PROCESS = False
CHUNK_TIMEOUT = 2400
RULE = (
    "(a') >= 20000 random kill maps (0-12 assertion keys x 0-20 mutants: empty, all-empty, duplicate, nested, disjoint, greedy-trap "
    "and uniform shapes) through the real _select_minimal_assertions, oracle = set arithmetic (subset of keys, union of kills == "
    "universe, no empty-kill key selected); (a'') synthetic per-mutant result matrices (violations, exceptions, timeouts, aborted "
    "None slots) through the real __compute_mutation_summary/__remove_non_relevant_assertions/get_score with minimisation on and "
    "off; (b') real MUTATION_ANALYSIS pipelines on 9 tiny SUTs x {minimisation on/off} x {first-order, capped+reordered, "
    "time-capped, 4 HOM strategies}: every mutant some assertion of the full set kills must still be killed by a kept assertion "
    "(or an unexpected exception) somewhere in the suite, kept assertions are a subset by object identity, every final test is "
    "re-executed on the unmutated module with a fresh executor + RemoteAssertionVerificationObserver and no assertion may fail or "
    "error; (c') reported MutationScore == killed/(checked - timed-out) recomputed from the raw results, within [0,1]; distinct = "
    "kill map / result matrix / run spec"
)
ASSUMPTIONS = [
    "a mutant counts as killed by the full set when at least one assertion of some test is recorded failed/errored by "
    "RemoteAssertionVerificationObserver on a non-timed-out mutant; it counts as still killed when a kept assertion of some test "
    "is violated or a test raises an exception at a statement that carries no kept exception assertion (the exported test fails "
    "either way); per-test preservation (what the code implements) is stronger and only its suite-level consequence is demanded",
    "kept assertions are mapped to their original (statement, index) by object identity inside the driver child",
    "re-execution uses a new TestCaseExecutor (new ModuleProvider, hence the unmutated module) on the run's subject properties; "
    "only stateless deterministic SUT modules decide part (a); a re-execution that yields no result (timeout / aborted thread) "
    "is an anomaly, not a violation",
    "the score part trusts only the raw per-mutant ExecutionResults and the count of _execute_test_case_on_mutant calls; what a "
    "'kill' is is taken from the code (violated assertion or raised exception): that expected exceptions also count is reported as "
    "an anomaly because the statement does not define kills",
    "a driver timeout or a run that dies is inconclusive",
]

# tickets: values differ between two executions in one process, but never coincide (strictly increasing serials, attribute
# names used once), so every assertion the filtering pass has to remove is removed after ONE filtering execution and the
# final re-execution is decisive
SUTS_DECIDING_REEXEC = ["tri", "strings", "containers", "colors", "queue_", "printer", "lastcall", "floats", "looper", "tickets"]
FILTER_CLASSES = ["stmt:failed+error", "stmt:failed+error+holding", "stmt:failed-only", "stmt:error-only",
                  "test:failed-only-and-error-only-statements", "test:mixed-statement-plus-others"]
LOOPER = '''"""A loop that a mutant can turn into a non-terminating one."""


def count_up(n: int) -> int:
    if n > 40:
        n = 40
    i = 0
    while i < n:
        i += 1
    return i


def sign(x: int) -> int:
    if x > 0:
        return 1
    if x < 0:
        return -1
    return 0
'''
HOM = ["FIRST_TO_LAST", "BETWEEN_OPERATORS", "RANDOM", "EACH_CHOICE"]


def floors(tier):
    k = 1 if tier == "quick" else 6
    return {
        "evals": 22000 * k,
        "distinct": 12000 * k,
        "classes": {
            "killmap": 20000 * k,
            "killmap:empty-map": 20, "killmap:all-empty-kill-sets": 20, "killmap:duplicates": 500, "killmap:nested": 500,
            "killmap:disjoint": 500, "killmap:greedy-trap": 200, "killmap:pruning-needed": 20,
            "synthetic-ma:minimization-on": 150, "synthetic-ma:minimization-off": 150,
            "synthetic-score": 300, "synthetic-score:with-timeout": 80, "synthetic-score:with-aborted-none": 50,
            "synthetic-score:zero-divisor": 10, "synthetic-score:killed-then-timed-out": 10,
            "real-run": 20 * k, "real-run:minimization-on": 8 * k, "real-run:minimization-off": 6 * k,
            "real-run:first-order": 4 * k, "real-run:capped-reordered": 3 if k == 1 else 12, "real-run:hom": 4 * k,
            "real-run:SIMPLE": 2,
            **{f"filter:{g}:{c}": 3 for g in ("SIMPLE", "MUTATION_ANALYSIS") for c in FILTER_CLASSES},
            "real-score": 16 * k, "kill-preserved:real": 200 * k, "reexec:test": 80 * k, "reexec:assertion": 150 * k,
        },
        "hom_strategies_min": 2,
    }


def plan(tier, seed):
    quick = tier == "quick"
    specs = [{"name": "directed"}]
    for part in range(4):
        specs.append({"name": "killmaps", "seed": seed, "part": part, "n": 5200 if quick else 31000})
    for part in range(2):
        specs.append({"name": "synthetic-ma", "seed": seed, "part": part, "n": 260 if quick else 1600})
    runs = directed_runs()
    rng = random.Random(seed * 7919 + 21)
    n_random = 6 if quick else 130
    suts = ["tri", "strings", "containers", "colors", "queue_", "printer", "lastcall", "account"]
    for i in range(n_random):
        strat = rng.choice(["FIRST_ORDER_MUTANTS", "FIRST_ORDER_MUTANTS", "CAPPED"] + HOM)
        cfg = {"test_case_output.assertion_minimization": rng.random() < 0.6,
               "test_case_output.filter_assertions_in_subprocess": rng.random() < 0.3}
        if strat == "CAPPED":
            cfg["test_case_output.maximum_mutants"] = rng.choice([5, 12, 25])
        elif strat != "FIRST_ORDER_MUTANTS":
            cfg["test_case_output.mutation_strategy"] = strat
            cfg["test_case_output.mutation_order"] = rng.choice([2, 2, 3])
        runs.append({"sut": rng.choice(suts), "algorithm": rng.choice(["DYNAMOSA", "MOSA", "WHOLE_SUITE", "RANDOM"]),
                     "seed": rng.randrange(1, 10**6), "iterations": rng.choice([4, 6, 8]), "assertion_generation": "MUTATION_ANALYSIS",
                     "config": cfg})
    per = 2 if quick else 6
    # heavy runs (many mutants) first so the pool drains evenly
    for i in range(0, len(runs), per):
        specs.append({"name": "real", "runs": runs[i:i + per]})
    return specs


def directed_runs():
    """The same for every seed: every class named in floors() is hit here."""
    T = "test_case_output."
    runs = []

    def add(sut, algo, seed, it, gen="MUTATION_ANALYSIS", **cfg):
        runs.append({"sut": sut, "algorithm": algo, "seed": seed, "iterations": it, "assertion_generation": gen,
                     "config": {T + k: v for k, v in cfg.items()}})

    # first-order, minimisation on / off, subprocess filtering on (default) / off
    add("tri", "DYNAMOSA", 3, 6, assertion_minimization=True)
    add("tri", "DYNAMOSA", 3, 6, assertion_minimization=False, filter_assertions_in_subprocess=False)
    add("queue_", "MOSA", 5, 6, assertion_minimization=True, filter_assertions_in_subprocess=False)
    add("queue_", "MOSA", 5, 6, assertion_minimization=False)
    add("lastcall", "WHOLE_SUITE", 7, 5, assertion_minimization=True, filter_assertions_in_subprocess=False)
    add("strings", "DYNAMOSA", 11, 6, assertion_minimization=False, filter_assertions_in_subprocess=False)
    add("containers", "DYNAMOSA", 13, 6, assertion_minimization=True, filter_assertions_in_subprocess=False)
    add("printer", "MOSA", 17, 5, assertion_minimization=True, filter_assertions_in_subprocess=False)
    # capped + reordered, time capped
    add("tri", "DYNAMOSA", 19, 6, assertion_minimization=True, maximum_mutants=12, filter_assertions_in_subprocess=False)
    add("lastcall", "DYNAMOSA", 23, 6, assertion_minimization=False, maximum_mutants=20, filter_assertions_in_subprocess=False)
    add("colors", "DYNAMOSA", 29, 6, assertion_minimization=True, maximum_mutants=8, filter_assertions_in_subprocess=False)
    add("strings", "MOSA", 31, 5, assertion_minimization=True, maximum_mutation_time=1, filter_assertions_in_subprocess=False)
    # higher order
    add("tri", "DYNAMOSA", 37, 6, assertion_minimization=True, mutation_strategy="FIRST_TO_LAST", mutation_order=2,
        filter_assertions_in_subprocess=False)
    add("queue_", "DYNAMOSA", 41, 6, assertion_minimization=False, mutation_strategy="BETWEEN_OPERATORS", mutation_order=2,
        filter_assertions_in_subprocess=False)
    add("lastcall", "MOSA", 43, 5, assertion_minimization=True, mutation_strategy="RANDOM", mutation_order=2,
        filter_assertions_in_subprocess=False)
    add("containers", "DYNAMOSA", 47, 6, assertion_minimization=True, mutation_strategy="EACH_CHOICE", mutation_order=3,
        filter_assertions_in_subprocess=False)
    # floats: -0.0 / nan / inf / complex values in assertions
    add("floats", "DYNAMOSA", 53, 6, assertion_minimization=True, filter_assertions_in_subprocess=False)
    # a mutant that does not terminate (capped so that at most a few time out)
    add("looper", "DYNAMOSA", 59, 4, assertion_minimization=True, maximum_mutants=14, filter_assertions_in_subprocess=False)
    # stateful module (class-level counter): decides (b) and (c) only
    add("account", "DYNAMOSA", 61, 6, assertion_minimization=True, filter_assertions_in_subprocess=False)
    # plain assertion generation: part (a) only
    add("tri", "DYNAMOSA", 67, 6, gen="SIMPLE", filter_assertions_in_subprocess=False)
    add("queue_", "MOSA", 71, 6, gen="SIMPLE")
    add("containers", "WHOLE_SUITE", 73, 5, gen="SIMPLE", filter_assertions_in_subprocess=False)
    # state that differs between executions: in the filtering execution one statement has failing AND erroring assertions
    # (Ticket: serial fails, slot_<n> raises AttributeError), others only failing (next_id) / only erroring (Ghost)
    add("tickets", "DYNAMOSA", 79, 6, gen="SIMPLE", filter_assertions_in_subprocess=False)
    add("tickets", "MOSA", 83, 6, gen="SIMPLE", filter_assertions_in_subprocess=False)
    add("tickets", "WHOLE_SUITE", 89, 5, gen="SIMPLE", filter_assertions_in_subprocess=False)
    add("tickets", "DYNAMOSA", 97, 6, assertion_minimization=True, filter_assertions_in_subprocess=False)
    add("tickets", "MOSA", 101, 6, assertion_minimization=False, filter_assertions_in_subprocess=False)
    add("tickets", "DYNAMOSA", 103, 8, assertion_minimization=True, maximum_mutants=20, filter_assertions_in_subprocess=False)
    return runs


# =====================================================================================================================
# (a') kill maps
# =====================================================================================================================
def _keys(rng, n):
    pool = [(s, a) for s in range(7) for a in range(4)]
    return sorted(rng.sample(pool, n))


def gen_kill_map(rng, shape=None):
    shape = shape or rng.choice(["uniform", "uniform", "sparse", "duplicates", "nested", "disjoint", "greedy-trap", "all-empty",
                                 "empty-map", "dense"])
    n_keys = rng.randint(0, 12)
    n_mut = rng.randint(0, 20)
    muts = list(range(n_mut))
    km: dict = {}
    if shape == "empty-map" or n_keys == 0:
        return {}, "empty-map"
    keys = _keys(rng, n_keys)
    if shape == "all-empty" or n_mut == 0:
        return {k: set() for k in keys}, "all-empty-kill-sets"
    if shape in ("uniform", "sparse", "dense"):
        p = {"uniform": 0.3, "sparse": 0.08, "dense": 0.7}[shape]
        km = {k: {m for m in muts if rng.random() < p} for k in keys}
    elif shape == "duplicates":
        base = [{m for m in muts if rng.random() < 0.3} for _ in range(max(1, n_keys // 3))]
        km = {k: set(rng.choice(base)) for k in keys}
    elif shape == "nested":
        order = muts[:]
        rng.shuffle(order)
        km = {k: set(order[: rng.randint(0, n_mut)]) for k in keys}
    elif shape == "disjoint":
        owner = {m: rng.choice(keys + [None]) for m in muts}
        km = {k: {m for m in muts if owner[m] == k} for k in keys}
    elif shape == "greedy-trap":
        # one big set greedy takes first, fully covered by smaller ones that are needed anyway
        km = {k: set() for k in keys}
        if n_keys >= 3 and n_mut >= 6:
            ks = rng.sample(keys, 3)
            a, b, c, d, e, f = rng.sample(muts, 6)
            km[ks[0]] = {a, b, c, d}
            km[ks[1]] = {a, b, e}
            km[ks[2]] = {c, d, f}
            for k in keys:
                if k not in ks and rng.random() < 0.4:
                    km[k] = set(rng.sample(muts, rng.randint(0, 3)))
        else:
            km = {k: {m for m in muts if rng.random() < 0.3} for k in keys}
    return km, shape


def check_kill_map(ctx, km, shape):
    import pynguin.assertion.assertiongenerator as ag

    frozen = {k: frozenset(v) for k, v in km.items()}
    case = {"kill_map": [[list(k), sorted(v)] for k, v in sorted(km.items())], "shape": shape}
    try:
        keep = ag._select_minimal_assertions(km)
    except Exception as e:  # noqa: BLE001
        ctx.witness(f"select:raises-{type(e).__name__}", f"_select_minimal_assertions raised {e!r}", case)
        return
    universe = set().union(*frozen.values()) if frozen else set()
    cls = ["killmap", f"killmap:{shape}"]
    keep = set(keep)
    case["selected"] = sorted(list(k) for k in keep)
    if not keep <= set(frozen):
        ctx.witness("select:selected-key-not-in-map", f"selected {sorted(keep - set(frozen))} are not assertion keys", case)
    else:
        covered = set().union(*(frozen[k] for k in keep)) if keep else set()
        if covered != universe:
            ctx.witness("select:kill-lost", f"mutants {sorted(universe - covered)} are killed by the full set but by no selected assertion", case)
        if any(not frozen[k] for k in keep):
            ctx.witness("select:selected-assertion-kills-nothing", "an assertion with an empty kill set was selected", case)
        if {k: frozenset(v) for k, v in km.items()} != frozen:
            ctx.anomaly("select:input-kill-map-mutated")
        # irredundancy is what the docstring promises, not what the property demands
        for k in keep:
            others = set().union(*(frozen[o] for o in keep if o != k)) if len(keep) > 1 else set()
            if frozen[k] <= others:
                ctx.anomaly("select:redundant-assertion-kept")
                break
        # did greedy alone pick something the pruning pass had to drop?  (class only)
        greedy = _reference_greedy(frozen)
        if len(greedy) > len(keep):
            cls.append("killmap:pruning-needed")
    nontrivial = len(universe) >= 1 and len(frozen) >= 2
    ctx.ok(cls=cls, distinct=case["kill_map"] if nontrivial else None)
    if len(ctx.samples) < 1 and nontrivial and len(keep) >= 2 and len(frozen) <= 6:
        ctx.sample({"part": "killmap", **case})


def _reference_greedy(frozen):
    cand = {k: v for k, v in frozen.items() if v}
    uncovered = set().union(*cand.values()) if cand else set()
    keep = []
    while uncovered:
        best = max(sorted(cand), key=lambda k: (len(cand[k] & uncovered), [-x for x in k]), default=None)
        if best is None or not (cand[best] & uncovered):
            break
        keep.append(best)
        uncovered -= cand.pop(best)
    return keep


# =====================================================================================================================
# shared evaluation of one "mutation-analysis" observation (real run or synthetic)
# =====================================================================================================================
def _viol(r):
    out = set()
    for d in (r["failed"], r["error"]):
        for p, idxs in d.items():
            for i in idxs:
                out.add((int(p), int(i)))
    return out


def columns(ev):
    results = ev["results"]
    nm = len(ev["summary"])
    timed_out = [any(row[j] is not None and row[j]["timeout"] for row in results) for j in range(nm)]
    return nm, timed_out


def eval_mutation_analysis(ctx, ev, case, kind):
    """kind: 'real' | 'synthetic'."""
    mode = "on" if ev["minimization"] else "off"
    tests, results, kept = ev["tests"], ev["results"], ev["kept"]
    if ev.get("raised"):
        ctx.witness(f"remove-non-relevant:raises-{ev['raised'].split(':')[0]}:minimization-{mode}",
                    f"__remove_non_relevant_assertions raised {ev['raised'][:200]}", case)
        return False
    if any(len(row) != len(ev["summary"]) for row in results):
        ctx.inconclusive_because(f"[{kind}] result matrix and summary disagree in shape: {case}")
        return False
    nm, timed_out = columns(ev)
    if ev["foreign_assertions_after"]:
        ctx.witness(f"kept-assertion-not-in-original:minimization-{mode}",
                    f"{ev['foreign_assertions_after']} assertion object(s) present afterwards were not on the statement before", case)
    if ev["statements_after"] != [len(t) for t in tests]:
        ctx.witness(f"statement-count-changed:minimization-{mode}", "assertion filtering changed the number of statements", case)
        return False
    keptsets = [{(si, i) for si, row in enumerate(kt) for i in row} for kt in kept]
    # statements that still carry an exception assertion afterwards
    kept_exc_stmt = [
        {si for si, row in enumerate(kt) if any(tests[ti][si]["assertions"][i]["cls"] == "ExceptionAssertion" for i in row)}
        for ti, kt in enumerate(kept)
    ]
    full_kill, kept_kill = set(), set()
    per_test_lost = 0
    example = None
    for j in range(nm):
        if timed_out[j]:
            continue
        for ti, row in enumerate(results):
            r = row[j]
            if r is None:
                continue
            v = _viol(r)
            if not v:
                continue
            full_kill.add(j)
            still = bool(v & keptsets[ti]) or any(int(p) not in kept_exc_stmt[ti] for p in r["exc"])
            if still:
                kept_kill.add(j)
            else:
                per_test_lost += 1
                example = example or {"test": ti, "mutant_column": j, "violated": sorted(v), "kept": sorted(keptsets[ti])}
    lost = sorted(full_kill - kept_kill)
    ctx.ok(n=max(1, len(full_kill)), cls=[f"kill-preserved:{kind}", f"kill-preserved:minimization-{mode}"])
    if lost:
        c = dict(case)
        c.update({"lost_mutant_columns": lost[:10], "example": example,
                  "tests": [[{"code": s["code"], "assertions": [a["repr"] for a in s["assertions"]]} for s in t] for t in tests][:4],
                  "kept": kept[:4]})
        ctx.witness(f"kill-lost:assertion-minimization-{mode}",
                    f"[{kind}] {len(lost)} mutant(s) killed by an assertion of the full set are killed by no kept assertion of the suite", c)
    elif per_test_lost:
        ctx.anomaly(f"per-test-kill-lost-but-suite-still-kills:minimization-{mode}", per_test_lost)
    if ev["minimization"]:
        # documented, not demanded: assertions that kill nothing are dropped (except on exception-only statements)
        useless = 0
        for ti, ks in enumerate(keptsets):
            for (si, i) in ks:
                if tests[ti][si]["only_exception"]:
                    continue
                if not any((si, i) in _viol(results[ti][j]) for j in range(nm) if not timed_out[j] and results[ti][j] is not None):
                    useless += 1
        if useless:
            ctx.anomaly("kept-assertion-kills-nothing:minimization-on", useless)
    return True


def recompute_score(ev_ma):
    """Two readings of 'killed' (the statement does not define it): 'any' = a violated assertion or any raised exception (what
    the code does), 'strict' = a violated assertion or an exception at a statement without a matching exception assertion."""
    nm, timed_out = columns(ev_ma)
    killed_any, killed_strict = [], []
    for j in range(nm):
        k_any = k_strict = False
        for ti, row in enumerate(ev_ma["results"]):
            r = row[j]
            if r is None:
                continue
            if r["failed"] or r["error"]:
                k_any = k_strict = True
            for p, name in r["exc"].items():
                k_any = True
                st = ev_ma["tests"][ti][int(p)] if int(p) < len(ev_ma["tests"][ti]) else None
                if st is None or not st["only_exception"]:
                    k_strict = True
        killed_any.append(k_any and not timed_out[j])
        killed_strict.append(k_strict and not timed_out[j])
    n_to = sum(timed_out)
    div = nm - n_to
    return {"checked": nm, "timeouts": n_to, "killed": sum(killed_any), "killed_strict": sum(killed_strict),
            "score": 1.0 if div == 0 else sum(killed_any) / div, "score_strict": 1.0 if div == 0 else sum(killed_strict) / div,
            "only_expected_exception": sum(killed_any) - sum(killed_strict),
            "killed_then_timed_out": sum(1 for j in range(nm) if timed_out[j] and any(
                row[j] is not None and not row[j]["timeout"] and (row[j]["failed"] or row[j]["error"] or row[j]["exc"]) for row in ev_ma["results"]))}


def eval_score(ctx, reported, ref, case, kind, extra=None):
    """reported: float | ('raised', msg); ref: recompute_score(...)"""
    cls = [f"{kind}-score"]
    if ref["timeouts"]:
        cls.append(f"{kind}-score:with-timeout")
    if ref["checked"] - ref["timeouts"] == 0:
        cls.append(f"{kind}-score:zero-divisor")
    if ref["killed_then_timed_out"]:
        cls.append(f"{kind}-score:killed-then-timed-out")
    for c in extra or []:
        cls.append(f"{kind}-score:{c}")
    ctx.ok(cls=cls)
    c = dict(case)
    c["reference"] = ref
    c["reported"] = reported
    if isinstance(reported, tuple):
        ctx.witness(f"score:raises-{reported[1].split(':')[0]}", f"[{kind}] score computation raised {reported[1][:200]}", c)
        return
    if not isinstance(reported, (int, float)) or reported != reported or not (0.0 <= reported <= 1.0):
        ctx.witness("score:out-of-range", f"[{kind}] mutation score {reported!r} is not in [0, 1]", c)
        return
    if math.isclose(reported, ref["score"], rel_tol=1e-9, abs_tol=1e-12) or math.isclose(reported, ref["score_strict"], rel_tol=1e-9, abs_tol=1e-12):
        return
    n, t, k = ref["checked"], ref["timeouts"], ref["killed"]
    unchecked = c.get("counts", {}).get("unchecked", 0)
    alts = {
        "timeouts-counted-as-kills": (k + t) / (n - t) if n - t else None,
        "timeouts-counted-as-kills-over-all": (k + t) / n if n else None,
        "timeouts-kept-in-divisor": k / n if n else None,
        "unchecked-mutants-in-divisor": k / (n - t + unchecked) if (n - t + unchecked) and unchecked else None,
        "unchecked-and-timeouts-in-divisor": k / (n + unchecked) if (n + unchecked) and unchecked else None,
    }
    why = next((name for name, v in alts.items() if v is not None and math.isclose(reported, v, rel_tol=1e-9)), "other")
    ctx.witness(f"score:differs-from-recomputation:{why}",
                f"[{kind}] reported mutation score {reported!r}, recomputed {ref['score']!r} = {k}/({n}-{t})", c)


# =====================================================================================================================
# (a'') synthetic matrices through the real private methods
# =====================================================================================================================
def synthetic_ma(ctx, rng, forced=None):
    import libcst as cst

    import pynguin.assertion.assertion as ass
    import pynguin.assertion.assertion_trace as at
    import pynguin.assertion.assertiongenerator as ag
    import pynguin.configuration as config
    import pynguin.testcase.testcase as tc

    from pynguin.testcase.execution_result import ExecutionResult
    from vlib.monitors import assertion_gen as mon

    forced = forced or {}
    cls_ = ag.MutationAnalysisAssertionGenerator
    n_tests = forced.get("n_tests", rng.randint(1, 4))
    n_mut = forced.get("n_mut", rng.choice([0, 1, 2, 3, 5, 8, 12]))
    minimization = forced.get("minimization", rng.random() < 0.5)
    tests = []
    for _ in range(n_tests):
        t = tc.TestCase()
        for si in range(rng.randint(1, 6)):
            name = t.next_var_name()
            node = cst.parse_module(f"{name} = {si}\n").body[0]
            st = tc.Statement(node=node, bound_variable=name, bound_type=int)
            r = rng.random()
            if r < 0.15:
                st.assertions.append(ass.ExceptionAssertion("builtins", "ValueError"))
            elif r < 0.85:
                for ai in range(rng.randint(1, 4)):
                    st.assertions.append(ass.ObjectAssertion(name, 100 * si + ai))
            t.add_statement(st)
        tests.append(t)
    p_to = forced.get("p_timeout", rng.choice([0.0, 0.0, 0.1, 0.3]))
    matrix = [[None] * n_mut for _ in tests]
    n_aborted = 0
    for j in range(n_mut):
        timed = False
        style = rng.random()
        for ti, t in enumerate(tests):
            if timed:
                matrix[ti][j] = None  # _abort_after_first_timeout pads with None
                n_aborted += 1
                continue
            if rng.random() < p_to:
                matrix[ti][j] = ExecutionResult(timeout=True)
                timed = True
                continue
            res = ExecutionResult()
            vt = at.AssertionVerificationTrace()
            stmts = t.statements()
            if style > 0.25:
                for si, st in enumerate(stmts):
                    for ai in range(len(st.assertions)):
                        if rng.random() < (0.12 if style < 0.8 else 0.5):
                            (vt.failed if rng.random() < 0.7 else vt.error)[si].add(ai)
            if rng.random() < 0.15:
                pos = rng.randrange(len(stmts))
                res.report_new_thrown_exception(pos, ValueError("synthetic") if rng.random() < 0.5 else KeyError("synthetic"))
            res.assertion_verification_trace = vt
            matrix[ti][j] = res
    case = {"part": "synthetic-ma", "n_tests": n_tests, "n_mutants": n_mut, "minimization": minimization}
    cfg = config.configuration.test_case_output
    saved = cfg.assertion_minimization
    cfg.assertion_minimization = minimization
    events: list = []
    try:
        try:
            summary = getattr(cls_, mon.MANGLE + "compute_mutation_summary")(n_mut, matrix)
        except Exception as e:  # noqa: BLE001
            ctx.witness(f"compute-summary:raises-{type(e).__name__}", f"__compute_mutation_summary raised {e!r}", case)
            return
        # --- score ---
        try:
            reported = summary.get_metrics().get_score()
        except BaseException as e:  # noqa: BLE001
            reported = ("raised", f"{type(e).__name__}: {e}")
        try:
            mon.recorded_remove(getattr(cls_, mon.MANGLE + "remove_non_relevant_assertions"), tests, matrix, summary, events)
        except Exception:  # noqa: BLE001 - recorded in the event, judged below
            pass
    finally:
        cfg.assertion_minimization = saved
    ev = events[0]
    case["matrix"] = [[None if r is None else ("T" if r["timeout"] else [sorted(_viol(r)), sorted(r["exc"])]) for r in row] for row in ev["results"]]
    case["assertions_per_statement"] = [[len(s["assertions"]) if not s["only_exception"] else "E" for s in t] for t in ev["tests"]]
    ref = recompute_score(ev)
    eval_score(ctx, reported, ref, case, "synthetic", extra=["with-aborted-none"] if n_aborted else None)
    # the summary itself: timed-out and killed sets as the statement reads them
    _, timed_out = columns(ev)
    got_to = [bool(m["timed_out_by"]) for m in ev["summary"]]
    if got_to != timed_out:
        ctx.witness("summary:timed-out-set-differs", f"summary marks {got_to} as timed out, raw results say {timed_out}", case)
    ok = eval_mutation_analysis(ctx, ev, case, "synthetic")
    ctx.ok(cls=f"synthetic-ma:minimization-{'on' if minimization else 'off'}", distinct=case if n_mut and ok else None)
    if len(ctx.samples) < 2 and 3 <= n_mut <= 5 and n_tests <= 2:
        ctx.sample({k: case[k] for k in ("part", "minimization", "assertions_per_statement")} | {"kept": ev["kept"], "score": reported, "reference": ref})


# =====================================================================================================================
# (b') real runs
# =====================================================================================================================
def run_real(ctx, run, proj, idx, env_extra=None):
    from vlib.pyndriver import run_pipeline

    out = ctx.scratch / f"out{idx}"
    spec = {"module": run["sut"], "project_path": str(proj), "output_path": str(out), "algorithm": run["algorithm"],
            "seed": run["seed"], "budget": {"maximum_iterations": run["iterations"]},
            "assertion_generation": run["assertion_generation"], "config": dict(run.get("config") or {}),
            "monitors": ["vlib.monitors.assertion_gen"]}
    res = run_pipeline(spec, timeout=300, env_extra=env_extra)
    tag = f"{run['sut']}:{run['algorithm']}:seed={run['seed']}:{run['assertion_generation']}"
    case = {"run": run}
    if res.get("timeout"):
        ctx.inconclusive_because(f"{tag}: driver timeout (inconclusive)")
        return
    if res.get("exception"):
        ctx.inconclusive_because(f"{tag}: pipeline raised {res['exception'][:200]} {res.get('traceback', '')[-300:]}")
        return
    evs = res.get("events", [])
    calls = next((e for e in evs if e.get("ev") == "monitor-calls" and e.get("monitor") == "assertion_gen"), None)
    for e in evs:
        if e.get("ev") == "monitor-finish-failed":
            ctx.inconclusive_because(f"{tag}: monitor finish failed {e['error']}")
    if calls is None or calls.get("generate_assertions", 0) == 0:
        ctx.inconclusive_because(f"{tag}: the deciding monitor saw no call (rc={res.get('rc')})")
        return
    cfg = run.get("config") or {}
    T = "test_case_output."
    gen = run["assertion_generation"]
    cls = ["real-run", f"real-run:{gen}" if gen != "MUTATION_ANALYSIS" else "real-run:mutation-analysis"]
    ma = next((e for e in evs if e.get("ev") == "mutation-analysis"), None)
    sc = next((e for e in evs if e.get("ev") == "mutation-score"), None)
    if gen == "MUTATION_ANALYSIS":
        if ma is None or sc is None or not calls.get("remove_non_relevant") or not calls.get("report_summary"):
            ctx.inconclusive_because(f"{tag}: mutation analysis monitors saw no call ({calls})")
            return
        strat = cfg.get(T + "mutation_strategy", "FIRST_ORDER_MUTANTS")
        cls.append(f"real-run:minimization-{'on' if ma['minimization'] else 'off'}")
        if strat == "FIRST_ORDER_MUTANTS":
            capped = cfg.get(T + "maximum_mutants", -1) >= 0 or cfg.get(T + "maximum_mutation_time", -1) >= 0
            cls.append("real-run:capped-reordered" if capped else "real-run:first-order")
        else:
            cls += ["real-run:hom", f"real-run:hom:{strat}"]
        if not ma["tests"]:
            ctx.anomaly("real-run:empty-suite")
        ok = eval_mutation_analysis(ctx, ma, case, "real")
        # ---- score
        ref = recompute_score(ma)
        mutants = sc["mutants"]
        n_calls, n_checked = len(mutants), sum(1 for m in mutants if m["checked"])
        counts = {"created_arg": sc["num_created_arg"], "execute_calls": n_calls, "checked_independent": n_checked,
                  "unchecked": sc["num_created_arg"] - n_checked, "columns": ref["checked"]}
        case_s = dict(case)
        case_s["counts"] = counts
        case_s["tracked"] = sc["tracked"]
        reported = sc["tracked"].get("MutationScore", ("raised", sc.get("score_raised", "MutationScore was never tracked")))
        extra = []
        if counts["unchecked"]:
            extra.append("with-unchecked")
        eval_score(ctx, reported, ref, case_s, "real", extra=extra)
        if n_checked != ref["checked"]:
            ctx.witness("score:unchecked-mutant-got-a-column" if ref["checked"] > n_checked else "score:checked-mutant-lost-its-column",
                        f"{n_checked} mutants were executed but the result matrix has {ref['checked']} columns", case_s)
        tr = sc["tracked"]
        if tr.get("NumberOfCheckedMutants") != n_checked:
            ctx.witness("score:NumberOfCheckedMutants-differs", f"tracked {tr.get('NumberOfCheckedMutants')} executed {n_checked}", case_s)
        if tr.get("NumberOfTimedOutMutants") != ref["timeouts"]:
            ctx.witness("score:NumberOfTimedOutMutants-differs", f"tracked {tr.get('NumberOfTimedOutMutants')} raw results {ref['timeouts']}", case_s)
        if tr.get("NumberOfKilledMutants") not in (ref["killed"], ref["killed_strict"]):
            ctx.witness("score:NumberOfKilledMutants-differs", f"tracked {tr.get('NumberOfKilledMutants')} raw results {ref['killed']} (strict reading {ref['killed_strict']})", case_s)
        if ref["only_expected_exception"] and tr.get("NumberOfKilledMutants") == ref["killed"]:
            ctx.anomaly("score:mutant-counted-killed-only-because-an-expected-exception-was-raised", ref["only_expected_exception"])
            ctx.count("mutants_killed_only_by_expected_exception", ref["only_expected_exception"])
        ctx.count("mutants_checked", ref["checked"])
        ctx.count("mutants_timed_out", ref["timeouts"])
        ctx.count("mutants_unchecked", counts["unchecked"])
    # ---- (a) re-execution on the unmutated module
    rx = next((e for e in evs if e.get("ev") == "reexec"), None)
    if rx is None:
        ctx.inconclusive_because(f"{tag}: no re-execution event")
        return
    deciding = run["sut"] in SUTS_DECIDING_REEXEC
    fl = rx.get("filter") or {}
    if not fl.get("calls"):
        ctx.inconclusive_because(f"{tag}: the filtering-pass monitor saw no call")
        return
    for c_ in FILTER_CLASSES:
        if fl.get(c_):
            ctx.cls(f"filter:{gen}:{c_}", fl[c_])
    ctx.count("filter:assertions_removed", fl.get("removed", 0))
    for t in rx["tests"]:
        if "harness_error" in t:
            ctx.inconclusive_because(f"{tag}: re-execution failed in the harness: {t['harness_error'][:200]}")
            continue
        r = t["result"]
        n_ass = sum(len(s["assertions"]) for s in t["stmts"])
        if r["timeout"]:
            ctx.anomaly("reexec:no-result-(timeout-or-aborted-thread)")
            continue
        bad = [(p, i, "failed") for (p, i) in sorted({(int(p), i) for p, v in r["failed"].items() for i in v})]
        bad += [(p, i, "error") for (p, i) in sorted({(int(p), i) for p, v in r["error"].items() for i in v})]
        if deciding:
            ctx.ok(cls="reexec:test")
            ctx.ok(n=n_ass, cls="reexec:assertion")
        for (p, i, how) in bad:
            st = t["stmts"][p] if p < len(t["stmts"]) else None
            a = st["assertions"][i] if st and i < len(st["assertions"]) else {"cls": "?", "repr": "?"}
            if not deciding:
                ctx.anomaly(f"reexec:stateful-module:assertion-{how}")
                continue
            c = dict(case)
            c.update({"statement": st["code"] if st else None, "assertion": a["repr"], "position": [p, i],
                      "test": [s["code"] for s in t["stmts"]][: p + 1]})
            ctx.witness(f"kept-assertion-does-not-hold:{how}:{a['cls']}:{gen}",
                        f"[{tag}] assertion {a['repr']} after `{st['code'] if st else '?'}` {how} when the final test was re-executed on the unmutated module", c)
    ctx.ok(cls=cls, distinct=run)
    if len(ctx.samples) < 4 and ma is not None:
        nb = sum(len(s["assertions"]) for t in ma["tests"] for s in t)
        na = sum(len(r) for t in ma["kept"] for r in t)
        ctx.sample({"run": run, "tests": len(ma["tests"]), "mutants_checked": len(ma["summary"]), "assertions_before": nb,
                    "assertions_kept": na, "score": sc["tracked"].get("MutationScore"), "wall_s": res.get("wall_s")})
    ctx.note(f"wall_s:{run['sut']}", res.get("wall_s"))


def prepare_project(ctx):
    from vlib import sut_corpus

    proj = sut_corpus.copy_to(ctx.scratch / "proj")
    sut_corpus.copy_to(proj, names=sut_corpus.STATE_BETWEEN_EXECUTIONS)
    (proj / "looper.py").write_text(LOOPER)
    return proj


def directed_in_process(ctx):
    rng = random.Random(2121)
    for shape, n in [("empty-map", 30), ("all-empty", 30), ("duplicates", 150), ("nested", 150), ("disjoint", 150), ("greedy-trap", 400)]:
        for _ in range(n):
            km, sh = gen_kill_map(rng, shape)
            check_kill_map(ctx, km, sh)
    # hand-written maps
    for km, sh in [
        ({(0, 0): {1, 2, 3, 4}, (0, 1): {1, 2, 5}, (1, 0): {3, 4, 6}}, "greedy-trap"),
        ({(0, 0): {1}, (0, 1): {1}, (0, 2): {1}}, "duplicates"),
        ({(2, 0): set(), (2, 1): {0}}, "nested"),
        ({(5, 3): {0, 1, 2}, (0, 0): {0}, (1, 1): {1}, (2, 2): {2}}, "greedy-trap"),
    ]:
        check_kill_map(ctx, km, sh)
    for minim in (True, False):
        for p_to in (0.0, 0.3, 0.6, 1.0):
            for n_mut in (0, 1, 4, 9):
                for _ in range(6):
                    synthetic_ma(ctx, rng, {"minimization": minim, "p_timeout": p_to, "n_mut": n_mut})


def run_chunk(spec, ctx):
    name = spec["name"]
    if name == "directed":
        directed_in_process(ctx)
    elif name == "killmaps":
        rng = random.Random(spec["seed"] * 1_000_003 + spec["part"] * 7919 + 5)
        for _ in range(spec["n"]):
            km, sh = gen_kill_map(rng)
            check_kill_map(ctx, km, sh)
    elif name == "synthetic-ma":
        rng = random.Random(spec["seed"] * 1_000_003 + spec["part"] * 104729 + 9)
        for _ in range(spec["n"]):
            synthetic_ma(ctx, rng)
    elif name == "real":
        proj = prepare_project(ctx)
        for i, run in enumerate(spec["runs"]):
            run_real(ctx, run, proj, i, env_extra=spec.get("env_extra"))


def finalize(total):
    homs = sorted(c for c in total.classes if c.startswith("real-run:hom:"))
    total.note("hom_strategies_observed", homs)
    if total.classes.get("real-run", 0) and len(homs) < 2:
        total.inconclusive_because(f"fewer than two higher-order mutation strategies were exercised: {homs}")
