"""C22 - statement minimisation preserves coverage, adds nothing, keeps asserted statements.

Real pipelines (``vlib.pyndriver`` + ``vlib.monitors.minimize``) on the SUT corpus for every minimisation strategy
{CASE, SUITE, COMBINED} x direction {FORWARD, BACKWARD} (+ a few NONE / post_process=False controls), assertion generation
SIMPLE / MUTATION_ANALYSIS / NONE, single- and multi-metric searches.  The monitor snapshots the suite around
``pynguin.generator._minimize``, recomputes every optimised coverage function FROM SCRATCH (fresh suite chromosome, fresh
executor, nothing cached) before and after, and attributes every lost asserted statement to the step that lost it.

Oracle (parent side, from the raw snapshots):
  1. coverage after == coverage before for every optimised coverage function (math.isclose);
  2. every statement of a minimised test is textually a statement of the test it came from (or the right-hand side of one of
     its simple assignments: dropping the unused target ``var_3 = f()`` -> ``f()`` is what UnusedStatementsTestCaseVisitor is
     for and is not "a new statement");
  3. every statement that binds a variable some reference assertion of its test refers to is still there, binding the same
     variable with the same text.  The before/after diff decides; the monitor's step log only supplies the mechanism key.
"""

from __future__ import annotations

import collections
import math
import random

ID = "C22"
LEVEL = "exploration"
IN_PROCESS = False
CHUNK_TIMEOUT = 2400
RULE = (
    "real searches (DYNAMOSA/MOSA/WHOLE_SUITE/MIO/RANDOM, 4-8 iterations, 9 tiny SUT modules, BRANCH or BRANCH+LINE) followed by "
    "SIMPLE / MUTATION_ANALYSIS / no assertion generation, minimised with every strategy {CASE, SUITE, COMBINED} x direction "
    "{FORWARD, BACKWARD} in a fresh interpreter; a monitor around generator._minimize snapshots all statements+assertions and "
    "recomputes each optimised coverage function from scratch (fresh chromosomes, fresh executor) before and after; oracle: "
    "coverage equal, no statement text that was not in the originating test (modulo dropping an unused assignment target), every "
    "statement whose bound variable is referred to by a reference assertion still present; each loss is attributed to the step "
    "that caused it (remove_unused_variables / iterative visitor / suite visitor / combined visitor / truncation); distinct = run spec"
)
ASSUMPTIONS = [
    "a statement 'whose variable is asserted on' = it binds v and some ReferenceAssertion of the same test has source v or v.<attr>; "
    "ExceptionAssertions have no variable",
    "a statement is kept when the same test-case object, still referenced by the suite, contains a statement binding the same "
    "variable with the same text; turning 'v = f()' into 'f()' loses the variable the assertion refers to and counts as lost",
    "rewriting 'v = expr' into 'expr' is not a new statement (compared by right-hand side text)",
    "from-scratch coverage uses a new TestCaseExecutor on the run's SubjectProperties and a shallow copy of each coverage function; "
    "the deciding SUT modules are deterministic (rng_user is not used)",
    "removing a whole test case (SUITE strategy) removes its asserted statements as well; the statement makes no exception for it, "
    "so it is reported under its own mechanism key",
    "a driver timeout or a run that dies is inconclusive",
]

STRATEGIES = ["CASE", "SUITE", "COMBINED"]
DIRECTIONS = ["FORWARD", "BACKWARD"]
SUTS = ["tri", "strings", "containers", "account", "colors", "queue_", "printer", "lastcall", "floats"]
M = "test_case_output.minimization."


def floors(tier):
    k = 1 if tier == "quick" else 6
    cl = {f"run:{s}:{d}": 5 * k for s in STRATEGIES for d in DIRECTIONS}
    cl.update({
        "run": 36 * k, "run:NONE": 1, "assertions:SIMPLE": 20 * k, "assertions:MUTATION_ANALYSIS": 3 * k, "assertions:NONE": 2 * k,
        "coverage-function:TestSuiteBranchCoverageFunction": 36 * k, "coverage-function:TestSuiteLineCoverageFunction": 8 * k,
        "asserted-statement": 300 * k, "statement-after": 300 * k, "suite-with-removed-test": 1,
        "asserted-leaf-of-chain:len=3": 12, "asserted-leaf-of-chain:len=4": 12, "asserted-leaf-of-chain:len=5": 12,
        "chain-coverage-redundant": 30, "chain-coverage-redundant:real": 3 * k, "asserted-leaf-of-chain:real": 6 * k,
        **{f"chain-coverage-redundant:{s_}:{d_}": 3 for s_ in STRATEGIES for d_ in DIRECTIONS},
        "directed:chain3": 8, "directed:chain4": 8, "directed:chain5": 8, "directed:chain-through-collections": 8, "directed:shared-prefix": 8,
        "directed:bare-unused": 8, "directed:dotted-only": 8, "directed:dependency": 8, "directed:unasserted": 8,
    })
    return {"evals": 1500 * k, "distinct": 36 * k, "classes": cl}


def directed_runs():
    runs = []
    algos = ["DYNAMOSA", "MOSA", "WHOLE_SUITE", "DYNAMOSA", "MIO", "DYNAMOSA"]
    i = 0
    for rep in range(6):
        for s in STRATEGIES:
            for d in DIRECTIONS:
                algo = algos[(rep + i) % len(algos)]
                sut = SUTS[(i * 2 + rep) % len(SUTS)]
                gen = "MUTATION_ANALYSIS" if (i % 11 == 5) else ("NONE" if i % 13 == 7 else "SIMPLE")
                run = {"sut": sut, "algorithm": algo, "seed": 100 + i, "iterations": [5, 6, 8][i % 3], "assertion_generation": gen,
                       "strategy": s, "direction": d}
                if algo != "DYNAMOSA" and i % 2 == 0:
                    run["coverage_metrics"] = ["BRANCH", "LINE"]
                runs.append(run)
                i += 1
    # long chains of unasserted builtin collections ending in an asserted int; branch-free, hence coverage-redundant
    k = 0
    for s in STRATEGIES:
        for d in DIRECTIONS:
            runs.append({"sut": "chains", "algorithm": ["DYNAMOSA", "MOSA", "DYNAMOSA"][k % 3], "seed": 500 + k, "iterations": 8,
                         "assertion_generation": "SIMPLE", "strategy": s, "direction": d})
            k += 1
    runs.append({"sut": "tri", "algorithm": "DYNAMOSA", "seed": 7, "iterations": 5, "assertion_generation": "SIMPLE", "strategy": "NONE",
                 "direction": "BACKWARD"})
    runs.append({"sut": "queue_", "algorithm": "MOSA", "seed": 8, "iterations": 5, "assertion_generation": "SIMPLE", "strategy": "CASE",
                 "direction": "BACKWARD", "post_process": False})
    # the per-test minimiser swaps covered goals (same coverage value, different covered set): the suite-level post-check of
    # _minimize sees a different coverage and takes the restore path
    runs.append({"sut": "queue_", "algorithm": "RANDOM", "seed": 831077, "iterations": 4, "assertion_generation": "SIMPLE", "strategy": "SUITE",
                 "direction": "FORWARD", "coverage_metrics": ["BRANCH", "LINE"]})
    # same mechanism under CASE: `deposit(422)` is removed because `rate()` then covers the *other* branch of `balance > 100`
    # (same per-test coverage value); no other test covers the lost branch and the post-check reads the cached 1.0
    runs.append({"sut": "account", "algorithm": "DYNAMOSA", "seed": 168789, "iterations": 6, "assertion_generation": "SIMPLE", "strategy": "CASE",
                 "direction": "BACKWARD"})
    return runs


def plan(tier, seed):
    quick = tier == "quick"
    runs = directed_runs()
    rng = random.Random(seed * 104729 + 22)
    for _ in range(10 if quick else 240):
        algo = rng.choice(["DYNAMOSA", "DYNAMOSA", "MOSA", "WHOLE_SUITE", "MIO", "RANDOM"])
        run = {"sut": rng.choice(SUTS), "algorithm": algo, "seed": rng.randrange(1, 10**6), "iterations": rng.choice([4, 6, 8]),
               "assertion_generation": rng.choice(["SIMPLE", "SIMPLE", "SIMPLE", "MUTATION_ANALYSIS", "NONE"]),
               "strategy": rng.choice(STRATEGIES), "direction": rng.choice(DIRECTIONS)}
        if algo != "DYNAMOSA" and rng.random() < 0.5:
            run["coverage_metrics"] = ["BRANCH", "LINE"]
        runs.append(run)
    per = 3 if quick else 8
    return [{"name": "directed-visitors"}] + [{"name": "real", "runs": runs[i:i + per]} for i in range(0, len(runs), per)]


# --------------------------------------------------------------------------------------------------------------------
def asserted_bindings(stmts):
    sources = [a["source"] for s in stmts for a in s["assertions"] if isinstance(a.get("source"), str)]
    bare = set(sources)
    roots = {s.split(".", 1)[0] for s in sources if "." in s}
    out = {}
    for s in stmts:
        v = s["bound"]
        if v is not None and (v in bare or v in roots):
            out[v] = {"code": s["code"], "tag": "bare" if v in bare else "dotted"}
    return out


def loss_key(l):
    step = l["step"]
    if step == "remove_unused_variables":
        return "asserted-statement-lost:remove_unused_variables"
    if step.startswith("iterative"):
        if l.get("asserted_at_entry") == "dotted" and l.get("real_protected_at_entry") is False:
            sub = "dotted-source-unprotected"
        elif l.get("protected_at_entry"):
            sub = "protected-statement-removed"
        elif l.get("asserted_at_entry") is None:
            sub = "assertions-stripped-earlier"
        else:
            sub = "unprotected-other"
        return f"asserted-statement-lost:{step}:{sub}"
    if step == "combined-visitor":
        if not l.get("protection_consulted"):
            return "asserted-statement-lost:combined-ignores-protection"
        # the visitor does consult get_assertion_protected_variables: what else removed a protected statement?
        if l.get("protected_at_entry") and l.get("carrier_statements_removed"):
            # the assertion on v was attached to ANOTHER statement; that statement was removed, the assertion went with it,
            # and the protection set recomputed in the next pass no longer contains v
            return "asserted-statement-lost:combined-visitor:assertion-carrier-removed"
        return "asserted-statement-lost:combined-visitor:" + ("protected-statement-removed" if l.get("protected_at_entry") else "unprotected")
    if step == "suite-visitor":
        return "asserted-statement-lost:suite-visitor-removes-whole-test" if l.get("test_removed_from_suite") else "asserted-statement-lost:suite-visitor"
    return f"asserted-statement-lost:{step}"


def evaluate(ctx, run, ev, tag):
    strategy, direction = ev["strategy"], ev["direction"]
    case = {"run": run}
    if not ev.get("post_process", True):
        strategy_cls = "post_process-off"
    else:
        strategy_cls = strategy
    # ---- 1. coverage ------------------------------------------------------------------------
    cb, ca = ev.get("cov_before") or {}, ev.get("cov_after") or {}
    if "harness_error" in ca:
        ctx.inconclusive_because(f"{tag}: coverage recomputation failed: {ca['harness_error'][:200]}")
        return
    decided = 0
    for name, before in cb.items():
        if name.endswith(":timeouts") or name == "name_errors":
            continue
        after = ca.get(name)
        if isinstance(before, str) or isinstance(after, str) or after is None:
            ctx.inconclusive_because(f"{tag}: coverage recomputation raised: {before!r} / {after!r}")
            continue
        if cb.get(name + ":timeouts"):
            # the unminimised suite itself times out when executed from scratch: the reference value is not reliable
            ctx.anomaly("coverage:unminimised-suite-has-timeouts-when-reexecuted")
        decided += 1
        ctx.ok(cls=[f"coverage:{strategy_cls}:{direction}", f"coverage-function:{name}"])
        if not math.isclose(before, after, rel_tol=1e-9, abs_tol=1e-12):
            c = dict(case)
            c.update({"function": name, "before": before, "after": after, "cached_after": (ev.get("cached_after") or {}).get(name),
                      "after_timeouts": ca.get(name + ":timeouts")})
            how = "dropped" if after < before else "increased"
            if how == "dropped" and ev["before"] and not ev["after"]:
                # every test was minimised away: an empty suite has no execution result, hence not even the import coverage
                strategy_cls_key = "suite-minimised-to-empty"
            else:
                strategy_cls_key = strategy_cls
            ctx.witness(f"coverage-{how}:{strategy_cls_key}",
                        f"[{tag}] {name}: {before} before minimisation, {after} after (recomputed from scratch; the pipeline's cached value afterwards is {c['cached_after']})", c)
        cached = (ev.get("cached_after") or {}).get(name)
        if isinstance(cached, (int, float)) and not math.isclose(cached, after, rel_tol=1e-9, abs_tol=1e-12):
            ctx.anomaly(f"post-check-value-differs-from-fresh-recomputation:{strategy_cls}")
    if isinstance(ca.get("name_errors"), int) and ca["name_errors"] > (cb.get("name_errors") or 0):
        c = dict(case)
        c.update({"name_errors_before": cb.get("name_errors"), "name_errors_after": ca["name_errors"],
                  "tests_after": [[s_["code"] for s_ in a_["stmts"]] for a_ in ev["after"]][:6]})
        ctx.witness(f"minimised-test-raises-NameError:{strategy_cls}",
                    f"[{tag}] {ca['name_errors']} test(s) of the minimised suite raise NameError when executed ({cb.get('name_errors') or 0} before)", c)
    for chn in ev.get("chains") or []:
        kind = "directed" if "directed" in run else "real"
        ctx.cls(f"asserted-leaf-of-chain:len={min(chn['len'], 5)}")
        ctx.cls(f"asserted-leaf-of-chain:{kind}")
        if chn.get("redundant"):
            ctx.cls("chain-coverage-redundant")
            ctx.cls(f"chain-coverage-redundant:{kind}")
            ctx.cls(f"chain-coverage-redundant:{strategy_cls}:{direction}")
    pc = ev.get("post_check")
    if pc and not pc["same"]:
        # the pipeline's own post-check saw a different coverage after minimisation and (tries to) restore the suite
        up = any(b > a + 1e-12 for a, b in zip(pc["original"], pc["minimized"]))
        down = any(b < a - 1e-12 for a, b in zip(pc["original"], pc["minimized"]))
        ctx.anomaly(f"pipeline-post-check-saw-coverage-{'drop' if down else 'increase' if up else 'change'}-and-restores:{strategy_cls}")
        ctx.note("post_check_example", {"run": run, "post_check": pc})
        ctx.cls("restore-path-taken")
    if ev.get("raised"):
        exc = ev["raised"].split(":")[0]
        where = "restore-path" if pc and not pc["same"] else "minimisation"
        c = dict(case)
        c.update({"raised": ev["raised"][:300], "post_check": pc})
        ctx.witness(f"minimize-raises:{exc}:{where}",
                    f"[{tag}] generator._minimize raised {ev['raised'][:160]} ({where}); _run logs 'Minimization failed' and skips the rest of post-processing", c)
    # ---- 2. no new statements ---------------------------------------------------------------------
    before, after = ev["before"], ev["after"]
    union_allowed = {x for t in before for s in t for x in (s["code"], s["rhs"])}
    for at in after:
        oi = at["orig_index"]
        if oi is None:
            ctx.anomaly("after-test-not-mapped-by-identity")
            allowed = union_allowed
        else:
            allowed = {x for s in before[oi] for x in (s["code"], s["rhs"])}
        for s in at["stmts"]:
            ctx.ok(cls="statement-after")
            if s["code"] not in allowed:
                c = dict(case)
                c.update({"statement": s["code"], "original_test": [x["code"] for x in (before[oi] if oi is not None else [])][:40]})
                ctx.witness(f"new-statement-appeared:{strategy_cls}", f"[{tag}] minimised test contains `{s['code']}` which is not a statement of the original test", c)
        # assertions must come from the original statement as well
        if oi is not None:
            orig_ass = collections.Counter(a["repr"] for s in before[oi] for a in s["assertions"])
            now_ass = collections.Counter(a["repr"] for s in at["stmts"] for a in s["assertions"])
            if now_ass - orig_ass:
                ctx.anomaly("assertion-appeared-that-was-not-in-original")
    # ---- 3. asserted statements kept ---------------------------------------------------------------
    after_by_orig = {at["orig_index"]: at for at in after if at["orig_index"] is not None}
    identity = ev.get("identity_preserved", True)
    losses = ev.get("losses", [])
    logged = {(l["test"], l["var"]): l for l in losses}
    n_asserted = 0
    removed_tests = 0
    for ti, t in enumerate(before):
        asserted = asserted_bindings(t)
        n_asserted += len(asserted)
        if not identity:
            continue
        at = after_by_orig.get(ti)
        if at is None:
            removed_tests += 1
        have = {}
        for s in (at["stmts"] if at else []):
            if s["bound"] is not None:
                have.setdefault(s["bound"], set()).add(s["code"])
        for v, info in asserted.items():
            if info["code"] in have.get(v, ()):
                continue
            l = logged.get((ti, v))
            c = dict(case)
            c.update({"test_index": ti, "variable": v, "statement": info["code"], "source_kind": info["tag"],
                      "assertions_on_it": [a["repr"] for s in t for a in s["assertions"] if str(a.get("source", "")).split(".")[0] == v][:5],
                      "step_log": l, "test_after": [s["code"] for s in at["stmts"]][:30] if at else None})
            key = loss_key(l) if l is not None else "asserted-statement-lost:unattributed"
            ctx.witness(key, f"[{tag}] `{info['code']}` (asserted via {info['tag']} source) is gone after minimisation; step: {l['step'] if l else '?'}"
                             f"{' -> became `' + l['became'] + '`' if l and l.get('became') else ''}", c)
    if not identity and before:
        ctx.anomaly("identity-of-test-cases-lost-(restore-path)")
    if removed_tests:
        ctx.cls("suite-with-removed-test")
    # losses the monitor logged that the diff does not show (re-added later?) are only noted
    ctx.ok(n=max(1, n_asserted), cls="asserted-statement")
    cls = ["run", f"run:{strategy_cls}:{direction}" if strategy_cls in STRATEGIES else f"run:{strategy_cls}",
           f"assertions:{run['assertion_generation']}", f"algorithm:{run['algorithm']}"]
    ctx.ok(cls=cls, distinct=run if decided else None)
    by_step = collections.Counter(l["step"] for l in losses)
    for k, v in by_step.items():
        ctx.count(f"losses_by_step:{k}", v)
    ctx.count("asserted_statements_before", n_asserted)
    if len(ctx.samples) < 3:
        ctx.sample({"run": run, "tests": [len(before), len(after)], "statements": [sum(map(len, before)), sum(len(a["stmts"]) for a in after)],
                    "assertions": [sum(len(s["assertions"]) for t in before for s in t), sum(len(s["assertions"]) for a in after for s in a["stmts"])],
                    "coverage_before": {k: v for k, v in cb.items() if not k.endswith(":timeouts")},
                    "coverage_after": {k: v for k, v in ca.items() if not k.endswith(":timeouts")},
                    "asserted_statements": n_asserted, "losses_by_step": dict(by_step)})


def run_real(ctx, run, proj, idx, env_extra=None):
    from vlib.pyndriver import run_pipeline

    out = ctx.scratch / f"out{idx}"
    cfg = {M + "test_case_minimization_strategy": run["strategy"], M + "test_case_minimization_direction": run["direction"],
           "test_case_output.filter_assertions_in_subprocess": False}
    if "post_process" in run:
        cfg["test_case_output.post_process"] = run["post_process"]
    if run["assertion_generation"] == "MUTATION_ANALYSIS":
        cfg["test_case_output.maximum_mutants"] = 15
    spec = {"module": run["sut"], "project_path": str(proj), "output_path": str(out), "algorithm": run["algorithm"], "seed": run["seed"],
            "budget": {"maximum_iterations": run["iterations"]}, "assertion_generation": run["assertion_generation"], "config": cfg,
            "monitors": ["vlib.monitors.minimize"]}
    if "coverage_metrics" in run:
        spec["coverage_metrics"] = run["coverage_metrics"]
    res = run_pipeline(spec, timeout=300, env_extra=env_extra)
    tag = f"{run['sut']}:{run['algorithm']}:{run['strategy']}:{run['direction']}:seed={run['seed']}"
    if res.get("timeout"):
        ctx.inconclusive_because(f"{tag}: driver timeout (inconclusive)")
        return
    if res.get("exception"):
        ctx.inconclusive_because(f"{tag}: pipeline raised {res['exception'][:200]} {res.get('traceback', '')[-300:]}")
        return
    evs = res.get("events", [])
    calls = next((e for e in evs if e.get("ev") == "monitor-calls" and e.get("monitor") == "minimize"), None)
    ev = next((e for e in evs if e.get("ev") == "minimize"), None)
    if calls is None or not calls.get("_minimize") or ev is None:
        ctx.inconclusive_because(f"{tag}: the deciding monitor saw no _minimize call (rc={res.get('rc')})")
        return
    if ev["strategy"] in STRATEGIES and ev.get("post_process", True) and ev["before"]:
        expected = {"CASE": ["unused-statements-visitor"], "SUITE": ["unused-statements-visitor", "suite-visitor"], "COMBINED": ["combined-visitor"]}[ev["strategy"]]
        if ev["strategy"] != "COMBINED":
            expected.append("iterative-forward" if ev["direction"] == "FORWARD" else "iterative-backward")
        missing = [s for s in expected if not calls.get(s)]
        if missing:
            ctx.inconclusive_because(f"{tag}: step wrappers saw no call: {missing}")
            return
    ctx.note(f"wall_s:{run['strategy']}", res.get("wall_s"))
    evaluate(ctx, run, ev, tag)


def directed_visitors(ctx):
    """The real _minimize / visitors on hand-built tests with a constant coverage function (every unprotected statement is
    removable): one test per protection situation, every strategy x direction.  Same monitor, same evaluation as the pipelines."""
    import libcst as cst

    import pynguin.assertion.assertion as ass
    import pynguin.configuration as config
    import pynguin.ga.testcasechromosome as tcc
    import pynguin.ga.testsuitechromosome as tsc
    import pynguin.generator as gen
    import pynguin.testcase.testcase as tc

    from pynguin.instrumentation.tracer import SubjectProperties
    from pynguin.testcase.execution import TestCaseExecutor
    from pynguin.utils.orderedset import OrderedSet
    from vlib.monitors import minimize as mon

    events: list = []
    mon.install(events, {})

    class ConstantCoverage:
        def __init__(self, executor):
            self._executor = executor

        def compute_coverage(self, individual):
            return 0.5

    class Algo:
        def __init__(self, ex):
            self.test_suite_coverage_functions = OrderedSet([ConstantCoverage(ex)])

    def build(lines):
        t = tc.TestCase()
        for code, var, asserts in lines:
            st = tc.Statement(node=cst.parse_module(code + "\n").body[0], bound_variable=var, bound_type=int)
            for src, val in asserts:
                st.assertions.append(ass.ObjectAssertion(src, val))
            t.add_statement(st)
            t._var_counter += 1  # noqa: SLF001
        return t

    shapes = {
        # asserted result of the last call, not used later
        "bare-unused": [("var_0 = 3", "var_0", [("var_0", 3)]), ("var_1 = abs(var_0)", "var_1", [("var_1", 3)])],
        # asserted only through an attribute of the variable; its value is used later so the binding survives the unused-variable pass
        "dotted-only": [("var_0 = complex(3, 4)", "var_0", []), ("var_1 = abs(var_0)", "var_1", [("var_0.real", 3.0)]),
                        ("var_2 = abs(var_1)", "var_2", [])],
        # an unasserted input of an asserted call
        "dependency": [("var_0 = -7", "var_0", []), ("var_1 = abs(var_0)", "var_1", [("var_1", 7)]), ("var_2 = abs(var_1)", "var_2", [("var_2", 7)])],
        # the asserted leaf sits at the end of a chain of unasserted statements of length 3 / 4 / 5
        "chain3": [("var_0 = 3", "var_0", []), ("var_1 = complex(var_0, 4)", "var_1", []), ("var_2 = abs(var_1)", "var_2", [("var_2", 5.0)])],
        "chain4": [("var_0 = 3", "var_0", []), ("var_1 = complex(var_0, 4)", "var_1", []), ("var_2 = var_1.conjugate()", "var_2", []),
                   ("var_3 = abs(var_2)", "var_3", [("var_3", 5.0)])],
        "chain5": [("var_0 = 3", "var_0", []), ("var_1 = complex(var_0, 4)", "var_1", []), ("var_2 = var_1.conjugate()", "var_2", []),
                   ("var_3 = var_2.conjugate()", "var_3", []), ("var_4 = abs(var_3)", "var_4", [("var_4", 5.0)]), ("var_5 = 9", "var_5", [])],
        # the chain runs through collection literals
        "chain-through-collections": [("var_0 = 2", "var_0", []), ("var_1 = [var_0]", "var_1", []), ("var_2 = len(var_1)", "var_2", []),
                                      ("var_3 = [var_2, var_0]", "var_3", []), ("var_4 = sum(var_3)", "var_4", [("var_4", 3)])],
        # two asserted leaves whose chains share a prefix
        "shared-prefix": [("var_0 = 3", "var_0", []), ("var_1 = complex(var_0, 4)", "var_1", []), ("var_2 = var_1.conjugate()", "var_2", []),
                          ("var_3 = abs(var_2)", "var_3", [("var_3", 5.0)]), ("var_4 = var_1.real", "var_4", []),
                          ("var_5 = int(var_4)", "var_5", []), ("var_6 = abs(var_5)", "var_6", [("var_6", 3)])],
        # nothing asserted: everything may go
        "unasserted": [("var_0 = 1", "var_0", []), ("var_1 = abs(var_0)", "var_1", [])],
    }
    cfg = config.configuration.test_case_output
    saved = (cfg.minimization.test_case_minimization_strategy, cfg.minimization.test_case_minimization_direction, cfg.post_process)
    ex = TestCaseExecutor(SubjectProperties())
    try:
        for strategy in STRATEGIES + ["NONE"]:
            for direction in DIRECTIONS:
                cfg.minimization.test_case_minimization_strategy = config.MinimizationStrategy[strategy]
                cfg.minimization.test_case_minimization_direction = config.MinimizationDirection[direction]
                cfg.post_process = True
                for name, lines in shapes.items():
                    suite = tsc.TestSuiteChromosome()
                    suite.add_test_case_chromosome(tcc.TestCaseChromosome(build(lines)))
                    suite.add_test_case_chromosome(tcc.TestCaseChromosome(build(shapes["dependency"])))
                    algo = Algo(ex)
                    for f in algo.test_suite_coverage_functions:
                        suite.add_coverage_function(f)
                    del events[:]
                    try:
                        gen._minimize(suite, algo)
                    except Exception:  # noqa: BLE001 - recorded by the monitor ("raised") and judged by evaluate()
                        pass
                    ev = next((e for e in events if e.get("ev") == "minimize"), None)
                    if ev is None:
                        ctx.inconclusive_because(f"directed-visitors: no minimize event for {strategy}/{direction}/{name}")
                        continue
                    run = {"directed": name, "strategy": strategy, "direction": direction, "assertion_generation": "hand-built",
                           "algorithm": "constant-coverage", "sut": "-"}
                    evaluate(ctx, run, ev, f"directed:{name}:{strategy}:{direction}")
                    ctx.cls(f"directed:{name}")
    finally:
        (cfg.minimization.test_case_minimization_strategy, cfg.minimization.test_case_minimization_direction, cfg.post_process) = saved


def run_chunk(spec, ctx):
    from vlib import sut_corpus

    if spec["name"] == "directed-visitors":
        directed_visitors(ctx)
        return

    proj = sut_corpus.copy_to(ctx.scratch / "proj")
    sut_corpus.copy_to(proj, names=sut_corpus.LONG_CHAINS)
    for i, run in enumerate(spec["runs"]):
        run_real(ctx, run, proj, i, env_extra=spec.get("env_extra"))
