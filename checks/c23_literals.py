"""C23 — literals round-trip: literal_to_cst / parse_literal / generate_literal / mutate_literal.

Oracle: Python's own eval of the rendered source (NaN- and sign-of-zero-aware structural equality)
and isinstance against the requested type.
"""

from __future__ import annotations

import math
import random

from vlib.values import same_value

ID = "C23"
LEVEL = "exploration"
IN_PROCESS = True
RULE = (
    "render->eval and render->parse round trips over ints (negative, huge), all float classes (-0.0, inf, nan, "
    "subnormal), complex, str/bytes with arbitrary characters, nested collections; generate_literal/mutate_literal "
    "chains (length 1-12) for all 10 literal types under random test_creation settings with a constant pool seeded "
    "with special values and with variable references as element pool; distinct by rendered source; every case is "
    "non-trivial (a literal was produced)"
)
ASSUMPTIONS = [
    "eval() of the rendered source in a namespace holding the referenced variables is the reference semantics",
    "parse_literal may return None for values containing non-finite floats and for collections that are not literal_eval-able (documented); a *different* value is always a violation",
    "configuration domain: string_length/bytes_length/collection_size >= 1 (0 makes randrange(0,0) fail; treated as outside the documented 'maximum length' domain)",
]

TYPES = [bool, int, float, complex, str, bytes, list, dict, set, tuple]


def floors(tier):
    return {"evals": 20000 if tier == "quick" else 200000, "distinct": 3000,
            "classes": {"roundtrip:float:-0.0": 1, "roundtrip:float:nan": 1, "roundtrip:float:inf": 2, "roundtrip:complex": 5,
                        "roundtrip:nested": 50, "roundtrip:int:negative": 5, "roundtrip:str:odd": 20,
                        **{f"generate:{t.__name__}": 200 for t in TYPES}, **{f"mutate:{t.__name__}": 400 for t in TYPES}}}


def plan(tier, seed):
    return [{"name": "all", "seed": seed, "n": 1500 if tier == "quick" else 25000}]


def _code(expr):
    import libcst as cst

    return cst.Module(body=[]).code_for_node(expr)


def _has_nonfinite(v):
    if isinstance(v, float):
        return not math.isfinite(v)
    if isinstance(v, complex):
        return not (math.isfinite(v.real) and math.isfinite(v.imag))
    if isinstance(v, (list, tuple, set, frozenset)):
        return any(_has_nonfinite(x) for x in v)
    if isinstance(v, dict):
        return any(_has_nonfinite(k) or _has_nonfinite(x) for k, x in v.items())
    return False


def _vclass(v):
    if isinstance(v, bool):
        return "bool"
    if isinstance(v, int):
        return "int:negative" if v < 0 else "int"
    if isinstance(v, float):
        if v != v:
            return "float:nan"
        if math.isinf(v):
            return "float:inf"
        if v == 0 and math.copysign(1, v) < 0:
            return "float:-0.0"
        return "float"
    if isinstance(v, complex):
        return "complex"
    if isinstance(v, str):
        return "str:odd" if any(ord(c) < 32 or ord(c) > 126 or c in "'\"\\" for c in v) else "str"
    if isinstance(v, bytes):
        return "bytes"
    return "nested"


def _mech_of(v):
    """Most specific special sub-value class (mechanism) inside v."""
    found = []

    def walk(x):
        c = _vclass(x)
        if c in ("float:nan", "float:inf", "float:-0.0"):
            found.append(c)
        if isinstance(x, complex):
            for part in (x.real, x.imag):
                walk(part)
        if isinstance(x, (list, tuple, set, frozenset)):
            for y in x:
                walk(y)
        if isinstance(x, dict):
            for k, y in x.items():
                walk(k)
                walk(y)

    walk(v)
    for c in ("float:-0.0", "float:nan", "float:inf"):
        if c in found:
            return c
    return _vclass(v).split(":")[0]


def _roundtrip(ctx, lg, v):
    case = {"value": repr(v)[:300]}
    vc = _vclass(v)
    try:
        expr = lg.literal_to_cst(v)
        code = _code(expr)
    except Exception as e:  # noqa: BLE001
        ctx.ok(cls=f"roundtrip:{vc}")
        ctx.witness(f"render:raises-{type(e).__name__}:{_mech_of(v)}", f"literal_to_cst({v!r}) raised {e!r}", case)
        return
    ctx.ok(cls=f"roundtrip:{vc}", distinct=f"rt|{code[:300]}")
    try:
        back = eval(code, {})  # noqa: S307
    except Exception as e:  # noqa: BLE001
        ctx.witness(f"eval:raises-{type(e).__name__}:{_mech_of(v)}", f"{code!r} does not evaluate: {e!r}", {**case, "code": code})
        return
    if not same_value(back, v):
        ctx.witness(f"eval:different-value:{_mech_of(v)}", f"{v!r} rendered as {code!r} evaluates to {back!r}", {**case, "code": code})
    try:
        parsed = lg.parse_literal(expr, type(v))
    except Exception as e:  # noqa: BLE001
        ctx.witness(f"parse:raises-{type(e).__name__}:{_mech_of(v)}", f"parse_literal({code!r}) raised {e!r}", {**case, "code": code})
        return
    if parsed is None and v is not None:
        if isinstance(v, (list, tuple, set, dict)):
            # documented: None when the expression is not a literal_eval-able literal (e.g. holds a complex(...) call)
            ctx.anomaly("parse_literal-returned-None-for-collection")
        elif not _has_nonfinite(v):
            ctx.witness(f"parse:none:{_mech_of(v)}", f"parse_literal({code!r}, {type(v).__name__}) returned None", {**case, "code": code})
    elif not same_value(parsed, v):
        ctx.witness(f"parse:different-value:{_mech_of(v)}", f"{v!r} -> {code!r} -> parse_literal gives {parsed!r}", {**case, "code": code})
    if len(ctx.samples) < 5 and vc not in ("int", "str", "float"):
        ctx.sample({"value": repr(v)[:100], "rendered": code[:160]})


def _rand_value(rng, depth=0):
    c = rng.random()
    if depth >= 4 or c < 0.6:
        k = rng.random()
        if k < 0.2:
            return rng.choice([0, 1, -1, -7, 2**63, -(2**64), 10**40, rng.randint(-10**6, 10**6)])
        if k < 0.27:
            return rng.choice([True, False])
        if k < 0.5:
            return rng.choice([0.0, -0.0, 1.5, -2.5, 1e-7, 1e16, 1e22, 1e308, -1e308, 5e-324, -5e-324, math.inf, -math.inf, math.nan,
                               0.1 + 0.2, rng.uniform(-1e3, 1e3), rng.random() * 1e-300, float(rng.randint(-5, 5))])
        if k < 0.6:
            return rng.choice([1 + 2j, complex(-0.0, 0.0), complex(0.0, -0.0), complex(0, -1.5), complex(1e308, -5e-324),
                               complex(math.inf, -math.inf), complex(math.nan, 1)])
        if k < 0.85:
            alphabet = "ab'\"\\\n\t\r\x00\x7f é \ud800\U0001f600{}%"
            return "".join(rng.choice(alphabet) for _ in range(rng.randint(0, 6)))
        return bytes(rng.randrange(256) for _ in range(rng.randint(0, 5)))
    kind = rng.choice(["list", "tuple", "set", "dict"])
    n = rng.randint(0, 3)
    if kind == "list":
        return [_rand_value(rng, depth + 1) for _ in range(n)]
    if kind == "tuple":
        return tuple(_rand_value(rng, depth + 1) for _ in range(n))
    if kind == "set":
        out = set()
        for _ in range(n):
            x = _rand_value(rng, 4)
            if x == x:
                out.add(x)
        return out
    out = {}
    for _ in range(n):
        k = _rand_value(rng, 4)
        if k == k:
            out[k] = _rand_value(rng, depth + 1)
    return out


def _is_instance(value, raw):
    if raw is bool:
        return type(value) is bool
    if raw in (int, float):
        return type(value) is raw
    return isinstance(value, raw)


def run_chunk(spec, ctx):
    import libcst as cst

    import pynguin.configuration as config
    import pynguin.testcase.literalgen as lg

    from pynguin.analyses.constants import ConstantPool, DynamicConstantProvider, EmptyConstantProvider
    from pynguin.utils import randomness

    rng = random.Random(spec["seed"] * 31337 + 23)
    directed = [0, -1, 2**64, -(10**50), True, False, 0.0, -0.0, 1.5, -1.5, 1e-7, 1e22, 1e308, 5e-324, math.inf, -math.inf, math.nan,
                1 + 2j, complex(-0.0, -0.0), complex(math.inf, math.nan), "", "it's \"x\"\\\n\x00", "\ud800", b"", b"\xff'\"\\",
                [], (), set(), {}, [-0.0], (math.nan,), {"a": -0.0}, [1, [2, (3, {4: [5.5, -0.0]})]], (1,), {(1, 2): [b"x"]}, {1.5, "s"},
                [math.inf, -math.inf], {"k": complex(1, -0.0)}]
    for v in directed:
        _roundtrip(ctx, lg, v)
    for _ in range(spec["n"]):
        _roundtrip(ctx, lg, _rand_value(rng))

    # ---- generate / mutate chains on the real generator ----
    pool = ConstantPool()
    for c in [0, -1, 2**70, -(10**30), 0.0, -0.0, math.inf, -math.inf, math.nan, 1e308, 5e-324, 2.5, "", "a'b\"c\\\n", "\x00\ud800", "tok", ",",
              b"", b"\xff\x00'", 1 + 2j, complex(-0.0, math.inf), complex(math.nan, 0)]:
        pool.add_constant(c)
    provider = DynamicConstantProvider(pool, EmptyConstantProvider(), 0.5, 1000)
    names = {"var_0": 5, "var_1": "s", "var_2": 2.5, "var_3": (1, 2), "var_4": None}
    ref_pool = [cst.Name(n) for n in names]
    hashable_refs = [cst.Name(n) for n in ("var_0", "var_1", "var_2", "var_3", "var_4")]
    tcfg = config.configuration.test_creation
    for i in range(spec["n"]):
        randomness.RNG.seed(rng.randrange(2**32))
        tcfg.max_int = rng.choice([1, 10, 2048, 10**9, 10**30])
        tcfg.max_delta = rng.choice([1, 20, 10**6, 10**300])
        tcfg.string_length = rng.choice([1, 2, 5, 20])
        tcfg.bytes_length = rng.choice([1, 2, 5, 20])
        tcfg.collection_size = rng.choice([1, 2, 3, 5])
        config.configuration.seeding.seeded_primitives_reuse_probability = rng.choice([0.0, 0.2, 0.9, 1.0])
        config.configuration.search_algorithm.random_perturbation = rng.choice([0.0, 0.1, 0.5])
        for raw in TYPES:
            pool_arg = () if rng.random() < 0.5 else (hashable_refs if raw in (set, dict) and rng.random() < 0.5 else ref_pool)
            settings = {"max_int": tcfg.max_int, "max_delta": tcfg.max_delta, "seed_prob": config.configuration.seeding.seeded_primitives_reuse_probability}
            try:
                expr = lg.generate_literal(raw, provider, pool_arg)
                code = _code(expr)
            except Exception as e:  # noqa: BLE001
                ctx.ok(cls=f"generate:{raw.__name__}")
                ctx.witness(f"generate:raises-{type(e).__name__}:{raw.__name__}", f"generate_literal({raw.__name__}) raised {e!r}", settings)
                continue
            if not _check_code(ctx, "generate", raw, code, names, settings):
                continue
            for step in range(rng.randint(1, 12)):
                try:
                    expr = lg.mutate_literal(expr, raw, provider, pool_arg)
                    code2 = _code(expr)
                except Exception as e:  # noqa: BLE001
                    ctx.ok(cls=f"mutate:{raw.__name__}")
                    ctx.witness(f"mutate:raises-{type(e).__name__}:{raw.__name__}", f"mutate_literal({code!r}, {raw.__name__}) raised {e!r}",
                                {**settings, "code": code, "step": step})
                    break
                if not _check_code(ctx, "mutate", raw, code2, names, {**settings, "before": code[:200], "step": step}):
                    break
                code = code2


def _check_code(ctx, what, raw, code, names, case):
    ctx.ok(cls=f"{what}:{raw.__name__}", distinct=f"{what}|{raw.__name__}|{code[:300]}")
    try:
        value = eval(code, {}, dict(names))  # noqa: S307
    except Exception as e:  # noqa: BLE001
        ctx.witness(f"{what}:eval-raises-{type(e).__name__}:{raw.__name__}", f"{what}_literal({raw.__name__}) produced {code[:200]!r}: {e!r}", {**case, "code": code})
        return False
    if not _is_instance(value, raw):
        ctx.witness(f"{what}:wrong-type:{raw.__name__}", f"{what}_literal({raw.__name__}) produced {code[:200]!r} of type {type(value).__name__}", {**case, "code": code})
        return False
    if len(ctx.samples) < 10 and raw in (dict, set, complex, tuple) and what == "mutate":
        ctx.sample({"requested": raw.__name__, what: code[:160]})
    return True
