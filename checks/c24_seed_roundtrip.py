"""C24 — a test file written by Pynguin, parsed back by the seed parser, renders to the same test code.

Monitor ``vlib/monitors/seed_roundtrip.py`` (inside the driver child, after a real Pynguin run wrote F1): F1 is parsed with the
real seeding entry point ``InitialPopulationProvider.collect_testcases`` (-> ``parse_seed_module`` ->
``CstStatementDeserializer.deserialize_function``) using the run's real test cluster; the parsed test cases are wrapped in a
TestSuiteChromosome and written as F2 by the real ``TestSuiteWriter`` with the run's settings (no_xfail, black, seed fixture,
subject properties).  Offline oracle (this file): for every test function of F1, the corresponding function of F2 (mapping from
the parse log: functions that yield an empty test case are skipped by the parser) must have the same decorators and the same
body after (1) alpha-renaming ``var_N`` in first-occurrence order, (2) ``ast.unparse`` (whitespace / quotes / black), (3) spelling
every from-imported public SUT name ``X`` as ``<alias>.X`` (the parser canonicalises SUT references; both spellings denote the same
object in the written file).  Asserts that merely change their order inside one run of consecutive asserts are an anomaly, not a
witness.  Witness keys name the construct that was lost / added / moved.
"""

from __future__ import annotations

import ast
import collections

ID = "C24"
LEVEL = "exploration"
IN_PROCESS = False
CHUNK_TIMEOUT = 3000
RULE = (
    "cases as in C18 (SUT corpus x seeds x algorithms x assertion generation NONE/SIMPLE/MUTATION_ANALYSIS x no_xfail x black x "
    "post_process); each case is one real run_pynguin() that writes F1, then (same interpreter, real cluster) "
    "InitialPopulationProvider.collect_testcases(F1 dir) and TestSuiteWriter.write(parsed suite) -> F2 with the same settings; oracle = "
    "per test function of F1, equality of decorators and of the statement list with the mapped function of F2 after alpha-renaming "
    "var_N, ast.unparse and canonical SUT references; one evaluation per F1 test function; distinct = hash of the normalised F1 function"
)
ASSUMPTIONS = [
    "SUT modules whose module-level variables are changed by calls (sut_corpus.STATEFUL_MODULE) are skipped: the writer decides xfail / "
    "pytest.raises by re-executing the test, so with state left by earlier executions the second export is not a function of the parsed "
    "test alone (that mechanism is C18's finding on-sut-module-variable, not the seed parser's)",
    "the round trip is performed in the interpreter of the run right after run_pynguin() returned (instrumented SUT module, tracer "
    "disabled), i.e. in the state in which the real export ran; initial_population_mutations is forced to 0",
    "`X` and `<alias>.X` are the same reference when the written file imports X from the SUT (the parser rewrites to the alias form)",
    "the order of asserts inside one run of consecutive asserts carries no meaning (asserts have no side effects): anomaly only",
    "file headers (imports, seed fixture) are not compared; C18 covers them",
    "a parse or export exception on Pynguin's own output is a witness (parse-raises / export-raises), harness trouble is inconclusive",
    "rng_user (draws random numbers) is outside the quantifier: the writer decides pytest.raises / xfail by re-executing the statements, "
    "which sees other random values in the second export; its differences are anomalies",
]


NONDETERMINISTIC_SUTS = {"rng_user"}


def floors(tier):
    k = 1 if tier == "quick" else 6
    return {
        "evals": 250 * k,
        "distinct": 150 * k,
        "classes": {
            "file": 30 * k,
            "function": 150 * k,
            "file:with-assertions": 15 * k,
            "file:without-assertions": 5,
            "no_xfail:on": 8, "no_xfail:off": 8,
            "function:xfail-marked": 10,
            "function:pytest.raises": 10,
            "function:float-approx-assert": 5,
            "function:enum-value": 2,
            "function:assert-on-other-variable": 2,
            "function:identical": 50 * k,
        },
    }


def plan(tier, seed):
    from vlib import genfiles

    return genfiles.plan(tier, seed)


# ---------------------------------------------------------------------------------------------------------------------
def _is_var(name):
    return (name.startswith("var_") and name[4:].isdigit()) or (name.startswith("v") and name[1:].isdigit())


def _owner_map(body, nodes):
    """assert text -> list of owner statement texts (the closest preceding non-assert statement), in order."""
    owners = collections.defaultdict(list)
    owner = "<function start>"
    for text, node in zip(body, nodes):
        if isinstance(node, ast.Assert):
            owners[text].append(owner)
        else:
            owner = text
    return owners


def _strip_assert_order(body, nodes):
    """Body with every run of consecutive asserts sorted."""
    out, run = [], []
    for text, node in zip(body, nodes):
        if isinstance(node, ast.Assert):
            run.append(text)
        else:
            out.extend(sorted(run))
            run = []
            out.append(text)
    out.extend(sorted(run))
    return out


def _function_classes(n1):
    from vlib import genfiles

    cl = ["function"]
    if any("xfail" in d for d in n1["decorators"]):
        cl.append("function:xfail-marked")
    last_stmt_vars: set = set()
    for text, node in zip(n1["body"], n1["nodes"]):
        k = genfiles.stmt_kind(node)
        if k == "pytest-raises-block":
            cl.append("function:pytest.raises")
        if k == "assert:float-approx":
            cl.append("function:float-approx-assert")
        if "-eq-enum" in k or k == "assign:attribute":
            cl.append("function:enum-value")
        if "lambda" in k:
            cl.append("function:lambda")
        if isinstance(node, ast.Assert):
            names = {n.id for n in ast.walk(node) if isinstance(n, ast.Name) and _is_var(n.id)}
            if names and not (names & last_stmt_vars):
                cl.append("function:assert-on-other-variable")
        else:
            last_stmt_vars = set()
            if isinstance(node, ast.Assign) and isinstance(node.targets[0], ast.Name):
                last_stmt_vars = {node.targets[0].id}
    return sorted(set(cl))


def compare_functions(ctx, tag, case_info, name, n1, n2):
    """Witnesses for one F1 function vs its F2 counterpart (both normalised). Returns True when identical."""
    from vlib import genfiles

    if n1["decorators"] == n2["decorators"] and n1["body"] == n2["body"]:
        return True
    info = {**case_info, "function": name, "f1": n1["decorators"] + n1["body"], "f2": n2["decorators"] + n2["body"]}
    found = False
    # ---- decorators / exception structure
    x1 = any("xfail" in d for d in n1["decorators"])
    x2 = any("xfail" in d for d in n2["decorators"])
    raises1 = [t for t, n in zip(n1["body"], n1["nodes"]) if genfiles.is_raises_block(n) is not None]
    raises2 = [t for t, n in zip(n2["body"], n2["nodes"]) if genfiles.is_raises_block(n) is not None]
    b1, b2 = list(n1["body"]), list(n2["body"])
    marker_lost = False
    converted = False
    if x1:
        # a statement F1 leaves bare under its xfail marker may come back wrapped in pytest.raises (the parser resolved the callable,
        # the exception is one it declares); compare the rest with the wrapper removed
        for nr in [t for t in raises2 if t not in raises1]:
            inner = nr.split(":\n", 1)[-1].strip()
            if inner in b1 and inner not in b2:
                b2 = [inner if t == nr else t for t in b2]
                if not converted:
                    ctx.witness("changed:xfail-marker->pytest.raises", f"{tag} {name}: F1 marks the function xfail(strict=True) and leaves `{inner[:60]}` bare; "
                                f"F2 wraps it in `{nr.splitlines()[0]}`" + ("" if x2 else " and has no marker"), info)
                converted = True
                found = True
    if x1 and not x2:
        if not converted:
            marker_lost = True
    elif x2 and not x1:
        gone = [t for t in raises1 if t not in raises2]
        if case_info.get("unverified"):
            # an unverified (state-dependent) assertion of F1 fails when the writer re-executes the parsed test
            ctx.anomaly("after-filter-timeout:added:xfail-marker")
        else:
            ctx.witness("changed:pytest.raises->xfail-marker" if gone else "added:xfail-marker",
                        f"{tag} {name}: F2 is marked xfail(strict=True), F1 is not", info)
        if gone:
            inner = gone[0].split(":\n", 1)[-1].strip()
            b1 = [inner if t == gone[0] else t for t in b1]
        found = True
    elif n1["decorators"] != n2["decorators"]:
        ctx.witness("changed:decorators", f"{tag} {name}: decorators differ: {n1['decorators']} vs {n2['decorators']}", info)
        found = True
    if b1 == b2:
        if marker_lost:
            ctx.witness("lost:xfail-marker", f"{tag} {name}: the xfail(strict=True) marker of F1 is missing in F2 (same statements)", info)
        return False
    # ---- statements
    nodes1 = {t: n for t, n in zip(n1["body"], n1["nodes"])}
    nodes2 = {t: n for t, n in zip(n2["body"], n2["nodes"])}

    def kind(t, nodes):
        n = nodes.get(t)
        if n is None:
            try:
                n = ast.parse(t).body[0]
            except (SyntaxError, IndexError):
                return "unparsable"
        return genfiles.stmt_kind(n)

    def node_of(t, nodes):
        n = nodes.get(t)
        if n is None:
            try:
                n = ast.parse(t).body[0]
            except (SyntaxError, IndexError):
                n = None
        return n

    c1, c2 = collections.Counter(b1), collections.Counter(b2)
    lost_c, extra_c = c1 - c2, c2 - c1
    lost = [t for t in b1 if lost_c[t] > 0 and not lost_c.subtract({t: 1})]  # F1 order
    extra = list(extra_c.elements())
    # (a) `var_N = e` of F1 that came back as the bare expression `e`: the writer unbinds a variable nobody reads any more
    unbound = []
    for t in list(lost):
        n = node_of(t, nodes1)
        if isinstance(n, ast.Assign):
            bare = genfiles.rhs_key(n)
            if bare in extra:
                extra.remove(bare)
                lost.remove(t)
                unbound.append(t)
    # (a') an assert of F1 that does not hold when the writer re-executes it comes back wrapped in pytest.raises(AssertionError)
    for t in list(lost):
        n = node_of(t, nodes1)
        if isinstance(n, ast.Assert):
            wrapped = next((x for x in extra if genfiles.is_raises_block(node_of(x, nodes2)) == "AssertionError"
                            and x.split(":\n", 1)[-1].strip() == t), None)
            if wrapped is not None:
                extra.remove(wrapped)
                lost.remove(t)
                b2 = [t if x == wrapped else x for x in b2]
                if case_info.get("unverified"):
                    ctx.anomaly("after-filter-timeout:changed:failing-assert->pytest.raises(AssertionError)")
                else:
                    ctx.witness(f"changed:failing-assert->pytest.raises(AssertionError):{genfiles.assert_kind(n)}",
                                f"{tag} {name}: `{t[:100]}` of F1 does not hold when the writer re-executes the parsed test; F2 wraps it in pytest.raises(AssertionError)",
                                {**info, "statement": t})
                found = True
    # (a'') a statement F1 has bare that comes back wrapped in pytest.raises: the behaviour of the re-executed test changed
    wrapped_pairs = []
    for t in list(lost):
        n = node_of(t, nodes1)
        if n is not None and not isinstance(n, ast.Assert):
            w = next((x for x in extra if genfiles.is_raises_block(node_of(x, nodes2)) is not None and x.split(":\n", 1)[-1].strip() == t), None)
            if w is not None:
                extra.remove(w)
                lost.remove(t)
                b2 = [t if x == w else x for x in b2]
                wrapped_pairs.append((t, w))
    # (b) root losses vs. cascade: a lost statement that reads a variable bound by an earlier lost statement is a consequence
    def stores(t):
        n = node_of(t, nodes1)
        return {x.id for x in ast.walk(n) if isinstance(x, ast.Name) and isinstance(x.ctx, ast.Store) and _is_var(x.id)} if n is not None else set()

    unbound_vars: set = set()
    for t in unbound:
        unbound_vars |= stores(t)
    lost_vars: set = set()
    roots, cascade, asserts_on_unbound = [], [], []
    for t in lost:
        n = node_of(t, nodes1)
        reads = {x.id for x in ast.walk(n) if isinstance(x, ast.Name) and isinstance(x.ctx, ast.Load) and _is_var(x.id)} if n is not None else set()
        if reads & lost_vars:
            cascade.append(t)
        elif isinstance(n, ast.Assert) and reads & unbound_vars:
            asserts_on_unbound.append(t)
        else:
            roots.append(t)
        lost_vars |= stores(t)
    # an assert on a variable F2 no longer binds: consequence when the consumer of the variable was lost first (the writer unbinds and
    # the lifted assertion goes with it), root when the parser dropped the assert itself (then the binding became unused)
    (cascade if roots else roots).extend(asserts_on_unbound)
    if wrapped_pairs:
        if roots:
            ctx.count("statements_wrapped_in_raises_after_an_earlier_loss", len(wrapped_pairs))
        else:
            for t, w in wrapped_pairs:
                ctx.witness("changed:statement->pytest.raises", f"{tag} {name}: `{t[:90]}` of F1 comes back as `{w.splitlines()[0]}` although nothing was lost before it",
                            {**info, "statement": t})
        found = True
    if marker_lost:
        last = [t for t in b1 if not isinstance(node_of(t, nodes1), ast.Assert)][-1:]
        if not (last and last[0] in lost):
            ctx.witness("lost:xfail-marker", f"{tag} {name}: the xfail(strict=True) marker of F1 is missing in F2 although its last statement survived", info)
            found = True
        else:
            ctx.count("xfail_marker_lost_with_the_raising_statement")
    for t in roots:
        ctx.witness(f"lost:{kind(t, nodes1)}", f"{tag} {name}: `{t[:110]}` of F1 has no counterpart in F2"
                    + (f" ({len(cascade)} dependent statement(s)/assert(s) lost with it)" if cascade else ""),
                    {**info, "statement": t, "lost_with_it": cascade[:12], "unbound_in_f2": unbound[:6]})
        found = True
    if cascade and not roots:
        ctx.witness("lost:dependent-statements-without-root", f"{tag} {name}: {len(cascade)} statements lost", {**info, "lost": cascade[:12]})
        found = True
    for t in cascade:
        ctx.count("cascade_losses")
    if unbound and not roots:
        for t in unbound:
            ctx.witness(f"changed:binding-removed:{kind(t, nodes1)}", f"{tag} {name}: `{t[:110]}` of F1 is the bare expression in F2 although nothing else was lost",
                        {**info, "statement": t})
            found = True
    for t in extra:
        ctx.witness(f"added:{kind(t, nodes2)}", f"{tag} {name}: `{t[:110]}` of F2 is not in F1", {**info, "statement": t})
        found = True
    if lost or extra or unbound or wrapped_pairs:
        return False
    if b1 == b2:
        return not found
    # same multiset, different order
    if _strip_assert_order(b1, [nodes1.get(t) or ast.parse(t).body[0] for t in b1]) == _strip_assert_order(b2, [nodes2.get(t) or ast.parse(t).body[0] for t in b2]):
        ctx.anomaly("assert-order-inside-a-run-of-asserts-changed")
        return not found
    o1 = _owner_map(b1, [nodes1.get(t) or ast.parse(t).body[0] for t in b1])
    o2 = _owner_map(b2, [nodes2.get(t) or ast.parse(t).body[0] for t in b2])
    moved = [(t, o1[t], o2[t]) for t in o1 if o1[t] != o2.get(t)]
    if moved:
        for t, was, now in moved[:6]:
            k = genfiles.assert_kind(t)
            # does the assert now follow the statement that *binds* the variable it reads?
            node = ast.parse(t).body[0]
            read = {n.id for n in ast.walk(node) if isinstance(n, ast.Name) and _is_var(n.id)}
            to_binding = False
            for o in now:
                try:
                    on = ast.parse(o).body[0]
                except (SyntaxError, IndexError):
                    continue
                if isinstance(on, ast.Assign) and isinstance(on.targets[0], ast.Name) and on.targets[0].id in read:
                    to_binding = True
            ctx.witness(f"moved:assert:{k}:{'to-binding-statement' if to_binding else 'to-other-statement'}",
                        f"{tag} {name}: `{t}` follows `{was[0][:70]}` in F1 but `{now[0][:70] if now else None}` in F2", {**info, "assert": t, "f1_owner": was, "f2_owner": now})
        return False
    ctx.witness("reordered:statements", f"{tag} {name}: same statements in a different order", info)
    return False


def check_run(ctx, r):
    """The C24 oracle on one run result (also used by the self-test)."""
    from vlib import core, genfiles

    c, res = r["case"], r["res"]
    if c["sut"] in NONDETERMINISTIC_SUTS:
        # the writer re-executes the statements to place pytest.raises / xfail; with a SUT that draws random numbers the two
        # exports see different values.  Outside the quantifier of the property: witnesses become anomalies.
        real = ctx

        class _Demote:
            def __getattr__(self, name):
                return getattr(real, name)

            def witness(self, key, desc, case=None):
                real.anomaly(f"random-using-sut:{key}")

        ctx = _Demote()
    calls = genfiles.monitor_calls(res, "seed_roundtrip")
    rt = next((e for e in res["events"] if e.get("ev") == "roundtrip"), None)
    if rt is None or not calls:
        ctx.inconclusive_because(f"{r['tag']}: no roundtrip event (rc {res.get('rc')})")
        return
    case_info = {"case": c}
    if genfiles.unverified_assertions(res):
        case_info["unverified"] = True
        ctx.cls("run:assertion-filter-execution-timed-out")
    err = rt.get("phase_error")
    if err and err["phase"] == "no-f1":
        ctx.anomaly("no-file-written")
        return
    if err and err["phase"] == "harness":
        ctx.inconclusive_because(f"{r['tag']}: {err['error']}")
        return
    if calls.get("collect_testcases", 0) == 0:
        ctx.inconclusive_because(f"{r['tag']}: the seed parser was never called")
        return
    f1 = genfiles.FileInfo(rt["f1"], c["sut"])
    if err:
        ctx.ok(len(f1.functions) or 1, cls=["file", f"file:{err['phase']}-raises"])
        etype = err["error"].split(":", 1)[0]
        ctx.witness(f"{err['phase']}-raises:{etype}", f"{r['tag']}: {err['phase']} of Pynguin's own output raised {err['error']}",
                    {**case_info, "traceback": err.get("tb", "")[-900:], "f1": rt["f1"][-1500:]})
        return
    if f1.functions and [f.name for f in f1.functions] == ["test_empty"]:
        ctx.anomaly("f1-is-the-empty-suite-file")
        return
    if calls.get("deserialize_function", 0) == 0 and f1.functions:
        ctx.inconclusive_because(f"{r['tag']}: deserialize_function monitor saw no call for {len(f1.functions)} functions")
        return
    f2 = genfiles.FileInfo(rt["f2"], c["sut"])
    with_assertions = any(isinstance(n, ast.Assert) for fn in f1.functions for n in fn.body)
    for name in ["file", "file:with-assertions" if with_assertions else "file:without-assertions", f"ag:{c['ag']}",
                 f"no_xfail:{'on' if c['no_xfail'] else 'off'}", f"black:{'on' if c['black'] else 'off'}", f"sut:{c['sut']}", f"algo:{c['algo']}"]:
        ctx.cls(name)
    log = {e["name"]: e for e in rt["parse_log"]}
    alias = f1.alias
    names = f1.public_names | f2.public_names
    k2 = 0
    n_identical = 0
    for fn in f1.functions:
        entry = log.get(fn.name)
        n1 = genfiles.normalise_function(fn, names, alias)
        cl = _function_classes(n1)
        ctx.ok(cls=cl, distinct=core.stable_hash([c["sut"], n1["decorators"], n1["body"]]))
        for d in (entry or {}).get("counts", {}):
            ctx.cls(f"disposition:{d}")
        if entry is None:
            ctx.witness("lost:function:not-parsed", f"{r['tag']}: {fn.name} of F1 was never handed to the deserializer", {**case_info, "function": ast.unparse(fn)[:1200]})
            continue
        if entry["size"] <= 0:
            if n1["body"] == ["pass"]:
                ctx.anomaly("f1-function-is-pass")
                continue
            first_kind = genfiles.stmt_kind(n1["nodes"][0]) if n1["nodes"] else "empty"
            ctx.witness("lost:function:all-statements-dropped:first-statement=" + first_kind, f"{r['tag']}: {fn.name} of F1 yields an empty test case "
                        f"(dispositions {entry.get('counts')}) and is skipped by the seed parser", {**case_info, "function": ast.unparse(fn)[:1200], "parse": entry})
            continue
        fn2 = f2.function(f"test_{k2}")
        k2 += 1
        if fn2 is None:
            ctx.witness("lost:function:missing-in-f2", f"{r['tag']}: parsed test case for {fn.name} has no function test_{k2 - 1} in F2",
                        {**case_info, "function": ast.unparse(fn)[:1200], "f2_functions": [f.name for f in f2.functions]})
            continue
        # the parser keeps the names of first bindings, so the raw names usually agree; alpha-renaming is the fallback, and the
        # variant with the smaller difference is the one that is reported (a lost binding shifts every later alpha name)
        r1, r2 = genfiles.normalise_function(fn, names, alias, alpha=False), genfiles.normalise_function(fn2, names, alias, alpha=False)
        n2 = genfiles.normalise_function(fn2, names, alias)
        if (r1["decorators"], r1["body"]) == (r2["decorators"], r2["body"]) or (n1["decorators"], n1["body"]) == (n2["decorators"], n2["body"]):
            same = True
        else:
            def dist(a, b):
                ca, cb = collections.Counter(a["body"]), collections.Counter(b["body"])
                return sum(((ca - cb) + (cb - ca)).values())
            use = (r1, r2) if dist(r1, r2) <= dist(n1, n2) else (n1, n2)
            same = compare_functions(ctx, r["tag"], {**case_info, "parse": entry}, fn.name, use[0], use[1])
        if same:
            n_identical += 1
            ctx.cls("function:identical")
            raw1 = genfiles.normalise_function(fn, (), None)
            raw2 = genfiles.normalise_function(fn2, (), None)
            if raw1["body"] != raw2["body"]:
                ctx.anomaly("sut-reference-respelled:X->alias.X")
    if len(f2.functions) != k2 and not (k2 == 0 and [f.name for f in f2.functions] == ["test_empty"]):
        ctx.anomaly("f2-has-a-different-number-of-functions-than-parsed-tests")
    if len(ctx.samples) < 4:
        ctx.sample({"case": c, "f1_functions": len(f1.functions), "f2_functions": len(f2.functions), "identical": n_identical,
                    "parse_log": rt["parse_log"][:4]})


def run_chunk(spec, ctx):
    from vlib import genfiles

    from vlib import sut_corpus

    for i, c in enumerate(genfiles.cases_of(spec)):
        if c["sut"] in sut_corpus.STATEFUL_MODULE:
            # the writer decides xfail / pytest.raises by re-executing the test: with module-level state left by earlier
            # executions the second export is not a function of the parsed test alone (that is C18's finding, not the parser's)
            ctx.count("cases_skipped:stateful-sut-module")
            continue
        r = genfiles.run_case(ctx, c, i)
        if r is None:
            continue
        check_run(ctx, r)
