"""C25 — subtyping is a preorder consistent with the class hierarchy; subtype_distance laws.

Shape: algebraic laws + differential against Python's own MRO, on the *real* TypeSystem that the real
module analysis builds for generated class hierarchies (vlib/modgen.py).  Every hierarchy is queried
after the lru caches of the type system have been cleared and is never mutated, so stale-cache
effects (C26) cannot leak in.
"""

from __future__ import annotations

import random

ID = "C25"
LEVEL = "exploration"
CHUNK_TIMEOUT = 900
RULE = (
    "generated packages (chains, diamonds, helper/builtin/generic/nested bases, enums incl. IntEnum, abstract classes) are analysed by "
    "the real generate_test_cluster; on its TypeSystem (caches cleared, graph never mutated) random proper types (instances, "
    "list/set/dict/user generics, tuples, flat sorted unions, None, Any, plus every type harvested from the analysed signatures) are "
    "drawn as triples (a, widen(a), widen(widen(a))) or independently; laws evaluated by the monitor: reflexivity, top (Any), "
    "transitivity (only when both premises hold according to the real is_subtype and the middle type is Any-free), union-left law "
    "(is_subtype(U,t) == all members), is_subclass == Python MRO membership (+ exactly the numeric-tower edges) for every analysed "
    "class against every known class, subtype_distance(T,S) defined => is_maybe_subtype(S,T), subtype_distance(T,T) == 0 for "
    "Any-free T; a case is distinct by (hierarchy, law, operand shapes); a distance witness is localised to the smallest "
    "disagreeing component before it is keyed"
)
ASSUMPTIONS = [
    "Python's __mro__ is the class-subsumption reference; ABC.register-style virtual subclasses are outside it (anomaly only)",
    "'analysed class' = a class with a TypeInfo that received base-class edges from the module analysis (or object); classes only mentioned in annotations are skipped",
    "the numeric tower is exactly bool<:int<:float<:complex as enable_numeric_tower adds it",
    "Any is both top and bottom by design (gradual typing): transitivity is only demanded through Any-free middle types, and distance(T,T) for Any-containing T is the documented any_distance (anomaly, not a violation)",
    "is_maybe_subtype as implemented is the meaning of 'may be a subtype' in the distance law",
]


def floors(tier):
    k = 1 if tier == "quick" else 8
    return {
        "evals": 500000 * k,
        "distinct": 1500,
        "classes": {
            "law:reflexive": 20000 * k, "law:top": 20000 * k, "law:transitive:premises-hold": 10000 * k, "law:union-left": 10000 * k,
            "law:subclass-vs-mro": 50000 * k, "law:subclass-vs-mro:true": 3000, "law:subclass-vs-mro:numeric-tower": 200,
            "law:distance-defined=>maybe-subtype": 10000 * k, "law:distance-identical": 10000 * k, "hierarchies": 90 * k,
            "shape:inst": 10000, "shape:inst[]": 10000, "shape:tuple": 5000, "shape:union": 10000, "shape:none": 2000, "shape:any": 2000,
            "feature:diamond": 10, "feature:builtin_base": 10, "feature:generic": 10, "feature:int_enum": 5, "feature:helper_base": 10,
            "directed:known-shapes": 1,
        },
    }


def plan(tier, seed):
    chunks = [{"name": "directed", "seed": seed}]
    n_chunks, per, triples = (15, 7, 2000) if tier == "quick" else (60, 15, 2500)
    for p in range(n_chunks):
        chunks.append({"name": "random", "seed": seed, "part": p, "n": per, "triples": triples})
    return chunks


# --------------------------------------------------------------------------------------------------
class Laws:
    def __init__(self, ctx, ts, case):
        from vlib import typepool as tp

        self.ctx, self.ts, self.case, self.tp = ctx, ts, case, tp
        self.tag = case["module"]

    def call(self, op, *args):
        """Real query; an exception is a witness (the laws quantify over all proper types)."""
        try:
            return True, getattr(self.ts, op)(*args)
        except Exception as e:  # noqa: BLE001
            shapes = "/".join(self.tp.shape(a) for a in args)
            self.ctx.witness(f"raises:{op}:{type(e).__name__}:{shapes}", f"{op}({', '.join(map(str, args))}) raised {e!r}", {**self.case, "op": op, "args": [str(a) for a in args]})
            return False, None

    def ok(self, law, *types, extra=()):
        shapes = [self.tp.shape(t) for t in types]
        self.ctx.ok(cls=[f"law:{law}", *(f"shape:{s}" for s in set(shapes)), *extra], distinct=f"{self.tag}|{law}|{'/'.join(shapes)}")

    # ---- laws over proper types
    def reflexive(self, a):
        okc, r = self.call("is_subtype", a, a)
        if not okc:
            return
        self.ok("reflexive", a)
        if r is not True:
            self.ctx.witness(f"reflexive:is_subtype:{self.tp.shape(a)}", f"is_subtype({a}, {a}) = {r!r}", {**self.case, "a": str(a)})
        okc, r = self.call("is_maybe_subtype", a, a)
        if okc and r is not True:
            self.ctx.anomaly(f"is_maybe_subtype-not-reflexive:{self.tp.shape(a)}")

    def top(self, a):
        from pynguin.analyses.typesystem import ANY

        okc, r = self.call("is_subtype", a, ANY)
        if not okc:
            return
        self.ok("top", a)
        if r is not True:
            self.ctx.witness(f"top:is_subtype:{self.tp.shape(a)}", f"is_subtype({a}, Any) = {r!r}", {**self.case, "a": str(a)})

    def transitive(self, a, b, c):
        if self.tp.contains_any(b):
            self.ctx.cls("law:transitive:skipped-any-middle")
            return
        o1, ab = self.call("is_subtype", a, b)
        o2, bc = self.call("is_subtype", b, c)
        if not (o1 and o2):
            return
        if not (ab and bc):
            self.ctx.cls("law:transitive:premises-fail")
            return
        o3, ac = self.call("is_subtype", a, c)
        if not o3:
            return
        nontrivial = a != b and b != c
        self.ok("transitive:premises-hold", a, b, c, extra=["law:transitive:nontrivial"] if nontrivial else ())
        if ac is not True:
            sh = "/".join(self.tp.shape(t) for t in (a, b, c))
            self.ctx.witness(f"transitive:is_subtype:{sh}", f"{a} <: {b} and {b} <: {c} but is_subtype({a}, {c}) = {ac!r}",
                             {**self.case, "a": str(a), "b": str(b), "c": str(c)})

    def union_left(self, u, t):
        okc, got = self.call("is_subtype", u, t)
        if not okc:
            return
        members = []
        for it in u.items:
            o, r = self.call("is_subtype", it, t)
            if not o:
                return
            members.append(bool(r))
        self.ok("union-left", u, t, extra=[f"law:union-left:{'all' if all(members) else 'not-all'}"])
        if bool(got) != all(members):
            self.ctx.witness(f"union-left:got-{bool(got)}-members-{'all' if all(members) else 'not-all'}:right={self.tp.shape(t)}",
                             f"is_subtype({u}, {t}) = {got!r} but members give {members}", {**self.case, "u": str(u), "t": str(t)})

    # ---- distance laws
    def _dist_violation(self, T, S):
        """(d, violated) for the law: distance(T,S) defined => is_maybe_subtype(S,T)."""
        o1, d = self.call("subtype_distance", T, S)
        if not o1 or d is None:
            return d, False
        o2, m = self.call("is_maybe_subtype", S, T)
        return d, bool(o2 and not m)

    def _localise(self, T, S, depth=0):
        from pynguin.analyses import typesystem as tsm

        if depth > 6:
            return T, S
        if isinstance(T, tsm.UnionType):
            for it in T.items:
                if self._dist_violation(it, S)[1]:
                    return self._localise(it, S, depth + 1)
        if isinstance(S, tsm.UnionType):
            for it in S.items:
                if self._dist_violation(T, it)[1]:
                    return self._localise(T, it, depth + 1)
        pairs = []
        if isinstance(T, tsm.TupleType) and isinstance(S, tsm.TupleType) and len(T.args) == len(S.args):
            pairs = list(zip(T.args, S.args))
        elif isinstance(T, tsm.Instance) and isinstance(S, tsm.Instance) and T.args and S.args:
            pairs = list(zip(T.args, S.args))
        for x, y in pairs:
            if self._dist_violation(x, y)[1]:
                return self._localise(x, y, depth + 1)
        return T, S

    def _relation(self, T, S):
        """How the classes of the smallest disagreeing pair are related *according to the type system itself*."""
        from pynguin.analyses import typesystem as tsm

        if isinstance(T, tsm.Instance) and isinstance(S, tsm.Instance):
            if S.type == T.type:
                return "same-class:args-not-equivalent" if T.args or S.args else "same-class"
            okc, sub = self.call("is_subclass", S.type, T.type)
            return "subclass" if (okc and sub) else "unrelated-classes"
        return "-"

    def distance(self, T, S):
        d, bad = self._dist_violation(T, S)
        if d is None:
            self.ctx.cls("law:distance-undefined")
            return
        self.ok("distance-defined=>maybe-subtype", T, S)
        if not isinstance(d, int) or isinstance(d, bool) or d < 0:
            self.ctx.anomaly(f"distance-not-a-natural-number:{type(d).__name__}")
        if bad:
            t2, s2 = self._localise(T, S)
            key = f"distance-defined-not-maybe-subtype:{self.tp.shape(t2)}/{self.tp.shape(s2)}:{self._relation(t2, s2)}"
            self.ctx.witness(key, f"subtype_distance({T}, {S}) = {d} but is_maybe_subtype({S}, {T}) is False; smallest disagreeing component: "
                                  f"subtype_distance({t2}, {s2}) = {self._dist_violation(t2, s2)[0]}",
                             {**self.case, "T": str(T), "S": str(S), "component": [str(t2), str(s2)]})

    def _localise_identical(self, T, depth=0):
        """Smallest component X of T with subtype_distance(X, X) != 0, and a qualifier for the mechanism."""
        from pynguin.analyses import typesystem as tsm

        if depth > 6:
            return T, ""
        parts = []
        if isinstance(T, tsm.UnionType):
            # a member that is fine by itself but rejects the union as a subtype
            for it in T.items:
                o1, dii = self.call("subtype_distance", it, it)
                o2, diu = self.call("subtype_distance", it, T)
                if o1 and o2 and dii == 0 and diu is None:
                    return T, f":member-{self.tp.shape(it)}-rejects-union-subtype"
            parts = list(T.items)
        elif isinstance(T, (tsm.TupleType, tsm.Instance)):
            parts = list(T.args)
        for p in parts:
            o, d = self.call("subtype_distance", p, p)
            if o and d != 0 and not self.tp.contains_any(p):
                return self._localise_identical(p, depth + 1)
        return T, ""

    def distance_identical(self, T):
        okc, d = self.call("subtype_distance", T, T)
        if not okc:
            return
        if self.tp.contains_any(T):
            self.ctx.cls("law:distance-identical:any-containing")
            if d != 0:
                self.ctx.anomaly("distance(T,T)!=0 for Any-containing T (documented any_distance)")
            return
        self.ok("distance-identical", T)
        if d != 0:
            t2, qual = self._localise_identical(T)
            _, d2 = self.call("subtype_distance", t2, t2)
            key = f"distance-identical:{self.tp.shape(t2)}:{'undefined' if d2 is None else 'nonzero'}{qual}"
            self.ctx.witness(key, f"subtype_distance({T}, {T}) = {d!r} (expected 0); smallest component: subtype_distance({t2}, {t2}) = {d2!r}",
                             {**self.case, "T": str(T), "component": str(t2)})

    # ---- classes
    def subclass_vs_mro(self):
        ts, tp = self.ts, self.tp
        graph = ts._graph  # noqa: SLF001 - only used to tell analysed classes from mentioned-only ones
        infos = [ti for ti in ts.get_all_types() if isinstance(ti.raw_type, type)]
        for a in infos:
            analysed = a.raw_type is object or (a in graph and graph.in_degree(a) > 0)
            if not analysed:
                self.ctx.cls("law:subclass-vs-mro:skipped-not-analysed", len(infos))
                continue
            for b in infos:
                okc, got = self.call("is_subclass", a, b)
                if not okc:
                    continue
                nominal = tp.nominal_subclass(a.raw_type, b.raw_type)
                tower = (not nominal) and tp.tower_subclass(a.raw_type, b.raw_type)
                want = nominal or tower
                tags = ["law:subclass-vs-mro"]
                if want:
                    tags.append("law:subclass-vs-mro:true")
                if tower:
                    tags.append("law:subclass-vs-mro:numeric-tower")
                self.ctx.ok(cls=tags, distinct=f"{self.tag}|subclass|{a.module == self.tag}|{b.module == self.tag}|{want}")
                try:
                    virt = issubclass(a.raw_type, b.raw_type)
                except TypeError:
                    virt = nominal
                if virt != nominal:
                    self.ctx.anomaly("issubclass differs from MRO membership (virtual subclass via ABC registration)")
                if bool(got) != want:
                    where = lambda ti: "module-class" if ti.module in (self.case["module"], self.case["module"] + "_h") else f"{ti.module}-class"  # noqa: E731
                    kind = "missing-edge" if want else "extra-edge"
                    if where(a) != "module-class":
                        wa = "stdlib-class"
                    else:
                        wa = "module-class"
                    wb = "module-class" if where(b) == "module-class" else "stdlib-class"
                    self.ctx.witness(f"subclass-vs-mro:{kind}:{wa}/{wb}" + (":numeric-tower" if tower else ""),
                                     f"is_subclass({a.full_name}, {b.full_name}) = {got!r}, Python MRO says {nominal}, numeric tower {tower}",
                                     {**self.case, "a": a.full_name, "b": b.full_name})


def run_hierarchy(ctx, manifest, rng, triples, note=None):
    from vlib import typepool as tp

    from pynguin.analyses import typesystem as tsm

    case = {"gen": manifest["gen"], "module": manifest["sut"], "forced": note}
    cluster = tp.build_cluster(manifest)
    ts = cluster.type_system
    tp.clear_type_caches()
    ctx.cls("hierarchies")
    for f in manifest["features"]:
        ctx.cls(f"feature:{f}")
    laws = Laws(ctx, ts, case)
    laws.subclass_vs_mro()
    pool = tp.Pool(ts, cluster, manifest, rng)
    for i in range(triples):
        a = pool.rand()
        if rng.random() < 0.7:
            b = pool.widen(a)
            c = pool.widen(b)
        else:
            b, c = pool.rand(), pool.rand()
        for t in (a, b, c):
            laws.reflexive(t)
            laws.top(t)
            laws.distance_identical(t)
        laws.transitive(a, b, c)
        for u in (a, b, c):
            if isinstance(u, tsm.UnionType):
                other = rng.choice([a, b, c, pool.rand(), pool.widen(u)])
                laws.union_left(u, other)
        laws.distance(b, a)
        laws.distance(a, b)
        laws.distance(c, a)
        laws.distance(pool.rand(), a)
        if i < 3 and len(ctx.samples) < 4:
            ctx.sample({"module": manifest["sut"], "a": str(a), "b": str(b), "c": str(c), "is_subtype(a,b)": ts.is_subtype(a, b),
                        "distance(b,a)": ts.subtype_distance(b, a)})
    return cluster, pool, laws


def directed_cases(ctx, cluster, laws):
    """Hand-written operands: the shapes named in DESIGN.md plus one instance of every law on known classes."""
    from pynguin.analyses import typesystem as tsm

    ts = cluster.type_system
    cv = ts.convert_type_hint
    li, ds, si, lb = cv(list[int]), cv(dict[int, str]), cv(set[int]), cv(list[bool])
    none, anyt = tsm.NONE_TYPE, tsm.ANY
    i, f, b, c, s, o = cv(int), cv(float), cv(bool), cv(complex), cv(str), cv(object)
    for T, S in ((li, ds), (li, si), (li, lb), (li, li), (ds, ds), (none, none), (cv(tuple[int, str]), cv(tuple[bool, str])), (f, i), (i, f),
                 (c, b), (o, li), (cv(int | None), none), (cv(int | str), b), (anyt, i), (i, anyt), (cv(list), li), (li, cv(list))):
        laws.distance(T, S)
    for T in (none, li, ds, cv(tuple[None, int]), cv(list[None]), cv(int | None), tsm.UnionType((none,)), i, o, cv(tuple[()]), anyt, cv(list)):
        laws.distance_identical(T)
        laws.reflexive(T)
        laws.top(T)
    u = cv(int | str)
    for t in (i, s, u, cv(int | str | bytes), o, anyt, none, cv(float | str), li):
        laws.union_left(u, t)
        laws.union_left(cv(bool | None), t)
    laws.transitive(b, i, f)
    laws.transitive(b, f, c)
    laws.transitive(b, i, o)
    laws.transitive(b, cv(int | str), cv(float | str | None))
    laws.transitive(cv(tuple[bool, bool]), cv(tuple[int, int]), cv(tuple[float, object]))
    laws.transitive(cv(list[bool]), cv(list[bool]), cv(list[bool] | None))
    ctx.cls("directed:known-shapes")


def run_chunk(spec, ctx):
    import logging

    from vlib import modgen

    logging.disable(logging.CRITICAL)
    seed = spec["seed"]
    if spec["name"] == "directed":
        m = modgen.generate(3000 + seed, 0, ctx.scratch, tag="c25d", force=modgen.FEATURES, size="large")
        cluster, pool, laws = run_hierarchy(ctx, m, random.Random(f"c25-directed-{seed}"), 1500, note="all")
        directed_cases(ctx, cluster, laws)
        for gi, grp in enumerate([("chain", "diamond", "helper_base", "override"), ("builtin_base", "int_enum", "enum", "generic", "generic_sub"),
                                  ("abstract", "nested", "nested_base", "protected_class", "underscore_class")]):
            m = modgen.generate(3100 + seed, gi, ctx.scratch, tag="c25d", force=grp, size="medium")
            run_hierarchy(ctx, m, random.Random(f"c25-directed-{seed}-{gi}"), 800, note=list(grp))
        return
    rng = random.Random(f"c25:{seed}:{spec['part']}")
    for j in range(spec["n"]):
        index = spec["part"] * 1000 + j
        m = modgen.generate(seed, index, ctx.scratch, tag="c25r", size=rng.choice(["small", "medium", "large"]))
        run_hierarchy(ctx, m, rng, spec["triples"])


def replay(w, ctx):
    """Re-generate the witness' hierarchy and re-run the laws on it (directed operands + fresh random triples)."""
    import logging

    from vlib import modgen

    logging.disable(logging.CRITICAL)
    gen = dict(w["case"]["gen"], tag=w["case"]["gen"].get("tag", "") + "rp")
    m = modgen.regenerate(gen, ctx.scratch)
    cluster, _pool, laws = run_hierarchy(ctx, m, random.Random(f"c25-replay-{w.get('seed', 0)}"), 2000)
    directed_cases(ctx, cluster, laws)
