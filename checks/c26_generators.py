"""C26 — generator selection offers only type-compatible generators; both providers agree; caches are not stale.

Shape: history + recomputation.  For every generated package two *real* clusters are built by the real
module analysis (RANK_SELECTION -> GeneratorProvider, RANDOM_SELECTION -> RandomGeneratorProvider).
A fixed query set (class / type queries of the TypeSystem, `_get_generators_for` of both providers,
`get_all_generatable_types`) is asked once to fill the lru caches and re-asked after every graph update
of a random update history (`update_return_type` as the type-tracing observer does, `add_subclass_edge`,
`add_generator`).  After every step each cached answer is compared with the answer of a *fresh*
TypeSystem / provider populated from the current graph and generator table; a query whose cached answer
starts to differ at step s is attributed to the update kind of step s.  On the recomputed offers the
monitor checks compatibility (`is_maybe_subtype(return type, requested type)`) and that both providers
offer the same generators.
"""

from __future__ import annotations

import random

ID = "C26"
LEVEL = "exploration"
CHUNK_TIMEOUT = 1200
UPDATE_KINDS = ("update_return_type", "add_subclass_edge", "add_generator")
# add_subclass_edge comes in sub-kinds (History.edge_tags): new-subclass, unrelated-classes, shortcut-edge over a 2-/3-step path
# (reachability unchanged, shortest path shorter), duplicate-edge, diamond, equal-length-second-path
RULE = (
    "generated packages (vlib/modgen.py) are analysed twice by the real generate_test_cluster (rank and random provider); a fixed "
    "query set (requested types = parameter types of the analysed signatures, their union members, random types over the module's "
    "classes incl. runtime-discovered subclasses; class and type pairs) is asked before and after each step of a random history of "
    "update_return_type / add_subclass_edge / add_generator applied to both clusters; oracle 1: every offered generator's registered "
    "return type R satisfies is_maybe_subtype(R, T) on a fresh type system; oracle 2: both providers offer the same generator set; "
    "oracle 3: every cached answer (is_subclass, is_subtype, is_maybe_subtype, subtype_distance, get_subclasses, get_superclasses, "
    "_get_generators_for, get_all_generatable_types) equals the answer of a fresh TypeSystem/provider built from the current graph and "
    "generator table, first divergence attributed to the update kind of that step; a case is distinct by (cluster, step, query kind, "
    "operand shapes); disagreements are localised to the smallest component before they are keyed"
)
ASSUMPTIONS = [
    "is_maybe_subtype (checked by C25 on the same hierarchies) is the compatibility relation",
    "a fresh TypeSystem holding a copy of the current graph/_types and a fresh provider filled from the current generator table are the recomputation reference",
    "generators are identified across the two clusters by (kind, owner full name, name)",
    "a requested primitive type for which a provider returns nothing is still compared (the statement quantifies over every requested parameter type)",
]


def floors(tier):
    k = 1 if tier == "quick" else 8
    return {
        "evals": 150000 * k,
        "distinct": 2000,
        "classes": {
            "clusters": 135 * k, "oracle:compatible": 50000 * k, "oracle:providers-agree": 15000 * k, "oracle:cache-vs-fresh": 60000 * k,
            "update:update_return_type": 100 * k, "update:add_subclass_edge": 100 * k, "update:add_generator": 100 * k,
            "update:add_subclass_edge:shortcut-edge": 40 * k, "update:add_subclass_edge:shortcut-edge:2-step": 15 * k,
            "update:add_subclass_edge:shortcut-edge:3-step": 8 * k, "update:add_subclass_edge:duplicate-edge": 20 * k,
            "update:add_subclass_edge:equal-length-second-path": 8 * k, "update:add_subclass_edge:diamond": 8 * k,
            "update:add_subclass_edge:unrelated-classes": 10 * k, "update:add_subclass_edge:new-subclass": 20 * k,
            "sequence:update_return_type->add_subclass_edge": 30 * k, "sequence:add_generator->add_subclass_edge": 30 * k,
            "query:_sorted_generators[rank]": 2000,
            "query:is_subclass": 3000, "query:is_subtype": 3000, "query:is_maybe_subtype": 3000, "query:subtype_distance": 3000,
            "query:get_subclasses": 1000, "query:get_superclasses": 1000, "query:_get_generators_for[rank]": 3000,
            "query:_get_generators_for[random]": 3000, "query:get_all_generatable_types": 500,
            "requested:inst": 2000, "requested:inst[]": 1000, "requested:union": 1000, "requested:tuple": 300, "requested:any": 100,
            "requested:none": 100, "requested:primitive": 300, "offer:non-empty": 5000,
        },
    }


def plan(tier, seed):
    chunks = [{"name": "directed", "seed": seed}, {"name": "directed-edges", "seed": seed}]
    n_chunks, per = (14, 10) if tier == "quick" else (60, 20)
    for p in range(n_chunks):
        chunks.append({"name": "random", "seed": seed, "part": p, "n": per})
    return chunks


# --------------------------------------------------------------------------------------------------
def gid(g):
    """Identity of a generator that is stable across clusters."""
    if g.is_enum():
        return ("enum", g.owner.full_name)
    if g.is_constructor():
        return ("ctor", g.owner.full_name)
    if g.is_method():
        return ("method", g.owner.full_name, g.method_name)
    if g.is_function():
        c = g.callable
        # not g.function_name: analysing a module a second time in one process names lambdas "<lambda>" (the first
        # analysis overwrote func.__name__), the function object itself is the same on both sides
        return ("func", getattr(c, "__module__", "?"), getattr(c, "__qualname__", "?"), getattr(c, "__name__", "?"))
    if g.is_field():
        return ("field", g.owner.full_name if g.owner else "?", g.field)
    return ("other", repr(g))


_FRESH_CLS = None


def _fresh_ts_class():
    """A TypeSystem subclass whose queries are the *undecorated* functions: a recomputation that neither reads nor fills
    (nor evicts from) the lru caches under test."""
    global _FRESH_CLS  # noqa: PLW0603
    if _FRESH_CLS is None:
        from vlib import typepool as tp

        from pynguin.analyses.typesystem import TypeSystem

        ns = {}
        for name in tp.CACHED_TS_METHODS:
            meth = getattr(TypeSystem, name, None)
            if meth is not None:
                ns[name] = getattr(meth, "__wrapped__", meth)
        _FRESH_CLS = type("FreshTypeSystem", (TypeSystem,), ns)
    return _FRESH_CLS


def clone_ts(ts):
    """Recomputation reference on a copy of the current graph.  Built without TypeSystem.__init__: the constructor adds
    edges itself, and add_subclass_edge may clear the (class-level, shared) lru caches that are being observed."""
    f = object.__new__(_fresh_ts_class())
    f.__dict__.update(ts.__dict__)
    f._graph = ts._graph.copy()  # noqa: SLF001
    f._types = dict(ts._types)  # noqa: SLF001
    return f


def fresh_provider(p, fts):
    q = type(p)(fts, p._selection_function)  # noqa: SLF001
    for typ, gens in p.get_all().items():
        for g in gens:
            q.add_for_type(typ, g)
    return q


class Side:
    """One real cluster with its provider; `fresh()` rebuilds the recomputation reference."""

    def __init__(self, name, cluster):
        self.name, self.cluster = name, cluster
        self.ts = cluster.type_system
        self.prov = cluster.generator_provider
        self.by_gid = {}
        for gens in cluster.generators.values():
            for g in gens:
                self.by_gid[gid(g)] = g

    def fresh(self):
        fts = clone_ts(self.ts)
        return fts, fresh_provider(self.prov, fts)


def _offer(prov, T, with_distance):
    res = prov._get_generators_for(T)  # noqa: SLF001
    if with_distance:
        return frozenset((gid(x.generator), x._subtype_distance) for x in res)  # noqa: SLF001
    return frozenset(gid(x.generator) for x in res)


def _norm(v):
    from pynguin.utils.orderedset import OrderedSet

    if isinstance(v, (OrderedSet, set, frozenset, list, tuple)):
        return frozenset(getattr(x, "full_name", None) or str(x) for x in v)
    return v


class History:
    def __init__(self, ctx, manifest, rng, case):
        from vlib import typepool as tp

        from pynguin.analyses import typesystem as tsm

        self.ctx, self.m, self.rng, self.case, self.tp, self.tsm = ctx, manifest, rng, case, tp, tsm
        self.rank = Side("rank", tp.build_cluster(manifest, "RANK_SELECTION"))
        self.rand = Side("random", tp.build_cluster(manifest, "RANDOM_SELECTION"))
        tp.clear_type_caches()
        self.sides = (self.rank, self.rand)
        self.pool = tp.Pool(self.rank.ts, self.rank.cluster, manifest, rng)
        # every class the harness may mention is registered in *both* type systems, the way convert_type_hint registers a
        # runtime type before update_return_type is called (a TypeInfo that is no graph node would make networkx raise)
        for ti in self.pool.infos + self.pool.core_infos:
            self.rand.ts.to_type_info(ti.raw_type)
        self.stale_seen = set()
        self.dyn = []
        self.n_dyn = 0
        self.step_no = 0
        self.force_planned = False
        self.edge_targets = []

    # ---- query set ---------------------------------------------------------------------------------
    def build_queries(self, n_types=24, n_pairs=24, n_classes=12):
        rng, pool, tsm = self.rng, self.pool, self.tsm
        import sys

        sm = sys.modules[self.m["sut"]]
        # runtime-discovered subclasses: known to the type system (node) before their edge is added
        bases = [ti for ti in pool.module_infos if not issubclass(ti.raw_type, __import__("enum").Enum) and ti.raw_type.__flags__ & (1 << 10)]
        for _ in range(2):
            if not bases:
                break
            b = rng.choice(bases)
            self.n_dyn += 1
            name = f"Dyn{self.n_dyn}"
            try:
                cls = type(name, (b.raw_type,), {"__module__": self.m["sut"], "__qualname__": name})
            except TypeError:
                continue
            setattr(sm, name, cls)
            infos = [s.ts.to_type_info(cls) for s in self.sides]
            self.dyn.append((infos[0], b))
        self.build_scaffold(bases, sm)
        dyn_infos = [d for d, _ in self.dyn] + [ti for ti in self.scaffold if ti not in bases]
        # requested types
        params = [t for t in pool.harvested]
        rng.shuffle(params)
        req = []
        for t in params[: n_types // 2]:
            req.append(t)
            if isinstance(t, tsm.UnionType) and rng.random() < 0.5:
                req.append(rng.choice(t.items))
        for d in dyn_infos:
            req.append(tsm.Instance(d))
            req.append(tsm.Instance(pool.list_i, (tsm.Instance(d),)))
        for _, b in self.dyn:
            req.append(self.rank.ts.make_instance(b))
        for ti in self.scaffold:
            req.append(self.rank.ts.make_instance(ti))
        req += [tsm.ANY, tsm.NONE_TYPE, self.rank.ts.convert_type_hint(int), self.rank.ts.convert_type_hint(str)]
        while len(req) < n_types:
            req.append(pool.rand(1))
        seen, self.req = set(), []
        for t in req:
            if t not in seen:
                seen.add(t)
                self.req.append(t)
        # class pairs / singles
        cls_infos = list(pool.module_infos) + dyn_infos + [self.rank.ts.to_type_info(x) for x in (object, int, float, str, list)]
        self.class_pairs = []
        for d, b in self.dyn:
            self.class_pairs += [(d, b), (b, d), (d, self.rank.ts.to_type_info(object))]
        for group in self.affected_groups:  # every ordered pair along the paths a planned edge touches
            for a in group:
                for b in group:
                    if a != b:
                        self.class_pairs.append((a, b))
        while len(self.class_pairs) < n_classes * 2:
            self.class_pairs.append((rng.choice(cls_infos), rng.choice(cls_infos)))
        self.class_singles = [b for _, b in self.dyn] + dyn_infos + [rng.choice(cls_infos) for _ in range(n_classes)]
        # type pairs
        self.type_pairs = []
        for d, b in self.dyn:
            di, bi = tsm.Instance(d), self.rank.ts.make_instance(b)
            self.type_pairs += [(di, bi), (bi, di), (tsm.TupleType((di,)), tsm.TupleType((bi,))), (pool.union([di, tsm.NONE_TYPE]), pool.union([bi, tsm.NONE_TYPE]))]
        for group in self.affected_groups:
            for a in group:
                for b in group:
                    if a != b:
                        self.type_pairs.append((self.rank.ts.make_instance(a), self.rank.ts.make_instance(b)))
        n_pairs += len(self.type_pairs)
        while len(self.type_pairs) < n_pairs:
            a = pool.rand(1)
            b = pool.widen(a) if rng.random() < 0.5 else pool.rand(1)
            self.type_pairs.append((a, b) if rng.random() < 0.5 else (b, a))

    def build_scaffold(self, bases, sm):
        """Runtime classes with several bases, registered the way the module analysis does it: one edge per base, one at a
        time.  X <- S1 <- S2 <- S3 where S2 and S3 also list X as a direct base (shortcut edges over a 2- and a 3-step path),
        X <- L, X <- R, D(L, R) (the second edge closes a diamond / adds a second path of equal length).  The first edge of every
        class is part of the initial graph; the remaining ones are *planned* updates of the history."""
        import networkx as nx

        self.scaffold, self.affected_groups, self.planned_edges = [], [], []
        rng = self.rng
        g = self.rank.ts._graph  # noqa: SLF001
        mi = self.pool.module_infos
        if bases:
            x = rng.choice(bases)
            mk = lambda name, bs: type(name, bs, {"__module__": self.m["sut"], "__qualname__": name})  # noqa: E731
            try:
                s1 = mk("DynS1", (x.raw_type,))
                s2 = mk("DynS2", (s1, x.raw_type))
                s3 = mk("DynS3", (s2, x.raw_type))
                le = mk("DynL", (x.raw_type,))
                ri = mk("DynR", (x.raw_type,))
                di = mk("DynD", (le, ri))
            except TypeError:
                s1 = None
            if s1 is not None:
                infos = {}
                for cls in (s1, s2, s3, le, ri, di):
                    setattr(sm, cls.__name__, cls)
                    infos[cls.__name__] = [s.ts.to_type_info(cls) for s in self.sides][0]
                S1, S2, S3, L, R, D = (infos[n] for n in ("DynS1", "DynS2", "DynS3", "DynL", "DynR", "DynD"))
                for sup, sub in ((x, S1), (S1, S2), (S2, S3), (x, L), (x, R), (L, D)):
                    self._add_edge_both(sup, sub)
                self.scaffold = [x, S1, S2, S3, L, R, D]
                self.affected_groups += [[x, S1, S2, S3], [x, L, R, D]]
                self.planned_edges += [("shortcut-3", x, S3), ("shortcut-2", x, S2), ("duplicate", x, S1), ("diamond", R, D), ("duplicate", S1, S2)]
        # the same kinds over the module's own classes, where the analysed hierarchy offers them
        nodes = [ti for ti in mi if ti in g] + [self.rank.ts.to_type_info(object)]
        natural = {"shortcut-2": [], "shortcut-3": [], "duplicate": [], "diamond": []}
        for a in nodes:
            lengths = nx.single_source_shortest_path_length(g, a, cutoff=3)
            for c, d in lengths.items():
                if c in mi and d in (2, 3):
                    natural[f"shortcut-{d}"].append((a, c))
            for c in g.successors(a):
                if c in mi:
                    natural["duplicate"].append((a, c))
        for a in mi:
            kids = [k for k in g.successors(a) if k in mi]
            for le in kids:
                for ri in kids:
                    if le == ri or nx.has_path(g, le, ri) or nx.has_path(g, ri, le):
                        continue
                    for d in g.successors(le):
                        if d in mi and not nx.has_path(g, ri, d) and not nx.has_path(g, d, ri):
                            natural["diamond"].append((ri, d, a, le))
        for kind, cands in natural.items():
            if cands and rng.random() < 0.6:
                c = rng.choice(cands)
                self.planned_edges.append((kind, c[0], c[1]))
                if kind.startswith("shortcut"):
                    self.affected_groups.append(list(nx.shortest_path(g, c[0], c[1])))
                elif kind == "diamond":
                    self.affected_groups.append([c[2], c[3], c[0], c[1]])
        rng.shuffle(self.planned_edges)
        # sub endpoints: preferred targets of update_return_type / add_generator, so that generators are affected by the edges
        self.edge_targets = [e[2] for e in self.planned_edges if isinstance(e[2].raw_type, type)]

    def _add_edge_both(self, sup, sub):
        for s in self.sides:
            s.ts.add_subclass_edge(super_class=s.ts.find_type_info(sup.full_name) or sup, sub_class=s.ts.find_type_info(sub.full_name) or sub)

    def edge_tags(self, sup, sub):
        """What this edge does to the current graph (features of the update, used as coverage classes and in the log)."""
        import networkx as nx

        g = self.rank.ts._graph  # noqa: SLF001
        tags = []
        if g.has_edge(sup, sub):
            return ["duplicate-edge"]
        if nx.has_path(g, sup, sub):
            d = nx.shortest_path_length(g, sup, sub)
            tags += ["shortcut-edge", f"shortcut-edge:{d}-step"]
        else:
            parents = list(g.predecessors(sub)) if sub in g else []
            if not parents:
                tags.append("new-subclass")
            elif not nx.has_path(g, sub, sup):
                tags.append("unrelated-classes" if all(not nx.has_path(g, p, sup) and not nx.has_path(g, sup, p) for p in parents) else "related-classes")
            obj = self.rank.ts.to_type_info(object)
            anc_sup = nx.ancestors(g, sup) | {sup}
            for p in parents:
                common = (nx.ancestors(g, p) | {p}) & anc_sup - {obj}
                if common and not nx.has_path(g, p, sup) and not nx.has_path(g, sup, p):
                    tags.append("diamond")
                    break
            for a in anc_sup:
                if a != obj and nx.has_path(g, a, sub) and nx.shortest_path_length(g, a, sub) == nx.shortest_path_length(g, a, sup) + 1:
                    tags.append("equal-length-second-path")
                    break
        return tags

    def all_queries(self):
        for a, b in self.class_pairs:
            yield ("is_subclass", (a, b))
        for a in self.class_singles:
            yield ("get_subclasses", (a,))
            yield ("get_superclasses", (a,))
        for a, b in self.type_pairs:
            yield ("is_subtype", (a, b))
            yield ("is_maybe_subtype", (a, b))
            yield ("subtype_distance", (b, a))
        for t in self.req:
            yield ("_get_generators_for", (t,))
        yield ("get_all_generatable_types", ())

    # ---- answering --------------------------------------------------------------------------------
    def ask(self, side, fts, fprov, q, args):
        """(cached, fresh) answers of one side."""
        if q == "_get_generators_for":
            wd = side.name == "rank"
            return _offer(side.prov, args[0], wd), _offer(fprov, args[0], wd)
        if q == "get_all_generatable_types":
            cached = frozenset(str(t) for t in side.cluster.get_all_generatable_types())
            ref = set(fprov.get_all_types())
            ref.update(fts.primitive_proper_types)
            ref.update(fts.collection_proper_types)
            return cached, frozenset(str(t) for t in ref)
        return _norm(getattr(side.ts, q)(*args)), _norm(getattr(fts, q)(*args))

    def shapes(self, args):
        out = []
        for a in args:
            out.append(self.tp.shape(a) if isinstance(a, self.tsm.ProperType) else "class")
        return "/".join(out)

    def sweep(self, op):
        """Ask every query on both sides, compare cached vs fresh, then run oracles 1 and 2 on the fresh offers."""
        ctx = self.ctx
        fresh = {s.name: s.fresh() for s in self.sides}
        offers = {}
        for q, args in self.all_queries():
            for s in self.sides:
                if q in ("is_subclass", "is_subtype", "is_maybe_subtype", "subtype_distance", "get_subclasses", "get_superclasses") and s is self.rand:
                    continue  # the type-system code is the same on both sides; one side is enough
                fts, fprov = fresh[s.name]
                try:
                    cached, ref = self.ask(s, fts, fprov, q, args)
                except Exception as e:  # noqa: BLE001
                    ctx.witness(f"raises:{q}:{type(e).__name__}:{self.shapes(args)}", f"{q}({', '.join(map(str, args))}) raised {e!r} after {op}",
                                {**self.case, "step": self.step_no, "op": op, "query": q, "args": [str(a) for a in args]})
                    continue
                qname = f"{q}[{s.name}]" if q == "_get_generators_for" else q
                ctx.ok(cls=["oracle:cache-vs-fresh", f"query:{qname}"], distinct=f"{self.case['module']}|{self.step_no}|{qname}|{self.shapes(args)}")
                ident = (s.name, q, args)
                if cached != ref and ident not in self.stale_seen:
                    self.stale_seen.add(ident)
                    blame = op
                    if q == "_get_generators_for" and op != "add_subclass_edge" and any(h[0] == "add_subclass_edge" for h in self.log):
                        # a provider without any cache of its own, on the real (cached) type system: if it reproduces the cached
                        # answer the provider cache is not the stale one - the type-system caches left by an earlier edge are
                        half = _offer(fresh_provider(s.prov, s.ts), args[0], s.name == "rank")
                        if half == cached:
                            blame = "add_subclass_edge"
                    ctx.witness(f"stale:{qname}:after:{blame}",
                                f"after {op} (step {self.step_no}) cached {q}({', '.join(map(str, args))}) = {_short(cached)} but a fresh "
                                f"type system/provider on the current graph gives {_short(ref)}",
                                {**self.case, "step": self.step_no, "op": op, "query": q, "args": [str(a) for a in args], "history": self.log})
                if q == "_get_generators_for":
                    offers[(s.name, args[0])] = ref
                    if s.name == "rank" and cached == ref and ref:
                        self.check_order(s, fprov, args[0], op)
        fts = fresh["rank"][0]
        for T in self.req:
            self.oracles_on_offer(T, offers.get(("rank", T)), offers.get(("random", T)), fts, fresh)

    def check_order(self, side, fprov, T, op):
        """The order in which the rank provider ranks the offered generators (observable through _sorted_generators, which
        RankSelection indexes into).  Only evaluated when membership and distances already agree; ties are compared as sets."""
        def ranking(prov):
            res = prov._sorted_generators(prov._get_generators_for(T).freeze())  # noqa: SLF001
            groups = []
            for x in res:
                f = x.get_fitness()
                if groups and groups[-1][0] == f:
                    groups[-1][1].add(gid(x.generator))
                else:
                    groups.append((f, {gid(x.generator)}))
            return [(f, frozenset(ids)) for f, ids in groups]

        try:
            cached, ref = ranking(side.prov), ranking(fprov)
        except Exception as e:  # noqa: BLE001
            self.ctx.witness(f"raises:_sorted_generators:{type(e).__name__}", f"_sorted_generators for {T} raised {e!r} after {op}", {**self.case, "T": str(T)})
            return
        self.ctx.ok(cls=["oracle:cache-vs-fresh", "query:_sorted_generators[rank]"], distinct=f"{self.case['module']}|{self.step_no}|order|{self.tp.shape(T)}")
        ident = ("rank", "_sorted_generators", (T,))
        if cached != ref and ident not in self.stale_seen:
            self.stale_seen.add(ident)
            first = next((i for i, (a, b) in enumerate(zip(cached, ref)) if a != b), min(len(cached), len(ref)))
            self.ctx.witness(f"stale:_sorted_generators[rank]:after:{op}",
                             f"after {op} (step {self.step_no}) the rank order of generators for {T} differs from a fresh provider at rank group {first}: "
                             f"cached {_short(cached[first][1]) if first < len(cached) else '-'} (fitness {cached[first][0] if first < len(cached) else '-'}) vs "
                             f"fresh {_short(ref[first][1]) if first < len(ref) else '-'} (fitness {ref[first][0] if first < len(ref) else '-'})",
                             {**self.case, "step": self.step_no, "op": op, "T": str(T), "history": self.log})

    # ---- oracles 1 and 2 ------------------------------------------------------------------------------
    def req_class(self, T):
        from pynguin.analyses.typesystem import is_primitive_type

        if isinstance(T, self.tsm.Instance) and T.accept(is_primitive_type):
            return "primitive"
        return self.tp.shape(T)

    def keys_of(self, prov, g_id):
        return [typ for typ, gens in prov.get_all().items() if any(gid(g) == g_id for g in gens)]

    def oracles_on_offer(self, T, rank_offer, rand_offer, fts, fresh):
        ctx = self.ctx
        if rank_offer is None or rand_offer is None:
            return
        rank_ids = {g for g, _ in rank_offer}
        rand_ids = set(rand_offer)
        rc = self.req_class(T)
        ctx.cls(f"requested:{rc}")
        if rank_ids or rand_ids:
            ctx.cls("offer:non-empty")
        # oracle 1: compatibility of everything either provider offers
        for who, ids, prov in (("rank", rank_ids, fresh["rank"][1]), ("random", rand_ids, fresh["random"][1])):
            table = {}
            for typ, gens in prov.get_all().items():
                for g in gens:
                    table.setdefault(gid(g), []).append(typ)
            for g_id in ids:
                keys = table.get(g_id, [])
                ctx.ok(cls="oracle:compatible")
                if isinstance(T, self.tsm.AnyType):
                    continue
                try:
                    compat = any(fts.is_maybe_subtype(R, T) for R in keys)
                except Exception as e:  # noqa: BLE001
                    ctx.witness(f"raises:is_maybe_subtype:{type(e).__name__}", f"is_maybe_subtype({keys}, {T}) raised {e!r}", {**self.case, "T": str(T)})
                    continue
                if not compat:
                    R = keys[0] if keys else None
                    t2, r2, rel = self.localise_incompat(fts, T, R) if R is not None else (T, R, "-")
                    ctx.witness(f"incompatible-offer:{who}:T={self.tp.shape(t2)}/R={self.tp.shape(r2) if r2 is not None else 'unregistered'}:{rel}",
                                f"{who} provider offers {g_id} (registered return type {R}) for requested type {T}, but is_maybe_subtype({R}, {T}) is False; "
                                f"smallest disagreeing component: requested {t2}, returned {r2}",
                                {**self.case, "step": self.step_no, "T": str(T), "R": str(R), "generator": list(map(str, g_id)), "history": self.log})
        # oracle 2: same set
        ctx.ok(cls="oracle:providers-agree", distinct=f"{self.case['module']}|agree|{rc}|{bool(rank_ids)}|{bool(rand_ids)}")
        if rank_ids == rand_ids:
            return
        prov = fresh["rank"][1]
        reported = set()
        for g_id in sorted(rank_ids ^ rand_ids, key=str):
            who = "only-rank" if g_id in rank_ids else "only-random"
            keys = self.keys_of(prov, g_id)
            R = keys[0] if keys else None
            if len(keys) > 1:
                # a generator whose return type was updated several times is listed under several keys: the one that makes the
                # offering provider offer it is the one to explain (not an older key)
                try:
                    if who == "only-random":
                        R = next((k for k in keys if fts.is_maybe_subtype(k, T)), R)
                    else:
                        R = next((k for k in keys if fts.subtype_distance(T, k) is not None), R)
                except Exception:  # noqa: BLE001
                    pass
            if rc == "primitive" and who == "only-random":
                key = "provider-diff:only-random:primitive-requested"
                t2, r2 = T, R
            elif R is None:
                key, t2, r2 = f"provider-diff:{who}:generator-not-in-rank-table", T, R
            elif who == "only-rank":
                t2, r2, rel = self.localise_incompat(fts, T, R)
                key = f"provider-diff:only-rank:T={self.tp.shape(t2)}/R={self.tp.shape(r2)}:{rel}"
            else:
                t2, r2 = self.localise_undefined(fts, T, R)
                key = f"provider-diff:only-random:T={self.tp.shape(t2)}/R={self.tp.shape(r2)}"
                if isinstance(t2, self.tsm.Instance) and isinstance(r2, self.tsm.Instance):
                    key += ":same-class" if t2.type == r2.type else ":different-class"
                    if t2.args and r2.args:
                        key += ":hardcoded-generic-args" if t2.type.num_hardcoded_generic_parameters is not None else ":user-generic-args"
            if key in reported:
                continue
            reported.add(key)
            ctx.witness(key, f"requested {T}: {who} offers {g_id} (registered return type {R}); rank offers {len(rank_ids)}, random offers {len(rand_ids)} generators; "
                             f"smallest disagreeing component: requested {t2}, returned {r2}: subtype_distance = "
                             f"{_safe(lambda: fts.subtype_distance(t2, r2))}, is_maybe_subtype = {_safe(lambda: fts.is_maybe_subtype(r2, t2))}",
                        {**self.case, "step": self.step_no, "T": str(T), "R": str(R), "generator": list(map(str, g_id)), "history": self.log})

    def localise_incompat(self, ts, T, S, depth=0):
        """Smallest (T', S') with subtype_distance(T', S') defined but not is_maybe_subtype(S', T')."""
        tsm = self.tsm

        def bad(t, s):
            try:
                return ts.subtype_distance(t, s) is not None and not ts.is_maybe_subtype(s, t)
            except Exception:  # noqa: BLE001
                return False

        if depth <= 6:
            if isinstance(T, tsm.UnionType):
                for it in T.items:
                    if bad(it, S):
                        return self.localise_incompat(ts, it, S, depth + 1)
            if isinstance(S, tsm.UnionType):
                for it in S.items:
                    if bad(T, it):
                        return self.localise_incompat(ts, T, it, depth + 1)
            pairs = []
            if isinstance(T, tsm.TupleType) and isinstance(S, tsm.TupleType) and len(T.args) == len(S.args):
                pairs = list(zip(T.args, S.args))
            elif isinstance(T, tsm.Instance) and isinstance(S, tsm.Instance) and T.args and S.args:
                pairs = list(zip(T.args, S.args))
            for x, y in pairs:
                if bad(x, y):
                    return self.localise_incompat(ts, x, y, depth + 1)
        rel = "-"
        if isinstance(T, tsm.Instance) and isinstance(S, tsm.Instance):
            if S.type == T.type:
                rel = "same-class:args-not-equivalent" if (T.args or S.args) else "same-class"
            elif ts.is_subclass(S.type, T.type):
                rel = "subclass"
            else:
                rel = "unrelated-classes"
        if not bad(T, S):
            rel = "no-distance-disagreement"
        return T, S, rel

    def localise_undefined(self, ts, T, S, depth=0):
        """Smallest (T', S') with is_maybe_subtype(S', T') but subtype_distance(T', S') undefined."""
        tsm = self.tsm

        def und(t, s):
            try:
                return ts.is_maybe_subtype(s, t) and ts.subtype_distance(t, s) is None
            except Exception:  # noqa: BLE001
                return False

        if depth > 6 or not und(T, S):
            return T, S
        if isinstance(T, tsm.UnionType):
            for it in T.items:
                if und(it, S):
                    return self.localise_undefined(ts, it, S, depth + 1)
        if isinstance(S, tsm.UnionType) and not isinstance(T, tsm.UnionType):
            for it in S.items:
                if und(T, it):
                    return self.localise_undefined(ts, T, it, depth + 1)
        pairs = []
        if isinstance(T, tsm.TupleType) and isinstance(S, tsm.TupleType) and len(T.args) == len(S.args):
            pairs = list(zip(T.args, S.args))
        elif isinstance(T, tsm.Instance) and isinstance(S, tsm.Instance) and T.args and S.args:
            pairs = list(zip(T.args, S.args))
        for x, y in pairs:
            if und(x, y):
                return self.localise_undefined(ts, x, y, depth + 1)
        return T, S

    # ---- updates -------------------------------------------------------------------------------------
    def new_return_type(self):
        rng, tsm, pool = self.rng, self.tsm, self.pool
        r = rng.random()
        if self.edge_targets and rng.random() < 0.4:
            return self.rank.ts.make_instance(rng.choice(self.edge_targets))
        if r < 0.45:
            return self.rank.ts.make_instance(rng.choice(pool.module_infos + [d for d, _ in self.dyn]))
        if r < 0.6:
            return tsm.NONE_TYPE
        if r < 0.75:
            return tsm.Instance(pool.list_i, (pool.inst(),))
        if r < 0.85:
            return tsm.TupleType((pool.inst(), pool.inst()))
        return self.rank.ts.make_instance(rng.choice(pool.core_infos))

    def do_update(self, kind):
        rng = self.rng
        self.ctx.cls(f"update:{kind}")
        if kind == "update_return_type":
            cands = sorted((k for k, g in self.rank.by_gid.items() if k[0] in ("method", "func", "ctor") and k in self.rand.by_gid), key=str)
            k = rng.choice(cands)
            new = self.new_return_type()
            self.log.append([kind, list(map(str, k)), str(new)])
            for s in self.sides:
                s.cluster.update_return_type(s.by_gid[k], new)
            return
        if kind == "add_subclass_edge":
            import networkx as nx

            g = self.rank.ts._graph  # noqa: SLF001
            pending = [(d, b) for d, b in self.dyn if not _has_edge(self.rank.ts, b, d)]
            planned = None
            while self.planned_edges and planned is None:
                cand = self.planned_edges.pop()
                if not nx.has_path(g, cand[2], cand[1]) or cand[0] == "duplicate":  # never close a cycle
                    planned = cand
            r = rng.random()
            if planned is not None and (r < 0.6 or self.force_planned):
                sup, sub = planned[1], planned[2]
            elif pending and r < 0.85:
                if planned is not None:
                    self.planned_edges.append(planned)
                sub, sup = pending[0]
            else:
                if planned is not None:
                    self.planned_edges.append(planned)
                infos = self.pool.module_infos
                for _ in range(20):
                    sup, sub = rng.choice(infos), rng.choice(infos)
                    if sup != sub and not _reachable(self.rank.ts, sub, sup) and not _reachable(self.rank.ts, sup, sub):
                        break
                else:
                    sub, sup = self.dyn[0] if self.dyn else (infos[0], infos[-1])
            tags = self.edge_tags(sup, sub)
            for t in tags:
                self.ctx.cls(f"update:add_subclass_edge:{t}")
            for prev in {h[0] for h in self.log}:
                if prev != kind:
                    self.ctx.cls(f"sequence:{prev}->add_subclass_edge")
            self.log.append([kind, sup.full_name, sub.full_name, tags])
            self._add_edge_both(sup, sub)
            return
        # add_generator: a function discovered later, returning a module class / a runtime subclass / a container / nothing annotated
        from pynguin.analyses.type_inference import HintInference
        from pynguin.utils.generic.genericaccessibleobject import GenericFunction

        self.n_dyn += 1
        choices = [ti.raw_type for ti in self.pool.module_infos] + [d.raw_type for d, _ in self.dyn]
        target = rng.choice(choices)
        if self.edge_targets and rng.random() < 0.5:
            target = rng.choice(self.edge_targets).raw_type
        ret = rng.choice([target, target, list[target], target | None, None])
        name = f"dyn_fn{self.n_dyn}"

        def fn(x: int = 0):
            return None

        fn.__name__ = fn.__qualname__ = name
        fn.__module__ = self.m["sut"]
        if ret is not None:
            fn.__annotations__["return"] = ret
        self.log.append([kind, name, str(ret)])
        for s in self.sides:
            sig = s.ts.infer_type_info(fn, type_inference_provider=HintInference())
            gf = GenericFunction(fn, sig, set(), name)
            s.cluster.add_generator(gf)
            s.by_gid[gid(gf)] = gf

    def run(self, steps, kinds=None):
        self.log = []
        self.build_queries()
        self.ctx.cls("clusters")
        self.step_no = 0
        self.sweep("analysis")
        for i in range(steps):
            self.step_no = i + 1
            kind = (kinds[i % len(kinds)] if kinds else self.rng.choice(UPDATE_KINDS))
            self.do_update(kind)
            self.sweep(kind)
        if len(self.ctx.samples) < 3:
            self.ctx.sample({"module": self.m["sut"], "history": self.log[:6], "requested": [str(t) for t in self.req[:6]]})


def _has_edge(ts, sup, sub):
    return ts._graph.has_edge(sup, sub)  # noqa: SLF001


def _reachable(ts, a, b):
    import networkx as nx

    g = ts._graph  # noqa: SLF001
    return a in g and b in g and nx.has_path(g, a, b)


def _short(v):
    if isinstance(v, frozenset):
        items = sorted(map(str, v))
        return f"{{{len(items)} items: {', '.join(items[:4])}{', ...' if len(items) > 4 else ''}}}"
    return repr(v)


def _safe(f):
    try:
        return f()
    except Exception as e:  # noqa: BLE001
        return f"raises {type(e).__name__}"


def run_cluster(ctx, manifest, rng, steps, kinds=None, note=None, force_planned=False):
    case = {"gen": manifest["gen"], "module": manifest["sut"], "forced": note}
    h = History(ctx, manifest, rng, case)
    h.force_planned = force_planned
    h.run(steps, kinds)
    return h


def run_chunk(spec, ctx):
    import logging

    from vlib import modgen

    logging.disable(logging.CRITICAL)
    seed = spec["seed"]
    if spec["name"] == "directed":
        m = modgen.generate(4000 + seed, 0, ctx.scratch, tag="c26d", force=modgen.FEATURES, size="medium")
        run_cluster(ctx, m, random.Random(f"c26-directed-{seed}"), 6, kinds=list(UPDATE_KINDS), note="all")
        for gi, kinds in enumerate([["update_return_type"], ["add_subclass_edge"], ["add_generator"]]):
            m = modgen.generate(4100 + seed, gi, ctx.scratch, tag="c26d", force=("chain", "diamond", "generic", "enum", "builtin_base"), size="small")
            run_cluster(ctx, m, random.Random(f"c26-directed-{seed}-{gi}"), 5, kinds=kinds, note=kinds)
        return
    if spec["name"] == "directed-edges":
        # every edge kind (shortcut over 2 and 3 steps, duplicate, diamond / second path of equal length, natural candidates),
        # once right after the analysis and once after update_return_type / add_generator targeted at the affected classes
        for gi, kinds in enumerate([["add_subclass_edge"] * 9, ["update_return_type", "add_generator", "update_return_type", "add_generator"] + ["add_subclass_edge"] * 8]):
            m = modgen.generate(4200 + seed, gi, ctx.scratch, tag="c26d", force=("chain", "diamond", "helper_base", "override"), size="medium")
            run_cluster(ctx, m, random.Random(f"c26-directed-edges-{seed}-{gi}"), len(kinds), kinds=kinds, note=kinds, force_planned=True)
        return
    rng = random.Random(f"c26:{seed}:{spec['part']}")
    for j in range(spec["n"]):
        index = spec["part"] * 1000 + j
        m = modgen.generate(seed, index, ctx.scratch, tag="c26r", size=rng.choice(["small", "small", "medium"]))
        run_cluster(ctx, m, rng, rng.randint(4, 7))


def replay(w, ctx):
    """Re-generate the witness' package and run a fresh update history (all three update kinds) on it."""
    import logging

    from vlib import modgen

    logging.disable(logging.CRITICAL)
    gen = dict(w["case"]["gen"], tag=w["case"]["gen"].get("tag", "") + "rp")
    m = modgen.regenerate(gen, ctx.scratch)
    run_cluster(ctx, m, random.Random(f"c26-replay-{w.get('seed', 0)}"), 6, kinds=list(UPDATE_KINDS))
