"""C27 — the test cluster holds exactly the module's eligible callables.

Shape: reference model by construction.  `vlib/modgen.py` writes a package (SUT + helper module) and
returns a manifest of everything it emitted; `modgen.expected_under_test` is the executable reading of
the statement over that manifest (three-valued).  The real `generate_test_cluster` analyses the real
module under PUBLIC / PROTECTED / ALL and ignore lists, and the monitor compares
`accessible_objects_under_test` entry by entry with the manifest.
"""

from __future__ import annotations

import random

ID = "C27"
LEVEL = "exploration"
CHUNK_TIMEOUT = 900
RULE = (
    "seeded packages of two modules (SUT + helper: inheritance chains/diamonds, helper/builtin/generic/nested bases, enums, "
    "abstract classes, public/protected/private(mangled)/dunder methods, static/class methods, properties, coroutines, async "
    "generators, lambdas bound to public/protected/private names, lru_cache/wraps-decorated functions, re-exports from the helper) "
    "are analysed by the real generate_test_cluster under PUBLIC/PROTECTED/ALL x ignore_methods/ignore_modules; oracle = the "
    "generator's own manifest (who defines what, visibility class, flags); every manifest entry the statement decides is one "
    "evaluation (must be / must not be under test), every object under test must map to a manifest entry of the SUT module; "
    "a case is distinct by (module, setting, ignore lists); entries the statement does not decide (nested classes, classmethods, "
    "properties, abstract constructors, members of non-public classes) are only counted as anomalies"
)
ASSUMPTIONS = [
    "the manifest written by vlib/modgen.py describes the emitted source (each entry is resolved to the runtime object before use; a miss is a harness error, not a verdict)",
    "visibility classes: public = no leading underscore or dunder, protected = one leading underscore, private = two leading underscores without dunder suffix (mangled inside classes)",
    "coroutines / async generators are not eligible (Pynguin cannot execute them); abstract-class constructors, classmethods, properties, class-level lambdas, nested classes and members of non-public classes are undecided by the statement",
    "an entry named in ignore_methods as <module>.<qualified name as written> (or its mangled form) is 'ignored by configuration'",
]

SETTINGS = ("PUBLIC", "PROTECTED", "ALL")


def floors(tier):
    k = 1 if tier == "quick" else 8
    return {
        "evals": 20000 * k,
        "distinct": 300 * k,
        "classes": {
            "setting:PUBLIC": 2000, "setting:PROTECTED": 2000, "setting:ALL": 2000,
            "kind:function": 500, "kind:method": 2000, "kind:constructor": 500, "kind:enum": 50,
            "vis:public": 1000, "vis:protected": 300, "vis:private": 300, "vis:dunder": 300,
            "flag:coroutine": 30, "flag:lambda": 30, "flag:lru_cache": 20, "flag:wraps": 5, "flag:staticmethod": 30,
            "flag:override": 30, "flag:generator": 20, "reason:foreign": 1000, "reason:ignored": 20,
            "inherited-not-overridden": 300, "under-test-object-mapped": 3000, "ignore_modules": 10,
        },
    }


def plan(tier, seed):
    chunks = [{"name": "directed", "seed": seed, "vis": v} for v in SETTINGS] + [{"name": "directed-groups", "seed": seed}]
    n_chunks, per = (12, 8) if tier == "quick" else (60, 18)
    for p in range(n_chunks):
        chunks.append({"name": "random", "seed": seed, "part": p, "n": per})
    return chunks


# --------------------------------------------------------------------------------------------------
def _resolve(mod, qualname):
    obj = mod
    for part in qualname.split("."):
        obj = getattr(obj, part)
    return obj


def _setup_config(sut, visibility, ignore_methods, ignore_modules):
    import pynguin.configuration as config

    c = config.configuration
    c.module_name = sut
    c.element_visibility = config.ElementVisibility(visibility)
    c.ignore_methods = list(ignore_methods)
    c.ignore_modules = list(ignore_modules)


def _qualifiers(e, owner):
    q = sorted(e["flags"])
    if e["mangled"] and owner is not None and owner["name_has_underscore"]:
        q.append("owner-name-has-underscore")
    if owner is not None and owner["enum"] and e["kind"] == "method":
        q.append("enum-owner")
    return q


def _mechanism(e, owner, want, reason, visibility):
    """Mechanism key from features of the witness only (kind, visibility class, flags, owner shape, setting)."""
    quals = _qualifiers(e, owner)
    kind = e["kind"]
    if want:  # eligible but missing
        if "enum-owner" in quals:
            return "missing:method:enum-owner"
        parts = ["missing", kind, f"vis={e['vis']}"]
        if e["vis"] in ("protected", "private"):
            parts.append(visibility)
        return ":".join(parts + quals)
    if reason == "visibility":
        if "lambda" in e["flags"]:
            return f"extra:{kind}:not-visible:lambda"
        return ":".join(["extra", kind, "not-visible", f"vis={e['vis']}", visibility] + quals)
    if reason == "ignored":
        return f"extra:{kind}:ignored-by-ignore_methods" + (":lambda" if "lambda" in e["flags"] else "")
    return ":".join(["extra", kind, reason] + quals)


def check_pair(ctx, manifest, visibility, ignore_methods=(), ignore_modules=(), note=None):
    """Analyse manifest['sut'] under one configuration and compare with the manifest."""
    import importlib
    import inspect
    import sys

    from vlib import modgen

    from pynguin.analyses.module import generate_test_cluster

    if manifest["dir"] not in sys.path:
        sys.path.insert(0, manifest["dir"])
    importlib.invalidate_caches()
    sut, helper = manifest["sut"], manifest["helper"]
    case = {"gen": manifest["gen"], "features_forced": note,
            "visibility": visibility, "ignore_methods": list(ignore_methods), "ignore_modules": list(ignore_modules)}
    _setup_config(sut, visibility, ignore_methods, ignore_modules)
    try:
        cluster = generate_test_cluster(sut)
    except Exception as e:  # noqa: BLE001
        import traceback

        fr = traceback.extract_tb(e.__traceback__)[-1]
        ctx.witness(f"analysis-raises:{type(e).__name__}:{fr.name}", f"generate_test_cluster({sut}) under {visibility} raised {e!r}", case)
        return
    finally:
        _setup_config("", "PUBLIC", (), ())
    sm, hm = sys.modules[sut], sys.modules[helper]
    mods = {sut: sm, helper: hm}
    cls_by_key = {(c["module"], c["qualname"]): c for c in manifest["classes"]}
    cls_obj = {}
    for c in manifest["classes"]:
        cls_obj[id(_resolve(mods[c["module"]], c["qualname"]))] = (c["module"], c["qualname"])
    fn_obj = {}
    entries = {}
    for e in manifest["callables"]:
        entries[modgen.entry_key(e)] = e
        if e["kind"] == "function":
            fn_obj[id(getattr(mods[e["module"]], e["binding"]))] = modgen.entry_key(e)
    inherited = {(i["class_module"], i["class"], i["name"]): i for i in manifest["inherited"]}

    # ---- what the real cluster marks as under test, mapped onto manifest keys
    present = {}
    for o in cluster.accessible_objects_under_test:
        key = None
        if o.is_enum() or o.is_constructor():
            ck = cls_obj.get(id(o.owner.raw_type))
            if ck is not None:
                key = ("enum" if o.is_enum() else "constructor", ck[0], ck[1])
                if key not in entries:  # enum listed as constructor or vice versa
                    alt = ("constructor" if o.is_enum() else "enum", ck[0], ck[1])
                    key = alt if alt in entries else key
            origin = getattr(o.owner.raw_type, "__module__", "?")
            what = "enum" if o.is_enum() else "constructor"
        elif o.is_method():
            ck = cls_obj.get(id(o.owner.raw_type))
            if ck is not None:
                key = ("method", ck[0], ck[1], o.method_name)
            origin = getattr(o.owner.raw_type, "__module__", "?")
            what = "method"
        elif o.is_function():
            key = fn_obj.get(id(o.callable))
            origin = getattr(inspect.unwrap(o.callable), "__module__", "?")
            what = "function"
        else:
            origin, what = "?", type(o).__name__
        if key is not None and key in entries:
            present[key] = o
            ctx.ok(cls="under-test-object-mapped")
            continue
        # not an entry of the manifest
        if origin != sut:
            where = "helper" if origin == helper else "other-module"
            ctx.witness(f"foreign-under-test:{what}:{where}", f"{o} (defined in {origin}) is marked under test for module {sut} [{visibility}]", case)
        elif key is not None and key[0] == "method" and (key[1], key[2], key[3]) in inherited:
            i = inherited[(key[1], key[2], key[3])]
            ctx.witness("extra:method:inherited-attributed-to-subclass",
                        f"{key[2]}.{key[3]} is inherited from {i['defined_in']} (not overridden) but is under test as a method of {key[2]} [{visibility}]", case)
        else:
            ctx.witness(f"extra:{what}:not-in-manifest", f"{o} is under test but the generator never emitted it [{visibility}] key={key}", case)

    # ---- the manifest's view
    exp = modgen.expected_under_test(manifest, visibility, ignore_methods, ignore_modules)
    for key, (want, reason) in exp.items():
        e = entries[key]
        owner = cls_by_key.get((e["module"], e["owner"])) if e["owner"] else None
        got = key in present
        if want is None:
            ctx.anomaly(f"undecided:{e['kind']}:{reason}:{'under-test' if got else 'absent'}:{visibility}")
            continue
        tags = [f"setting:{visibility}", f"kind:{e['kind']}", f"vis:{e['vis']}", f"reason:{reason}"] + [f"flag:{f}" for f in e["flags"]]
        ctx.ok(cls=tags)
        if want == got:
            continue
        desc_name = ".".join(str(x) for x in key[1:])
        ctx.witness(_mechanism(e, owner, want, reason, visibility),
                    f"{desc_name} {'is defined in the module under test and eligible but is not under test' if want else 'must not be under test (' + reason + ') but is'}"
                    f" [vis={e['vis']}, setting={visibility}, flags={e['flags']}, ignore_methods={list(ignore_methods)}]", case)
    for (cm, cq, name), i in inherited.items():
        if cm == sut:
            ctx.ok(cls="inherited-not-overridden")
    if ignore_modules:
        ctx.cls("ignore_modules")
    ctx.ok(0, distinct=f"{sut}|{visibility}|{sorted(ignore_methods)}|{sorted(ignore_modules)}")
    if len(ctx.samples) < 3:
        ctx.sample({"module": sut, "visibility": visibility, "ignore_methods": list(ignore_methods), "ignore_modules": list(ignore_modules),
                    "under_test": sorted(".".join(map(str, k)) for k in present)[:12], "features": manifest["features"][:12]})


def _pick_ignores(rng, manifest, visibility):
    """Ignore lists a user could write: eligible SUT functions / methods (+ a helper function, + a non-existent name)."""
    from vlib import modgen

    exp = modgen.expected_under_test(manifest, visibility)
    cands = [e for e in manifest["callables"] if e["kind"] in ("function", "method") and exp[modgen.entry_key(e)][0] is True]
    rng.shuffle(cands)
    names = []
    for e in cands[: rng.randint(1, 4)]:
        forms = modgen.ignore_names(e)
        names.append(forms[-1] if rng.random() < 0.3 else forms[0])
    if rng.random() < 0.3:
        names.append(f"{manifest['helper']}.h_fn0")
    if rng.random() < 0.3:
        names.append(f"{manifest['sut']}.does_not_exist")
    mods = rng.choice([[], [], [manifest["helper"]], ["json"], [manifest["helper"], "collections"]])
    return names, mods


def run_chunk(spec, ctx):
    import logging

    from vlib import modgen

    logging.disable(logging.CRITICAL)
    seed = spec["seed"]
    if spec["name"] == "directed":
        k = SETTINGS.index(spec.get("vis", "PUBLIC")) * 2 if "vis" in spec else 0
        for vis in ([spec["vis"]] if "vis" in spec else SETTINGS):
            # every feature at once, no ignore lists
            m = modgen.generate(1000 + seed, 0, ctx.scratch, tag=f"c27d{k}", force=modgen.FEATURES, size="large")
            k += 1
            check_pair(ctx, m, vis, note="all")
            # ignore lists over the same source
            m = modgen.generate(1000 + seed, 0, ctx.scratch, tag=f"c27d{k}", force=modgen.FEATURES, size="large")
            k += 1
            rng = random.Random(f"c27-directed-{vis}")
            exp = modgen.expected_under_test(m, vis)
            ign = []
            for want_kind, want_flag in (("function", None), ("function", "lambda"), ("function", "lru_cache"), ("method", None),
                                         ("method", "staticmethod"), ("method", "mangled")):
                for e in m["callables"]:
                    if e["kind"] != want_kind or exp[modgen.entry_key(e)][0] is not True:
                        continue
                    if want_flag == "mangled":
                        if not e["mangled"]:
                            continue
                    elif want_flag is None:
                        if e["flags"]:
                            continue
                    elif want_flag not in e["flags"]:
                        continue
                    ign.append(modgen.ignore_names(e)[0])
                    break
            check_pair(ctx, m, vis, ignore_methods=ign, ignore_modules=[m["helper"]], note="all")
            del rng
        return
    if spec["name"] == "directed-groups":
        k = 100
        # the module under test itself in ignore_modules: nothing may be under test
        m = modgen.generate(1000 + seed, 1, ctx.scratch, tag=f"c27d{k}", size="small")
        check_pair(ctx, m, "ALL", ignore_modules=[m["sut"]])
        # a few fixed small/medium shapes per feature group so that each class floor is met for every seed
        groups = [("chain", "diamond", "override", "helper_base"), ("lambda", "protected_lambda", "lru_cache", "wraps", "coroutine", "genfunc"),
                  ("enum", "int_enum", "abstract", "nested", "nested_base"), ("underscore_class", "protected_class", "mangled", "dunder", "static"),
                  ("generic", "generic_sub", "builtin_base", "private_func", "protected_func", "asyncgen")]
        for gi, grp in enumerate(groups):
            for vis in SETTINGS:
                k += 1
                m = modgen.generate(2000 + seed, gi, ctx.scratch, tag=f"c27d{k}", force=grp, size="medium")
                check_pair(ctx, m, vis, note=list(grp))
        return
    rng = random.Random(f"c27:{seed}:{spec['part']}")
    for j in range(spec["n"]):
        index = spec["part"] * 1000 + j
        size = rng.choice(["small", "medium", "medium", "large"])
        for si, vis in enumerate(SETTINGS):
            m = modgen.generate(seed, index, ctx.scratch, tag=f"c27r{si}", size=size)
            if rng.random() < 0.45:
                ign, mods = _pick_ignores(rng, m, vis)
            else:
                ign, mods = [], []
            check_pair(ctx, m, vis, ignore_methods=ign, ignore_modules=mods)


def replay(w, ctx):
    """Re-generate the witness' package and re-run the same (module, setting, ignore lists) pair."""
    import logging

    from vlib import modgen

    logging.disable(logging.CRITICAL)
    c = w["case"]
    gen = dict(c["gen"], tag=c["gen"].get("tag", "") + "rp")
    m = modgen.regenerate(gen, ctx.scratch)
    ren = lambda n: n.replace(c["gen"].get("tag", "") + "_s", gen["tag"] + "_s") if isinstance(n, str) else n  # noqa: E731
    check_pair(ctx, m, c["visibility"], [ren(n) for n in c.get("ignore_methods", [])], [ren(n) for n in c.get("ignore_modules", [])])
