"""C28 — mutation analysis yields genuine mutants and leaves the original tree intact.

Shape: invariant monitor around the real mutant generators (FirstOrderMutator in its historical, reordered
and capped/sampled configurations, HighOrderMutator with the four HOM strategies, MutationController).

For one subject (source text + imported module) the shared tree is built exactly as pynguin does
(`ParentNodeTransformer.create_ast`) and *reused* for all enumerations, as production code does
(`mutant_count()` followed by `create_mutants()`).  Oracles, all on `ast.dump(..., include_attributes=False)`:

* tree-unchanged: dump of the shared tree before == after every completed enumeration / count call;
* differs-only-at-mutated-nodes: at every yield the mutant's dump must equal the dump of an independently
  parsed pristine copy into which only the subtrees at the positions of the reported `Mutation.node`s have
  been grafted from the mutant (position = path of that node in the original tree, indexed by identity
  before the enumeration).  This also detects a previous mutation that was not reverted;
* inclusion: multiset of mutant dumps of a sampled / reordered enumeration is included in the multiset of
  the full first-order enumeration over the same operator list;
* count: `MutationController.mutant_count()` == number of yields of the full first-order enumeration.

Generators that are closed early are an extra workload, reported as anomaly only (DESIGN §4).
"""

from __future__ import annotations

import ast
import bisect
import collections
import hashlib
import operator
import os
import random
import sys

ID = "C28"
LEVEL = "exploration"
CHUNK_TIMEOUT = 1500
RULE = (
    "subjects = one directed module in which all 28 operators fire + seeded generated modules (functions with arithmetic/bit/"
    "boolean/comparison operators, constants, if/while/for/try/with/match, slices, f-strings, decorators, class hierarchy with "
    "hidden variables, overriding methods and super calls) + pure-Python stdlib modules; per subject the real mutators are run "
    "on one shared tree: full first-order, mutant_count(), reorder, caps {0,1,5,50,random} x reorder, 4 HOM strategies x order "
    "{1,2,3}, MutationController.create_mutants (generated subjects), random operator subsets; oracle = ast.dump snapshots: "
    "tree unchanged after each enumeration, every mutant equals the pristine tree with only the reported Mutation.node positions "
    "grafted, sampled/reordered multiset included in the full one, mutant_count()==len(full); a mutant is distinct/non-trivial "
    "by (subject, operator, visitor); abandoned generators are recorded as anomaly only"
)
ASSUMPTIONS = [
    "ast.dump(include_attributes=False) equality is the definition of 'same syntax tree' (line numbers, parent/children bookkeeping attributes are ignored)",
    "'its mutated nodes' = the positions of the nodes named by the yielded Mutation records (Mutation.node), located by identity in the original tree",
    "'the full enumeration' = the uncapped, non-reordered first-order enumeration over the same operator list; for HighOrderMutator the reported count is "
    "compared with that number too (the number of HOM mutants being smaller is recorded as anomaly, not as violation)",
    "sizes of capped enumerations (== min(cap,total)) and 'reorder is a permutation' are not part of the statement: anomalies only",
    "mutant modules of stdlib subjects are never exec'ed (MutationController.create_mutants is only driven on generated subjects, whose module level has no loops)",
]

STDLIB_QUICK = [
    "bisect", "colorsys", "fnmatch", "heapq", "textwrap", "shlex", "posixpath", "string", "json.encoder", "json.decoder",
    "json.scanner", "glob", "keyword", "reprlib", "copy", "stat", "genericpath", "numbers", "graphlib", "sched", "queue",
    "linecache", "getopt", "quopri", "filecmp", "contextlib", "operator", "fractions", "types", "codeop",
]
STDLIB_THOROUGH = STDLIB_QUICK + [
    "statistics", "difflib", "functools", "csv", "pprint", "base64", "calendar", "cmd", "code", "dis", "fileinput", "gettext",
    "hmac", "mimetypes", "netrc", "optparse", "random", "struct", "tokenize", "token", "weakref", "_weakrefset", "abc",
    "_collections_abc", "html.parser", "ipaddress", "string", "this", "uu", "nturl2path", "opcode", "bdb", "dataclasses", "enum",
    "configparser", "locale", "shutil", "tempfile", "zipapp", "tabnanny", "pyclbr", "timeit", "trace", "cgi", "sre_parse", "ast",
    "inspect", "argparse", "decimal", "_pydecimal", "datetime", "_pydatetime", "typing",
]
_BIG = {"_pydecimal", "_pydatetime", "typing", "argparse", "inspect", "ipaddress", "decimal", "datetime"}

ALL_OPS = [
    "ArithmeticOperatorDeletion", "ArithmeticOperatorReplacement", "AssignmentOperatorReplacement", "BooleanLiteralReplacement",
    "BreakContinueReplacement", "ConditionalOperatorDeletion", "ConditionalOperatorInsertion", "ConstantReplacement", "DecoratorDeletion",
    "ExceptionHandlerDeletion", "ExceptionSwallowing", "ExceptionTypeReplacement", "FStringReplacement", "HidingVariableDeletion",
    "LogicalConnectorReplacement", "LogicalOperatorDeletion", "LogicalOperatorReplacement", "MatchCaseDeletion",
    "OverriddenMethodCallingPositionChange", "OverridingMethodDeletion", "RelationalOperatorReplacement", "ReturnValueReplacement",
    "SliceIndexRemove", "SuperCallingDeletion", "SuperCallingInsert", "OneIterationLoop", "ReverseIterationLoop", "ZeroIterationLoop",
]
HOM = ["FirstToLastHOMStrategy", "EachChoiceHOMStrategy", "BetweenOperatorsHOMStrategy", "RandomHOMStrategy"]


def floors(tier):
    q = tier == "quick"
    classes = {f"op:{o}": 10 for o in ALL_OPS}
    classes.update({
        "module:generated": 150 if q else 1500, "module:stdlib": 25 if q else 60, "module:directed": 1,
        "enum:first-order": 150, "enum:reorder": 80, "enum:cap0": 20, "enum:cap1": 20, "enum:cap5": 20, "enum:cap50": 20,
        "enum:caprandom": 20, "enum:controller": 40, "enum:count": 250, "enum:operator-subset": 20,
        "mode:first-order": 10000, "mode:reorder": 5000, "mode:sampled": 1000, "mode:controller": 2000,
        **{f"enum:hom:{h}": 40 for h in HOM}, **{f"mode:hom:{h}": 1000 for h in HOM},
        "hom:order1": 10, "hom:order2": 40, "hom:order3": 10, "abandoned": 100,
    })
    return {"evals": 30000 if q else 300000, "distinct": 2000 if q else 20000, "classes": classes}


def plan(tier, seed):
    q = tier == "quick"
    chunks = [{"name": "directed", "seed": seed}]
    mods = STDLIB_QUICK if q else list(dict.fromkeys(STDLIB_THOROUGH))
    small = [m for m in mods if m not in _BIG]
    for m in small:
        chunks.append({"name": "stdlib", "modules": [m], "seed": seed})
    for m in mods:
        if m in _BIG:
            chunks.append({"name": "stdlib", "modules": [m], "seed": seed, "light": True})
    chunks.append({"name": "directed-generated", "seed": seed})
    nchunks, per = (20, 8) if q else (100, 16)
    for part in range(nchunks):
        chunks.append({"name": "generated", "seed": seed, "part": part, "n": per})
    # directed first, then the long single-module chunks
    chunks.sort(key=lambda c: 0 if c["name"].startswith("directed") else 1 if c.get("light") else 2)
    return chunks


# ----------------------------------------------------------------------------- tree helpers
def _dump(node):
    return ast.dump(node, include_attributes=False)


def _h(text):
    return hashlib.blake2b(text.encode("utf-8", "surrogatepass"), digest_size=16).digest()


def _index(tree):
    """Preorder index of the tree: nodes[i], paths[i], end[i] (one past the last index of i's subtree), pos[id(node)] = i."""
    nodes, paths, end, pos = [], [], [], {}

    def walk(node, path):
        i = len(nodes)
        nodes.append(node)
        paths.append(path)
        end.append(0)
        pos[id(node)] = i
        for field in node._fields:
            value = getattr(node, field, None)
            if type(value) is list:
                for k, v in enumerate(value):
                    if isinstance(v, ast.AST):
                        walk(v, path + ((field, k),))
            elif isinstance(value, ast.AST):
                walk(value, path + ((field, None),))
        end[i] = len(nodes)

    walk(tree, ())
    return nodes, paths, end, pos


def _resolve(root, path):
    """-> (parent, field, index, node); LookupError when the path does not exist in this tree."""
    parent, node, field, idx = None, root, None, None
    for field, idx in path:
        parent = node
        try:
            value = getattr(node, field)
            node = value[idx] if idx is not None else value
        except (AttributeError, IndexError, TypeError) as e:
            raise LookupError(str(e)) from e
        if not isinstance(node, ast.AST):
            raise LookupError(f"no node at {field}[{idx}]")
    return parent, field, idx, node


def _set(parent, field, idx, node):
    if idx is None:
        setattr(parent, field, node)
    else:
        getattr(parent, field)[idx] = node


def _minimal(paths):
    out = []
    for p in sorted(set(paths), key=len):
        if not any(p[: len(q)] == q for q in out):
            out.append(p)
    return out


def _diff_paths(a, b, path, out, limit=12):
    """Minimal paths at which two trees differ (diagnosis only, slow path)."""
    if len(out) >= limit:
        return
    if type(a) is not type(b):
        out.append(path)
        return
    for field in a._fields:
        va, vb = getattr(a, field, None), getattr(b, field, None)
        if isinstance(va, list) or isinstance(vb, list):
            if not (isinstance(va, list) and isinstance(vb, list)) or len(va) != len(vb):
                out.append(path)
                return
            for i, (x, y) in enumerate(zip(va, vb)):
                if isinstance(x, ast.AST) and isinstance(y, ast.AST):
                    _diff_paths(x, y, path + ((field, i),), out, limit)
                elif (type(x), repr(x)) != (type(y), repr(y)):
                    out.append(path)
                    return
        elif isinstance(va, ast.AST) and isinstance(vb, ast.AST):
            _diff_paths(va, vb, path + ((field, None),), out, limit)
        elif (type(va), repr(va)) != (type(vb), repr(vb)):
            out.append(path)
            return


def _pathstr(path):
    return "/".join(f if i is None else f"{f}[{i}]" for f, i in path) or "<root>"


def _getter(fields):
    if len(fields) == 1:
        g = operator.attrgetter(fields[0])
        return lambda n: (g(n),)
    return operator.attrgetter(*fields)


class State:
    """One shared tree + pristine twin + identity index + shallow identity snapshot (fast path)."""

    def __init__(self, subj):
        from pynguin.assertion.mutation_analysis.transformer import ParentNodeTransformer

        self.subj = subj
        self.tree = ParentNodeTransformer.create_ast(subj.src)
        self.pristine = ast.parse(subj.src)
        self.orig = _dump(self.tree)
        if _dump(self.pristine) != self.orig:
            raise RuntimeError("harness: pristine parse differs from create_ast")
        self.nodes_, self.paths_, self.end, self.pos = _index(self.tree)
        self.nodes = len(self.nodes_)
        # fast path: for every original node with fields, the tuple of its current field values must equal the snapshot
        # (children compared by identity, lists element-wise, constants by identity or (type, repr)); see fast_ok()
        getters = {}
        self.f_pre, self.f_get, self.f_node, self.f_snap = [], [], [], []
        self.c_pre, self.c_node, self.c_snap = [], [], []
        for i, node in enumerate(self.nodes_):
            t = type(node)
            if not t._fields:
                continue
            if t is ast.Constant:
                self.c_pre.append(i)
                self.c_node.append(node)
                self.c_snap.append((node.value, type(node.value), repr(node.value), node.kind))
                continue
            g = getters.get(t)
            if g is None:
                g = getters[t] = _getter(t._fields)
            self.f_pre.append(i)
            self.f_get.append(g)
            self.f_node.append(node)
            self.f_snap.append(tuple(list(v) if type(v) is list else v for v in g(node)))

    def path_of(self, node):
        i = self.pos.get(id(node))
        return None if i is None else self.paths_[i]

    def intact(self):
        return _dump(self.tree) == self.orig

    def fast_ok(self, root, mpaths):
        """Sufficient (not necessary) condition for 'root differs from the original only under mpaths':
        root is the shared tree object and every original node outside the mutated subtrees still holds exactly the same
        field values (child identity) as when it was indexed, except for the one slot of each mutated node in its parent."""
        if root is not self.tree:
            return False
        skip = []  # preorder ranges that are exempt
        parents = {}
        for p in mpaths:
            if not p:
                return True
            pi = self._pos_of_path(p[:-1])
            ci = self._pos_of_path(p)
            if pi is None or ci is None:
                return False
            skip.append((ci, self.end[ci]))
            skip.append((pi, pi + 1))
            parents.setdefault(pi, set()).add(p[-1])
        skip.sort()
        try:
            pre, get, node, snap = self.f_pre, self.f_get, self.f_node, self.f_snap
            for a, b in self._bounds(pre, skip):
                for k in range(a, b):
                    if get[k](node[k]) != snap[k]:
                        return False
            cnode, csnap = self.c_node, self.c_snap
            for a, b in self._bounds(self.c_pre, skip):
                for k in range(a, b):
                    n = cnode[k]
                    v0, t0, r0, k0 = csnap[k]
                    v = n.value
                    if (v is not v0 and (type(v) is not t0 or repr(v) != r0)) or n.kind != k0:
                        return False
            for pi, slots in parents.items():
                k = bisect.bisect_left(pre, pi)
                if k >= len(pre) or pre[k] != pi:
                    return False
                n = node[k]
                fields = type(n)._fields
                for f, x, y in zip(fields, get[k](n), snap[k]):
                    mine = {i for ff, i in slots if ff == f}
                    if not mine:
                        if x != y:
                            return False
                    elif None not in mine:
                        if type(x) is not list or len(x) != len(y) or any(u is not v and u != v for q, (u, v) in enumerate(zip(x, y)) if q not in mine):
                            return False
        except AttributeError:
            return False
        return True

    @staticmethod
    def _bounds(pre, skip):
        lo, bounds = 0, []
        for a, b in skip:
            fa, fb = bisect.bisect_left(pre, a), bisect.bisect_left(pre, b)
            if fa > lo:
                bounds.append((lo, fa))
            lo = max(lo, fb)
        if lo < len(pre):
            bounds.append((lo, len(pre)))
        return bounds

    def _pos_of_path(self, path):
        if not hasattr(self, "_by_path"):
            self._by_path = {p: i for i, p in enumerate(self.paths_)}
        return self._by_path.get(path)

    def graft_key(self, root, mpaths):
        """Canonical identity of a verified mutant: the mutated positions and the dumps of what sits there now."""
        parts = []
        for p in sorted(mpaths):
            parts.append(_pathstr(p))
            parts.append(_dump(_resolve(root, p)[3]) if p else _dump(root))
        return _h("\x00".join(parts))

    def null_key(self, mpaths):
        """graft key of the unmutated tree for the same positions."""
        return self.graft_key(self.pristine, mpaths)

    def only_at(self, root, md, mpaths):
        """Oracle of record: dump(root)==md equals the pristine tree with only the subtrees at mpaths taken from root."""
        undo = []
        try:
            for p in mpaths:
                if not p:
                    return True
                try:
                    node_m = _resolve(root, p)[3]
                except LookupError:
                    return False
                parent, field, idx, old = _resolve(self.pristine, p)
                _set(parent, field, idx, node_m)
                undo.append((parent, field, idx, old))
            return _dump(self.pristine) == md
        finally:
            for parent, field, idx, old in reversed(undo):
                _set(parent, field, idx, old)


class Subject:
    def __init__(self, kind, name, src, mod):
        self.kind, self.name, self.src, self.mod = kind, name, src, mod
        self.sig = hashlib.sha1(src.encode("utf-8", "surrogatepass")).hexdigest()[:10]

    def case(self, **kw):
        c = {"subject": self.name, "kind": self.kind}
        if self.kind != "stdlib":
            c["source"] = self.src
        c.update(kw)
        return c


# ----------------------------------------------------------------------------- one enumeration under the monitors
def _opnames(muts):
    return "+".join(sorted({m.operator.__name__ for m in muts}))


XCHECK_EVERY = 16  # every n-th mutant is additionally decided by the ast.dump oracle even when the fast path accepts it


def _enumerate(ctx, st, label, modeclass, gen_factory, case, via_controller=False, exact=False):
    """Run one complete enumeration under the monitors.

    Returns the list of (mutant key, operators), or None when the shared tree is no longer usable.  The mutant key is the
    hash of the full dump when exact=True, otherwise the graft key (positions + dumps of the mutated subtrees), which
    determines the full dump once 'differs only at the mutated nodes' has been established.
    """
    subj = st.subj
    mc = modeclass.split(":")[0]
    keys = []
    prev_paths, prev_ops = [], ""
    n = 0
    try:
        gen = gen_factory()
        for item in gen:
            if via_controller:
                _module, muts = item
                root = st.tree
            else:
                muts, root = item
            n += 1
            ops = _opnames(muts)
            mpaths = [st.path_of(m.node) for m in muts]
            cls = [f"mode:{modeclass}"] + [f"op:{m.operator.__name__}" for m in muts]
            ctx.ok(cls=cls, distinct=f"{subj.sig}|{ops}|{'+'.join(m.visitor_name for m in muts)}")
            if any(p is None for p in mpaths):
                ctx.witness(f"mutation-names-node-outside-original:{mc}:{ops}",
                            f"{subj.name} [{label}]: a yielded Mutation.node is not a node of the original tree", case)
                keys.append((_h(_dump(root)), ops))
                prev_paths, prev_ops = [], ops
                continue
            mm = _minimal(mpaths)
            fast = (not exact) and st.fast_ok(root, mm)
            md = None
            if fast and n % XCHECK_EVERY:
                ctx.count("decided_by_fast_path")
                good = True
            else:
                md = _dump(root)
                good = st.only_at(root, md, mm)
                ctx.count("decided_by_dump_oracle")
                if fast and not good:
                    ctx.inconclusive_because("harness: identity fast path accepted a mutant that the ast.dump oracle rejects")
            if not good:
                diffs = []
                _diff_paths(st.pristine, root, (), diffs)
                outside = [d for d in diffs if not any(d[: len(q)] == q for q in mm)]
                if outside and prev_paths and all(any(d[: len(q)] == q or q[: len(d)] == d for q in prev_paths) for d in outside):
                    key = f"previous-mutation-not-restored:{mc}:{prev_ops}"
                else:
                    key = f"differs-outside-mutated-node:{mc}:{ops}"
                ctx.witness(key, f"{subj.name} [{label}]: mutant of {ops} (mutated at {[_pathstr(p) for p in mm]}) differs from the original at "
                                 f"{[_pathstr(d) for d in outside[:4]]}", {**case, "mutated_at": [_pathstr(p) for p in mm]})
                gen.close()
                return None  # the shared tree is not trustworthy any more: one witness per enumeration, no cascade
            else:
                k = _h(md) if exact else st.graft_key(root, mm)
                if (md is not None and md == st.orig) or (md is None and k == st.null_key(mm)):
                    ctx.anomaly(f"mutant-identical-to-original:{ops}")
                keys.append((k, ops))
            prev_paths, prev_ops = mm, ops
    except Exception as e:  # noqa: BLE001 - raised by pynguin's generators
        import traceback

        tb = traceback.extract_tb(e.__traceback__)
        where = next((f"{os.path.basename(f.filename)}:{f.name}" for f in reversed(tb) if "/pynguin/" in f.filename), "?")
        ctx.ok(cls=f"enum:{label}")
        ctx.witness(f"enumeration-raises:{type(e).__name__}:{mc}:{where}",
                    f"{subj.name} [{label}]: {type(e).__name__}: {e} after {n} mutants", case)
        return None
    ctx.ok(cls=f"enum:{label}")
    if not st.intact():
        diffs = []
        _diff_paths(st.pristine, st.tree, (), diffs)
        ctx.witness(f"tree-changed-after-enumeration:{mc}",
                    f"{subj.name} [{label}]: the shared tree differs from the original after the enumeration completed "
                    f"({n} mutants) at {[_pathstr(d) for d in diffs[:4]]}", case)
        return None
    return keys


def _ops(names):
    import pynguin.assertion.mutation_analysis.operators as mo

    by_name = {o.__name__: o for o in [*mo.standard_operators, *mo.experimental_operators]}
    return [by_name[n] for n in names]


def _check_subject(ctx, subj, rng, modes):
    """modes: dict of switches (caps, hom list of (strategy, order), controller, reorder, abandoned, subset)."""
    import pynguin.assertion.mutation_analysis.controller as ct
    import pynguin.assertion.mutation_analysis.mutators as mu
    import pynguin.assertion.mutation_analysis.strategies as ms

    from pynguin.utils import randomness

    opnames = modes.get("ops") or ALL_OPS
    ops = _ops(opnames)
    base_case = subj.case(operators=opnames if len(opnames) != len(ALL_OPS) else "all")
    ctx.cls(f"module:{subj.kind}")
    if len(opnames) != len(ALL_OPS):
        ctx.cls("enum:operator-subset")
    box = {"st": State(subj)}
    ctx.count("nodes_total", box["st"].nodes)

    exact = bool(modes.get("exact"))
    if exact:
        ctx.cls("subject:exact-dump-mode")
    full_factory = lambda st: mu.FirstOrderMutator(ops).mutate(st.tree, subj.mod)  # noqa: E731

    def run(label, modeclass, factory, case, **kw):
        st = box["st"]
        res = _enumerate(ctx, st, label, modeclass, lambda: factory(st), case, exact=exact, **kw)
        if res is None:
            box["st"] = State(subj)  # the shared tree is corrupt: continue on a fresh one so that one defect does not cascade
        return res

    # 1. full first-order enumeration
    full = run("first-order", "first-order", full_factory, {**base_case, "mode": "first-order"})
    if full is None:
        return
    total = len(full)
    full_ms = collections.Counter(h for h, _ in full)
    ctx.count("mutants_full", total)
    if len(ctx.samples) < 3:
        ctx.sample({"subject": subj.name, "nodes": box["st"].nodes, "first_order_mutants": total,
                    "by_operator": dict(collections.Counter(o for _, o in full).most_common(6))})

    count_p = modes.get("count_p", 1.0)

    def check_count(mutator, what):
        if what != "first-order" and rng.random() >= count_p:
            return
        st = box["st"]
        try:
            got = ct.MutationController(mutator, st.tree, subj.mod).mutant_count()
        except Exception as e:  # noqa: BLE001
            ctx.ok(cls="enum:count")
            ctx.witness(f"mutant_count-raises:{type(e).__name__}:{what}", f"{subj.name}: mutant_count() raised {e!r}", {**base_case, "mode": what})
            box["st"] = State(subj)
            return
        ctx.ok(cls="enum:count")
        if got != total:
            ctx.witness(f"mutant-count-mismatch:{what}", f"{subj.name}: mutant_count()={got} but the full enumeration yields {total}",
                        {**base_case, "mode": what})
        if not st.intact():
            ctx.witness(f"tree-changed-after-enumeration:count:{what}", f"{subj.name}: tree changed by mutant_count()", {**base_case, "mode": what})
            box["st"] = State(subj)

    def dump_multiset(factory, via_controller=False):
        st = State(subj)
        out = collections.Counter()
        for item in factory(st):
            out[_h(_dump(st.tree if via_controller else item[1]))] += 1
        return out

    def check_inclusion(res, label, modeclass, case, factory, cap=None, permutation=False, via_controller=False):
        if res is None:
            return
        got = collections.Counter(h for h, _ in res)
        extra = got - full_ms
        ctx.ok(cls=f"inclusion:{modeclass}")
        bad = next((o for h, o in res if h in extra), "?")
        if extra and not exact:
            # graft keys are finer than dumps (same dump can arise from different positions): decide by full dumps
            ctx.count("inclusion_decided_by_full_dumps")
            try:
                extra = dump_multiset(factory, via_controller) - dump_multiset(full_factory)
            except Exception:  # noqa: BLE001 - the enumeration itself was already reported above if it fails
                pass
        if extra:
            ctx.witness(f"mutant-not-in-full-enumeration:{modeclass}:{bad}",
                        f"{subj.name} [{label}]: {sum(extra.values())} of {len(res)} yielded mutants are not (or more often than) in the full enumeration", case)
        if cap is not None and len(res) != min(cap, total):
            ctx.anomaly(f"capped-size-differs-from-min(cap,total):{label}")
        if permutation and got != full_ms:
            ctx.anomaly("reorder-not-a-permutation-of-full")

    check_count(mu.FirstOrderMutator(ops), "first-order")

    # 2. reorder
    if modes.get("reorder", True):
        case = {**base_case, "mode": "reorder"}
        fac = lambda st: mu.FirstOrderMutator(ops, reorder=True).mutate(st.tree, subj.mod)  # noqa: E731
        res = run("reorder", "reorder", fac, case)
        check_inclusion(res, "reorder", "reorder", case, fac, permutation=True)
        check_count(mu.FirstOrderMutator(ops, reorder=True), "reorder")

    # 3. caps x reorder
    for cap in modes.get("caps", []):
        capv = rng.randint(2, max(2, total)) if cap == "random" else cap
        reorder = rng.random() < 0.5
        sseed = rng.choice([0, 1, 42, rng.randrange(2**31)])
        label = f"cap{cap}"
        case = {**base_case, "mode": "capped", "maximum_mutants": capv, "reorder": reorder, "sampling_seed": sseed}
        mk = lambda capv=capv, sseed=sseed, reorder=reorder: mu.FirstOrderMutator(ops, maximum_mutants=capv, sampling_seed=sseed, reorder=reorder)  # noqa: E731
        fac = lambda st, mk=mk: mk().mutate(st.tree, subj.mod)  # noqa: E731
        res = run(label, "sampled", fac, case)
        check_inclusion(res, label, "sampled", case, fac, cap=capv)
        if cap == modes["caps"][0]:
            check_count(mk(), "capped")

    # 4. controller (exec's every mutant module: generated subjects only)
    if modes.get("controller"):
        case = {**base_case, "mode": "controller.create_mutants"}
        which = rng.choice(["plain", "reorder"])
        mutator = mu.FirstOrderMutator(ops) if which == "plain" else mu.FirstOrderMutator(ops, reorder=True)
        fac = lambda st: ct.MutationController(mutator, st.tree, subj.mod).create_mutants()  # noqa: E731
        res = run("controller", "controller", fac, case, via_controller=True)
        if res is not None:
            ctx.ok(cls="enum:count")
            if len(res) != total:
                ctx.witness("mutant-count-mismatch:create_mutants", f"{subj.name}: create_mutants() yields {len(res)}, full enumeration {total}", case)
            check_inclusion(res, "controller", "controller", case, fac, via_controller=True)

    # 5. higher order
    for sname, order in modes.get("hom", []):
        rseed = rng.randrange(2**31)
        case = {**base_case, "mode": "hom", "strategy": sname, "order": order, "rng_seed": rseed}

        def factory(st, sname=sname, order=order, rseed=rseed):
            randomness.RNG.seed(rseed)
            return mu.HighOrderMutator(ops, hom_strategy=getattr(ms, sname)(order)).mutate(st.tree, subj.mod)

        res = run(f"hom:{sname}", f"hom:{sname}", factory, case)
        ctx.cls(f"hom:order{order}")
        if res is not None:
            if len(res) != total:
                ctx.anomaly("hom-yields-fewer-mutants-than-mutant_count" if len(res) < total else "hom-yields-more-mutants-than-mutant_count")
            if order == 1 and collections.Counter(h for h, _ in res) - full_ms:
                ctx.anomaly("hom-order1-mutant-not-in-first-order-enumeration")
        if (sname, order) == modes["hom"][0]:
            check_count(mu.HighOrderMutator(ops, hom_strategy=getattr(ms, sname)(order)), "hom")

    # 6. abandoned generators (extra workload; anomaly only, never a violation; own tree)
    for kind in modes.get("abandoned", []):
        st = State(subj)
        if kind == "first-order":
            gen = mu.FirstOrderMutator(ops).mutate(st.tree, subj.mod)
        elif kind == "sampled":
            gen = mu.FirstOrderMutator(ops, maximum_mutants=max(1, total // 2), reorder=True).mutate(st.tree, subj.mod)
        else:
            gen = mu.HighOrderMutator(ops).mutate(st.tree, subj.mod)
        k = rng.randint(1, max(1, min(total // 2, 40)))
        try:
            for i, _ in enumerate(gen, 1):
                if i >= k:
                    break
            gen.close()
        except Exception as e:  # noqa: BLE001
            ctx.anomaly(f"abandoned:{kind}:raises-{type(e).__name__}")
            continue
        ctx.cls("abandoned")
        if total == 0:
            ctx.anomaly("abandoned:no-mutants")
        elif st.intact():
            ctx.anomaly(f"abandoned:{kind}:tree-restored")
        else:
            ctx.anomaly(f"abandoned:{kind}:tree-left-mutated")


# ----------------------------------------------------------------------------- subjects
def _import_source(ctx, name, src):
    import importlib.util
    import sys

    path = ctx.scratch / f"{name}.py"
    path.write_text(src)
    spec = importlib.util.spec_from_file_location(name, path)
    mod = importlib.util.module_from_spec(spec)
    sys.modules[name] = mod
    spec.loader.exec_module(mod)
    return mod


def _stdlib_subject(ctx, name):
    import importlib
    import inspect

    try:
        mod = importlib.import_module(name)
        src = inspect.getsource(mod)
        compile(src, name, "exec")
    except Exception as e:  # noqa: BLE001
        ctx.anomaly(f"stdlib-module-unavailable:{name}:{type(e).__name__}")
        return None
    return Subject("stdlib", name, src, mod)


def _all_modes(rng, light=False, controller=False):
    if light:
        return {"caps": [5], "hom": [(rng.choice(HOM), 2)], "abandoned": ["first-order"], "controller": False}
    return {
        "caps": [0, 1, 5, 50, "random"],
        "hom": [(h, 2) for h in HOM] + [(rng.choice(HOM), 1), (rng.choice(HOM), 3)],
        "abandoned": ["first-order", "sampled", "hom"],
        "controller": controller,
    }


def _some_modes(rng):
    return {
        "caps": rng.sample([0, 1, 5, 50, "random"], rng.randint(1, 2)),
        "hom": [(h, rng.choice([2, 2, 2, 1, 3])) for h in rng.sample(HOM, rng.choice([1, 1, 2]))],
        "abandoned": [rng.choice(["first-order", "sampled", "hom"])],
        "controller": rng.random() < 0.35,
        "reorder": rng.random() < 0.6,
        "count_p": 0.25,
    }


def _apply_break():
    """Self-test only: VERIF_BREAK=<name> applies a seeded defect to pynguin inside this process."""
    name = os.environ.get("VERIF_BREAK")
    if not name:
        return
    import pynguin.assertion.mutation_analysis.mutators as mu
    import pynguin.assertion.mutation_analysis.operators.base as base
    import pynguin.assertion.mutation_analysis.operators.misc as misc

    if name == "no-restore-field":  # an operator forgets to put the original child back
        def _visit_real(self, node, field, old_value):
            for current_node, replacement_node, mutated_node, visitor_name in self.visit(old_value):
                setattr(node, field, mutated_node)
                yield current_node, replacement_node, visitor_name
            if not isinstance(old_value, ast.Slice):
                setattr(node, field, old_value)

        base.MutationOperator._generic_visit_real_node = _visit_real
    elif name == "count-off-by-one":
        orig = mu.FirstOrderMutator.mutation_count
        mu.FirstOrderMutator.mutation_count = lambda self, t, m: orig(self, t, m) + (1 if self._maximum_mutants >= 0 else 0)
    elif name == "count-post-truncation":
        mu.FirstOrderMutator.mutation_count = lambda self, t, m: sum(1 for _ in self.mutate(t, m))
    elif name == "in-place-bool":  # an operator mutates the original node in place
        def _bool(self, node):
            if not isinstance(node.value, bool):
                return None
            node.value = not node.value
            return node

        _bool.__name__ = "mutate_Constant_bool"
        misc.BooleanLiteralReplacement.mutate_Constant_bool = _bool
    elif name == "hom-finish-skips-first":
        def _finish(generators):
            for generator in reversed(generators[1:]):
                next(generator, None)

        mu.HighOrderMutator._finish_generators = staticmethod(_finish)
    elif name == "regenerated-differs":  # regenerating a selected mutation (sampled / reordered path) builds a different mutant
        def _num(self, node):
            value = node.value
            if not isinstance(value, int | float) or isinstance(value, bool):
                return None
            return ast.Constant(value + (1 if self.only_mutation is None else 2))

        _num.__name__ = "mutate_Constant_num"
        misc.ConstantReplacement.mutate_Constant_num = _num
    elif name == "extra-change-elsewhere":  # return replacement also flips an unrelated sibling statement
        import pynguin.assertion.mutation_analysis.operators.statement as stm

        orig_ret = stm.ReturnValueReplacement.mutate_Return

        def mutate_return(self, node):
            out = orig_ret(self, node)
            body = getattr(node.parent, "body", None)
            if out is not None and isinstance(body, list) and len(body) > 1 and body[0] is not node and isinstance(body[0], ast.Assign):
                body[0].value = ast.Constant(value=None)
            return out

        mutate_return.__name__ = "mutate_Return"
        stm.ReturnValueReplacement.mutate_Return = mutate_return
    else:
        raise RuntimeError(f"unknown VERIF_BREAK {name}")


def run_chunk(spec, ctx):
    import time

    t0 = time.process_time()
    try:
        _run_chunk(spec, ctx)
    finally:
        label = spec["name"] + ":" + (",".join(spec.get("modules", [])) or str(spec.get("part", "")))
        ctx.extra.setdefault("chunk_cpu_s", {})[label] = round(time.process_time() - t0, 1)


def _run_chunk(spec, ctx):
    import warnings

    warnings.simplefilter("ignore")
    sys.setrecursionlimit(20000)
    _apply_break()
    from vlib import minisrc

    if spec["name"] == "directed":
        rng = random.Random(2828)
        mod = _import_source(ctx, "c28_directed", minisrc.DIRECTED)
        subj = Subject("directed", "directed", minisrc.DIRECTED, mod)
        _check_subject(ctx, subj, rng, {**_all_modes(rng, controller=True), "exact": True})
        _check_subject(ctx, subj, rng, _all_modes(rng, controller=True))
        # operator subsets: standard only, experimental only, a few random ones
        import pynguin.assertion.mutation_analysis.operators as mo

        subsets = [[o.__name__ for o in mo.standard_operators], [o.__name__ for o in mo.experimental_operators]]
        for _ in range(3):
            subsets.append(sorted(rng.sample(ALL_OPS, rng.randint(3, 12)), key=ALL_OPS.index))
        for names in subsets:
            _check_subject(ctx, subj, rng, {**_some_modes(rng), "ops": names, "controller": True})
        return

    if spec["name"] == "directed-generated":
        # deterministic small generated modules so that the per-mode floors hold for every seed
        rng = random.Random(2829)
        g = random.Random(99)
        for i in range(3):
            src = minisrc.gen_module(g, nfuncs=2, compact=True)
            m = _import_source(ctx, f"c28_dirgen_{i}", src)
            s = Subject("generated", f"dirgen{i}", src, m)
            _check_subject(ctx, s, rng, _all_modes(rng, controller=True))
        return

    if spec["name"] == "stdlib":
        rng = random.Random(spec["seed"] * 7919 + 28)
        for name in spec["modules"]:
            subj = _stdlib_subject(ctx, name)
            if subj is None:
                continue
            modes = _all_modes(rng, light=spec.get("light", False))
            if not spec.get("light") and len(subj.src) > 7000:
                modes = {**_some_modes(rng), "controller": False}
            if not spec.get("light") and rng.random() < 0.25:
                modes["ops"] = sorted(rng.sample(ALL_OPS, rng.randint(4, 16)), key=ALL_OPS.index)
            _check_subject(ctx, subj, rng, modes)
        return

    rng = random.Random((spec["seed"] * 1000003 + spec["part"]) * 31 + 28)
    for i in range(spec["n"]):
        src = minisrc.gen_module(rng, nfuncs=rng.randint(1, 3), compact=rng.random() < 0.75)
        name = f"c28_gen_{spec['part']}_{i}"
        mod = _import_source(ctx, name, src)
        subj = Subject("generated", name, src, mod)
        modes = _some_modes(rng)
        modes["exact"] = rng.random() < 0.1
        if rng.random() < 0.2:
            modes["ops"] = sorted(rng.sample(ALL_OPS, rng.randint(3, 14)), key=ALL_OPS.index)
        _check_subject(ctx, subj, rng, modes)
