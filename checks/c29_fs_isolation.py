"""C29 — filesystem isolation never modifies or deletes pre-existing paths; everything created inside is gone afterwards.

Shape: differential snapshot around the real `FilesystemIsolation` context.

The *parent* (this chunk process) builds, per case, a fresh sandbox directory holding pre-existing files and
directories, snapshots it (relative path -> type, bytes, mode), hands a batch of cases to a *child* subprocess
(`subprocess.run`, timeout, cwd = the batch root under a fresh mkdtemp), and snapshots every sandbox again when the
child is done.  The child chdir()s into each sandbox, enters `FilesystemIsolation()` with isolation enabled, performs
the case's operation sequence with *relative* paths only (every operation individually guarded: an exception is logged
and the sequence goes on, as code under test that catches it would), and leaves the context.  A wrong cleanup can thus
only touch paths below the batch root.

Oracle (exactly the statement): every path of the before-snapshot exists afterwards with the same type and bytes; no path
outside the before-snapshot exists afterwards.  Witness keys are built from the kind of damage and the first successful
operation of the sequence that touched the damaged path (API entry point, destination kind, path spelling class).
"""

from __future__ import annotations

import hashlib
import json
import os
import random
import stat
import subprocess
import sys

from pathlib import Path

ID = "C29"
LEVEL = "exploration"
CHUNK_TIMEOUT = 900
RULE = (
    "random sequences of 1-12 file/dir operations (open w/a/r+/x, io.open, os.open, Path.open/write_text/write_bytes/touch, "
    "mkdir/makedirs(exist_ok)/Path.mkdir(parents, exist_ok), rename/replace/Path.rename/Path.replace, shutil.copy/copyfile/"
    "copy2/copytree/move (positional and keyword calls), remove/unlink/rmdir/rmtree and pathlib equivalents) over a sandbox "
    "tree with pre-existing files and directories, arguments drawn from pre-existing / new / previously created names in "
    "several spellings (str, ./x, d/../x, Path, bytes); executed by a child process inside FilesystemIsolation() with "
    "cwd = fresh sandbox; oracle = parent-side snapshot diff (path -> type, bytes): pre-existing paths unchanged, created "
    "paths gone; a case is distinct by its (operation, target kind) sequence and non-trivial when at least one operation succeeded"
)
ASSUMPTIONS = [
    "the code under test catches exceptions of single operations (PermissionError raised by the isolation is expected behaviour, never a violation)",
    "'unchanged content' = same file type and same bytes; permission-bit changes are recorded as anomaly only",
    "the abspath cache of fs_isolation is cleared before every case (cases are independent executions with their own cwd); the stale-cache-after-chdir "
    "effect is exercised by one directed batch and reported as anomaly because chdir is not among the quantified operations",
    "operations outside the statement's list (os.removedirs, os.renames, os.truncate, os.symlink, os.link) are an extra workload reported as anomaly only",
    "the sandbox lives under a fresh mkdtemp; the child only uses relative paths, so absolute paths derive from its cwd",
]

PY = "/venv/bin/python"

PRE_FILES = {"pre_a.txt": "alpha\n", "pre_b.bin": "\x00\x01\xfe\xff", "pre_dir/x.txt": "x-content", "pre_dir/sub/y.txt": "y-content"}
PRE_DIRS = ["pre_dir", "pre_dir/sub", "pre_empty"]
OPT_FILES = {"pre_c.log": "log line\n", "pre_empty2/keep.me": "", "pre_dir/z.cfg": "k=v\n"}
NEW_FILES = ["n1.txt", "n2.dat", "nd1/in.txt", "pre_dir/new.txt", "pre_dir/nd/inner.txt", "pre_empty/new.txt", "nd1/deep/er/f.txt"]
NEW_DIRS = ["nd1", "nd2", "nd1/deep/er", "pre_dir/nd", "pre_empty/nd/x/y", "nd2/a"]

# second name universe: siblings where one name is a string prefix of another without a separator in between
# (app.log / app.log.1 / app.log.bak, out / out.txt / out_dir, f / f1 / f10, d / d2 / d.txt / data.txt), case variants,
# inside pre-existing directories and inside directories created during the execution
PX_PRE_FILES = {"app.log": "L0\n", "app.log.1": "L1\n", "out.txt": "o", "f1": "1", "d.txt": "dtxt", "d/x": "dx", "d2/x": "d2x",
                "README.md": "r", "pre_dir/app.log": "pl", "pre_dir/app.log.1": "pl1", "pre_dir/data.txt": "dt", "pre_dir/d/k.txt": "k",
                "pre_dir/d2/k.txt": "k2"}
PX_PRE_DIRS = ["d", "d2", "out_dir", "pre_dir", "pre_dir/d", "pre_dir/d2", "pre_empty"]
PX_OPT_FILES = {"data.txt": "top", "out_dir/out": "oo", "f100": "100"}
PX_NEW_FILES = ["app", "app.log.bak", "app.log.2", "app.log.1.gz", "out", "f", "f10", "f1.tmp", "d.tx", "readme.md", "Readme.md", "APP.LOG",
                "pre_dir/app", "pre_dir/app.log.2", "pre_dir/dat", "pre_dir/data.txt.bak", "pre_dir/d/k", "out_dir/out.txt",
                "nd/app.log", "nd/app.log.1", "nd/app.log.2", "nd/f1", "nd/f10", "nd/d.txt", "nd/d/x", "nd/d2/x"]
PX_NEW_DIRS = ["out", "ou", "d3", "D", "pre_di", "pre_dir2", "pre_dir/d3", "pre_dir/da", "out_dir2", "nd", "nd2", "nd/d", "nd/d2", "nd/sub/sub2"]
PX_PAIRS_F = [("f", "f10"), ("app", "app.log.2"), ("pre_dir/app", "pre_dir/app.log.2"), ("out_dir/ou", "out_dir/out.txt"), ("pre_dir/d/k", "pre_dir/d/k.1"),
              ("nd.txt", "nd.txt.bak"), ("pre_dir/new.log", "pre_dir/new.log.1")]
PX_PAIRS_D = [("ou", "out"), ("pre_di", "pre_dir2"), ("nd", "nd2"), ("pre_dir/da", "pre_dir/da2"), ("out_dir/s", "out_dir/s_2")]
POOLS = {}

OPEN_MODES = {"open-write": "w", "open-append": "a", "open-rplus": "r+", "open-excl": "x"}
WRITERS = ["open-write", "open-append", "open-rplus", "open-excl", "io-open-w", "path-open-w", "path-open-a", "path-write_text", "path-write_bytes",
           "path-touch", "os-open-creat", "os-open-append", "os-open-trunc", "open-write-kw"]
MKDIRS = ["mkdir", "makedirs", "makedirs-exist_ok", "path-mkdir", "path-mkdir-exist_ok", "path-mkdir-parents", "path-mkdir-parents-exist_ok"]
TWOARG = ["rename", "replace", "path-rename", "path-replace", "rename-kw", "copy", "copyfile", "copy2", "copytree", "copytree-exist_ok",
          "move", "copy-kw", "copyfile-kw", "move-kw"]
DELETES = ["remove", "unlink", "path-unlink", "rmdir", "path-rmdir", "rmtree"]
READS = ["open-r"]
EXTRAS = ["x-removedirs", "x-renames", "x-truncate", "x-symlink", "x-link"]
ALL_OPS = WRITERS + MKDIRS + TWOARG + DELETES + READS
PATH_METHOD = {o for o in ALL_OPS if o.startswith("path-")}
POOLS["base"] = (PRE_FILES, PRE_DIRS, OPT_FILES, NEW_FILES, NEW_DIRS)
POOLS["prefix"] = (PX_PRE_FILES, PX_PRE_DIRS, PX_OPT_FILES, PX_NEW_FILES, PX_NEW_DIRS)
# API entry points folded into mechanism families for the witness keys (the exact entry point is kept in desc / counters)
FAMILY = {
    "open-write": "open-write", "io-open-w": "open-write", "path-open-w": "open-write", "path-write_text": "open-write",
    "path-write_bytes": "open-write", "os-open-creat": "open-write", "os-open-trunc": "open-write", "open-write-kw": "open-write",
    "open-append": "open-append", "path-open-a": "open-append", "os-open-append": "open-append", "open-rplus": "open-rplus",
    "open-excl": "open-excl", "path-touch": "touch", "open-r": "open-read",
    "mkdir": "mkdir", "path-mkdir": "mkdir", "makedirs": "makedirs", "path-mkdir-parents": "makedirs",
    "makedirs-exist_ok": "makedirs-exist_ok", "path-mkdir-exist_ok": "path-mkdir-exist_ok", "path-mkdir-parents-exist_ok": "path-mkdir-exist_ok",
    "rename": "rename", "replace": "rename", "path-rename": "rename", "path-replace": "rename", "rename-kw": "rename-by-keyword",
    "copy": "copy", "copyfile": "copy", "copy2": "copy", "copy-kw": "copy-by-keyword", "copyfile-kw": "copy-by-keyword",
    "copytree": "copytree", "copytree-exist_ok": "copytree-dirs_exist_ok", "move": "move", "move-kw": "move-by-keyword",
    "remove": "remove", "unlink": "remove", "path-unlink": "remove", "rmdir": "rmdir", "path-rmdir": "rmdir", "rmtree": "rmtree",
}


def floors(tier):
    q = tier == "quick"
    classes = {f"op:{o}": 8 for o in ALL_OPS}
    classes.update({"target:preexisting-file": 200, "target:preexisting-dir": 200, "target:new": 200, "target:created-earlier": 100,
                    "len:1-3": 100, "len:4-8": 100, "len:9-12": 100, "blocked-by-isolation": 100, "spelling:bytes": 20, "spelling:path": 50,
                    "spelling:dot": 20, "spelling:updown": 10, "case:clean": 100,
                    "spelling:via-sibling": 10, "spelling:dotmid": 10, "spelling:dslash": 10, "spelling:slash": 5,
                    "names:prefix-related-siblings": 300, "names:created-name-is-prefix-of-preexisting": 100,
                    "names:preexisting-name-is-prefix-of-created": 100, "names:prefix-related-inside-created-dir": 40,
                    "names:same-path-different-spelling": 50, "names:case-variant": 15})
    return {"evals": 1500 if q else 15000, "distinct": 1000 if q else 10000, "classes": classes}


def plan(tier, seed):
    q = tier == "quick"
    chunks = [{"name": "directed", "seed": seed}, {"name": "directed-prefix", "seed": seed}]
    n, per = (16, 130) if q else (64, 330)
    for part in range(n):
        chunks.append({"name": "random", "seed": seed, "part": part, "n": per})
    return chunks


# ============================================================================================ child side
def _kind(p):
    try:
        st = os.lstat(p)
    except OSError:
        return "missing"
    if stat.S_ISLNK(st.st_mode):
        return "link"
    if stat.S_ISDIR(st.st_mode):
        return "dir"
    return "file"


def _spell(p, how):
    if p is None:
        return None
    if how == "path":
        return Path(p)
    if how == "dot":
        return "./" + p
    if how == "updown":
        return "pre_empty/../" + p
    if how == "updown-new":
        return "nd_missing/../" + p  # '..' through a directory that does not exist (yet)
    if how == "via-sibling":
        return "pre_dir/../" + p  # '..' through an existing sibling directory
    if how == "dotmid":
        return p.replace("/", "/./", 1) if "/" in p else "./././" + p
    if how == "dslash":
        return p.replace("/", "//", 1) if "/" in p else ".//" + p
    if how == "bytes":
        return os.fsencode(p)
    if how == "slash":
        return p + "/"
    return p


def _do(op, a, b, data):
    """Perform one operation with the (patched) public APIs, exactly as code under test would."""
    import io
    import shutil

    if op in OPEN_MODES:
        with open(a, OPEN_MODES[op]) as f:
            f.write(data)
    elif op == "open-write-kw":
        with open(file=a, mode="w") as f:
            f.write(data)
    elif op == "open-r":
        with open(a) as f:
            f.read()
    elif op == "io-open-w":
        with io.open(a, "w") as f:  # noqa: UP020
            f.write(data)
    elif op == "path-open-w":
        with Path(a).open("w") as f:
            f.write(data)
    elif op == "path-open-a":
        with Path(a).open("a") as f:
            f.write(data)
    elif op == "path-write_text":
        Path(a).write_text(data)
    elif op == "path-write_bytes":
        Path(a).write_bytes(data.encode())
    elif op == "path-touch":
        Path(a).touch()
    elif op in ("os-open-creat", "os-open-append", "os-open-trunc"):
        flags = {"os-open-creat": os.O_WRONLY | os.O_CREAT, "os-open-append": os.O_WRONLY | os.O_APPEND, "os-open-trunc": os.O_WRONLY | os.O_TRUNC}[op]
        fd = os.open(a, flags, 0o644)
        try:
            os.write(fd, data.encode())
        finally:
            os.close(fd)
    elif op == "mkdir":
        os.mkdir(a)
    elif op == "makedirs":
        os.makedirs(a)
    elif op == "makedirs-exist_ok":
        os.makedirs(a, exist_ok=True)
    elif op == "path-mkdir":
        Path(a).mkdir()
    elif op == "path-mkdir-exist_ok":
        Path(a).mkdir(exist_ok=True)
    elif op == "path-mkdir-parents":
        Path(a).mkdir(parents=True)
    elif op == "path-mkdir-parents-exist_ok":
        Path(a).mkdir(parents=True, exist_ok=True)
    elif op == "rename":
        os.rename(a, b)
    elif op == "rename-kw":
        os.rename(src=a, dst=b)
    elif op == "replace":
        os.replace(a, b)
    elif op == "path-rename":
        Path(a).rename(b)
    elif op == "path-replace":
        Path(a).replace(b)
    elif op == "copy":
        shutil.copy(a, b)
    elif op == "copy-kw":
        shutil.copy(src=a, dst=b)
    elif op == "copyfile":
        shutil.copyfile(a, b)
    elif op == "copyfile-kw":
        shutil.copyfile(src=a, dst=b)
    elif op == "copy2":
        shutil.copy2(a, b)
    elif op == "copytree":
        shutil.copytree(a, b)
    elif op == "copytree-exist_ok":
        shutil.copytree(a, b, dirs_exist_ok=True)
    elif op == "move":
        shutil.move(a, b)
    elif op == "move-kw":
        shutil.move(src=a, dst=b)
    elif op == "remove":
        os.remove(a)
    elif op == "unlink":
        os.unlink(a)
    elif op == "path-unlink":
        Path(a).unlink()
    elif op == "rmdir":
        os.rmdir(a)
    elif op == "path-rmdir":
        Path(a).rmdir()
    elif op == "rmtree":
        shutil.rmtree(a)
    elif op == "x-removedirs":
        os.removedirs(a)
    elif op == "x-renames":
        os.renames(a, b)
    elif op == "x-truncate":
        os.truncate(a, 1)
    elif op == "x-symlink":
        os.symlink(a, b)
    elif op == "x-link":
        os.link(a, b)
    else:
        raise RuntimeError(f"harness: unknown op {op}")


_REAL_OPEN = open  # bound before any patching: the child's probes must not go through the tracked wrappers


def _probe():
    """relative path -> 'd' | 'l' | short content hash, of everything below the cwd (probe for attribution only)."""
    out = {}

    def walk(d, rel):
        try:
            with os.scandir(d) as it:
                entries = list(it)
        except OSError:
            return
        for e in entries:
            r = f"{rel}/{e.name}" if rel else e.name
            if e.is_symlink():
                out[r] = "l"
            elif e.is_dir(follow_symlinks=False):
                out[r] = "d"
                walk(e.path, r)
            else:
                try:
                    with _REAL_OPEN(e.path, "rb") as f:
                        out[r] = hashlib.sha1(f.read()).hexdigest()[:12]
                except OSError:
                    out[r] = "?"

    walk(".", "")
    return out


def _rel_created(iso, cwd):
    out = set()
    for p in getattr(iso, "_created", ()):  # introspection for witness keys only, never for the verdict
        if p == cwd:
            out.add(".")
        elif p.startswith(cwd + os.sep):
            out.add(p[len(cwd) + 1:])
        else:
            out.add("<outside>" + p)
    return out


def _child_main(spec_path, out_path):
    spec = json.loads(Path(spec_path).read_text())
    root = os.getcwd()
    import pynguin.configuration as config

    from pynguin.utils import fs_isolation

    brk = os.environ.get("VERIF_BREAK")
    if brk and brk.startswith("file:"):  # self-test: run a patched copy of fs_isolation.py (e.g. a proposed repair)
        import importlib.util

        spec_ = importlib.util.spec_from_file_location("pynguin.utils.fs_isolation", brk[5:])
        fs_isolation = importlib.util.module_from_spec(spec_)
        spec_.loader.exec_module(fs_isolation)
    elif brk:
        _apply_break(brk, fs_isolation)
    config.configuration.filesystem_isolation = True
    results = []
    for case in spec["cases"]:
        log, note = [], None
        cwd = os.path.join(root, case["dir"])
        os.chdir(cwd)  # relative to the batch root: never leaves it
        if spec.get("clear_cache", True):
            fs_isolation._normalize_path_cached.cache_clear()
        try:
            with fs_isolation.FilesystemIsolation() as iso:
                state, created = _probe(), set()
                for i, step in enumerate(case["ops"]):
                    op, a, b, how = step["op"], step.get("a"), step.get("b"), step.get("sp", "str")
                    entry = {"i": i, "pre_a": _kind(a) if a else None, "pre_b": _kind(b) if b else None}
                    try:
                        _do(op, _spell(a, how), _spell(b, how if how != "slash" else "str"), f"W{i}")
                        entry["res"] = "ok"
                    except Exception as e:  # noqa: BLE001 - the code under test catches it
                        entry["res"] = type(e).__name__
                        entry["msg"] = str(e)[:120]
                    now, rec = _probe(), _rel_created(iso, cwd)
                    entry["appeared"] = sorted(p for p in now if p not in state)
                    entry["vanished"] = sorted(p for p in state if p not in now)
                    entry["changed"] = sorted(p for p in now if p in state and now[p] != state[p])
                    entry["recorded"] = sorted(rec - created)
                    entry["forgotten"] = sorted(created - rec)
                    state, created = now, rec
                    log.append(entry)
        except BaseException as e:  # noqa: BLE001 - raised by __enter__/__exit__ themselves
            note = f"{type(e).__name__}: {e}"[:200]
        finally:
            os.chdir(root)
        results.append({"dir": case["dir"], "log": log, "isolation_raised": note})
    Path(out_path).write_text(json.dumps(results))


def _apply_break(name, fs_isolation):
    """Self-test only (VERIF_BREAK): seeded defects applied inside the child."""
    cls = fs_isolation.FilesystemIsolation
    if name == "rename-not-tracked":  # os.rename / os.replace are not wrapped: the bookkeeping never learns the new name
        orig = cls._initialize_patches

        def init(self):
            real_rename, real_replace = os.rename, os.replace
            orig(self)
            os.rename, os.replace = real_rename, real_replace

        cls._initialize_patches = init
    elif name == "prefix-guard":  # "is it below something created?" decided by a bare string prefix (no separator)
        orig_ctm2 = cls._create_tracked_method

        def ctm2(self, original_func, *, record_arg_idx=None, record_dst_idx=None, forget_arg_idx=None):
            inner = orig_ctm2(self, original_func, record_arg_idx=record_arg_idx, record_dst_idx=record_dst_idx, forget_arg_idx=forget_arg_idx)
            if forget_arg_idx is None:
                return inner
            unguarded = orig_ctm2(self, original_func, record_arg_idx=record_arg_idx, record_dst_idx=record_dst_idx, forget_arg_idx=None)

            def tracked(*args, **kwargs):
                fp = self._get_arg(args, kwargs, forget_arg_idx)
                if fp is not None:
                    ap = self._abspath(fp)
                    if ap not in self._created and any(ap.startswith(c) for c in self._created):
                        return unguarded(*args, **kwargs)
                return inner(*args, **kwargs)

            return tracked

        cls._create_tracked_method = ctm2
    elif name == "prefix-cleanup":  # the exit cleanup also removes everything whose name merely starts with a created path
        import glob

        orig_exit2 = cls.__exit__

        def exit2(self, *a):
            extra = set()
            for c in list(self._created):
                extra.update(glob.glob(glob.escape(c) + "*"))
            self._created |= extra
            return orig_exit2(self, *a)

        cls.__exit__ = exit2
    elif name == "no-permission-check":  # destructive operations on non-isolated paths are let through
        orig_ctm = cls._create_tracked_method

        def ctm(self, original_func, *, record_arg_idx=None, record_dst_idx=None, forget_arg_idx=None):
            return orig_ctm(self, original_func, record_arg_idx=record_arg_idx, record_dst_idx=record_dst_idx, forget_arg_idx=None)

        cls._create_tracked_method = ctm
    elif name == "cleanup-skips-dirs":  # the exit cleanup only removes files
        orig_exit = cls.__exit__

        def exit_(self, *a):
            self._created = {p for p in self._created if not os.path.isdir(p)}
            return orig_exit(self, *a)

        cls.__exit__ = exit_
    elif name == "fixed-record-only-new":
        # the proposed repair (not a break): record a path as created only if it did not exist before the call
        _apply_proposed_fix(fs_isolation)
    elif name == "fixed-strict":
        _apply_proposed_fix(fs_isolation, strict=True)
    else:
        raise RuntimeError(f"unknown VERIF_BREAK {name}")


def _apply_proposed_fix(fs_isolation, strict=False):
    """Prototype of the proposed patch (VERIF_BREAK=fixed-record-only-new / fixed-strict), to see what the monitor still reports.

    minimal: a path is recorded as created only if it did not exist (lexists of the normalised path) before the call.
    strict : additionally, opening for writing / copying / moving / renaming onto an existing *file* that is not in the
             created-set raises PermissionError, like the existing guard for deletions.
    """
    cls = fs_isolation.FilesystemIsolation
    import functools

    def _new_paths(self, *paths):
        out = []
        for p in paths:
            if p is not None and not isinstance(p, int) and not os.path.lexists(self._abspath(p)):
                out.append(p)
        return out

    def _guard(self, *paths):
        if not strict:
            return
        for p in paths:
            if p is None or isinstance(p, int):
                continue
            ap = self._abspath(p)
            if os.path.lexists(ap) and not os.path.isdir(ap) and ap not in self._created:
                raise PermissionError(f"Attempted to modify non-isolated path: {ap}")

    def _create_tracked_method(self, original_func, *, record_arg_idx=None, record_dst_idx=None, forget_arg_idx=None):
        @functools.wraps(original_func)
        def tracked_method(*args, **kwargs):
            forget_path = self._get_arg(args, kwargs, forget_arg_idx)
            if forget_path:
                abs_forget = self._abspath(forget_path)
                if abs_forget not in self._created:
                    raise PermissionError(f"Attempted to modify non-isolated path: {abs_forget}")
            rec = self._get_arg(args, kwargs, record_arg_idx)
            dst = self._get_arg(args, kwargs, record_dst_idx)
            if original_func.__name__ not in ("mkdir", "makedirs", "copytree", "touch"):
                _guard(self, rec, dst)
            new = _new_paths(self, rec, dst)
            res = original_func(*args, **kwargs)
            self._record_created(*new)
            self._forget(forget_path)
            return res

        return tracked_method

    def _create_open_tracked(self, original_func):
        @functools.wraps(original_func)
        def tracked_open(*args, **kwargs):
            file_arg = args[0] if args else kwargs.get("file")
            mode = kwargs.get("mode", args[1] if len(args) > 1 else "r")
            writing = isinstance(mode, str) and self._is_write_mode(mode)
            if writing:
                _guard(self, file_arg)
            new = _new_paths(self, file_arg)
            f = original_func(*args, **kwargs)
            if writing:
                self._record_created(*new)
            return f

        return tracked_open

    def _os_open_tracked(self, original_func):
        write_flags = os.O_WRONLY | os.O_RDWR | os.O_CREAT | os.O_TRUNC | os.O_APPEND | getattr(os, "O_TMPFILE", 0)

        @functools.wraps(original_func)
        def tracked_os_open(path, flags, *args, **kwargs):
            should_record = bool(flags & write_flags)
            if should_record:
                _guard(self, path)
            new = _new_paths(self, path)
            fd = original_func(path, flags, *args, **kwargs)
            if should_record:
                self._record_created(*new)
            return fd

        return tracked_os_open

    def _create_path_rename_replace_tracked(self, original_func):
        @functools.wraps(original_func)
        def tracked_method(path_self, target):
            abs_path = self._abspath(path_self)
            if abs_path not in self._created:
                raise PermissionError(f"Attempted to rename/replace non-isolated path: {abs_path}")
            _guard(self, target)
            new = _new_paths(self, target)
            res = original_func(path_self, target)
            self._forget(path_self)
            self._record_created(*new)
            return res

        return tracked_method

    cls._create_tracked_method = _create_tracked_method
    cls._create_open_tracked = _create_open_tracked
    cls._os_open_tracked = _os_open_tracked
    cls._create_path_rename_replace_tracked = _create_path_rename_replace_tracked


# ============================================================================================ parent side
def _snapshot(root):
    """relative path -> (type, sha1-of-bytes | link target | '', mode, preview)."""
    out = {}
    root = str(root)

    def walk(d, rel):
        with os.scandir(d) as it:
            entries = sorted(it, key=lambda e: e.name)
        for e in entries:
            r = f"{rel}/{e.name}" if rel else e.name
            st = e.stat(follow_symlinks=False)
            mode = stat.S_IMODE(st.st_mode)
            if e.is_symlink():
                out[r] = ("link", os.readlink(e.path), mode, "")
            elif e.is_dir(follow_symlinks=False):
                out[r] = ("dir", "", mode, "")
                walk(e.path, r)
            else:
                data = Path(e.path).read_bytes()
                out[r] = ("file", hashlib.sha1(data).hexdigest(), mode, data[:40].decode("latin1"))

    if not os.path.isdir(root):
        return {"<sandbox-root>": ("missing", "", 0, "")}
    out["<sandbox-root>"] = ("dir", "", 0, "")
    walk(root, "")
    return out


def _norm(p):
    return os.path.normpath(p) if p is not None else None


def _role(step, entry, path):
    """How `path` relates to the arguments of the operation: key suffix."""
    a, b = _norm(step.get("a")), _norm(step.get("b"))
    under = lambda p, t: t is not None and (p == t or p.startswith(t + "/"))  # noqa: E731
    if b is not None and a == b:
        return ":src-equals-dst"
    if b is not None and (under(path, b) or under(path, os.path.join(b, os.path.basename(a)))):
        return f":dst-{entry.get('pre_b')}"
    if b is not None and under(path, a):
        return ":src"
    if a is not None and under(path, a):
        return ""
    if any(t is not None and t.startswith(path + "/") for t in (a, b)):
        return ":intermediate-dir"
    for t in (a, b):
        if t is not None and os.path.dirname(t) == os.path.dirname(path) and os.path.basename(path).startswith(os.path.basename(t)):
            return ":sibling-whose-name-starts-with-the-operand"
    return ":other-path"


def _mechanism(case, log, path, mode, pre=()):
    """Attribute a damaged path to the operation that caused it, using the child's per-operation probes -> (key tail, step).

    deleted : the first operation after which `path` (or an ancestor, or the cwd itself) was in the isolation's created-set,
              i.e. the operation that made a pre-existing path deletable; if none, the operation during which it vanished.
    modified: the first operation during which the content of `path` changed.
    survives: if the path was recorded and later dropped from the created-set while it still existed, the dropping
              operation ('forgotten-by-...'); otherwise the last operation during which `path` appeared (never tracked).
    """
    ops = case["ops"]
    pick, prefix, suffix = None, "", None
    if mode == "deleted":
        for step, e in zip(ops, log):
            rec = e.get("recorded", [])
            if "." in rec:
                pick, suffix = (step, e), ":records-cwd"
                break
            if any(path == r or path.startswith(r + "/") for r in rec):
                pick = (step, e)
                break
        if pick is None:
            for step, e in zip(ops, log):
                if any(path == v or path.startswith(v + "/") for v in e.get("vanished", [])):
                    pick, prefix = (step, e), "unguarded-"
                    break
    elif mode == "modified":
        for step, e in zip(ops, log):
            if path in e.get("changed", []) or path in e.get("vanished", []):
                pick = (step, e)
                break
    else:
        for step, e in zip(ops, log):
            if path in e.get("forgotten", []) and path not in e.get("vanished", []):
                pick, prefix = (step, e), "forgotten-by-"
        if pick is None:
            for step, e in zip(ops, log):
                if path in e.get("appeared", []):
                    pick = (step, e)
    if pick is None:
        # never in the created-set and not removed by any operation: removed by the exit cleanup on its own
        return ("at-exit:never-recorded" if mode == "deleted" else "unattributed"), None
    step, e = pick
    op = step["op"]
    fam = FAMILY.get(op, op)
    role = suffix if suffix is not None else _role(step, e, path)
    same = role == ":src-equals-dst"
    if same and not prefix.startswith("forgotten"):
        role = f":dst-{e.get('pre_b')}"
    if step.get("sp") == "bytes" and (mode != "deleted" or prefix == "unguarded-"):
        return "bytes-path", step  # str(bytes) (e.g. "b'x'") is what gets recorded and looked up: nothing is tracked properly
    if prefix == "forgotten-by-" and same:
        return "forgotten-by-rename-onto-itself", step  # record(dst) happens before forget(src): src == dst drops the entry
    if mode == "survives" and not prefix and step.get("b") is not None and role.startswith(":dst-") and _norm(step["b"]) in pre:
        # a created file/dir was renamed/moved/copied onto a pre-existing path: nothing refuses replacing a pre-existing
        # path, and since only paths that did not exist before the call are recorded, the new content is not tracked
        return "moved-onto-preexisting-path", step
    if fam.endswith("-by-keyword"):
        if mode == "survives":
            return prefix + "call-by-keyword", step  # _get_arg resolves the wrong keyword: the destination is never recorded
        if role == ":src":
            return prefix + "call-by-keyword:src", step  # ... and the source is recorded instead
        fam = fam[: -len("-by-keyword")]
    if mode == "modified":
        # what made the path survive (forgotten, bytes, keyword) is secondary: the write itself was not prevented
        if fam in ("open-write", "open-append", "open-rplus", "touch"):
            return "open-for-writing", step
        if fam in ("copy", "move", "rename", "copytree", "copytree-dirs_exist_ok"):
            return "overwritten-by-copy-move-rename", step
    return prefix + fam + role, step


def _topmost(paths):
    out = []
    for p in sorted(paths):
        if not any(p.startswith(q + "/") for q in out):
            out.append(p)
    return out


def _make_tree(rng, sandbox, flavor="base"):
    pre_files, pre_dirs, opt_files, _, _ = POOLS[flavor]
    files = dict(pre_files)
    for k, v in opt_files.items():
        if rng.random() < 0.4:
            files[k] = v
    for d in pre_dirs:
        (sandbox / d).mkdir(parents=True, exist_ok=True)
    for rel, content in files.items():
        p = sandbox / rel
        p.parent.mkdir(parents=True, exist_ok=True)
        p.write_bytes(content.encode("latin1"))
    return files


def _gen_case(rng, length=None, flavor="base"):
    """A random operation sequence; a light model of what exists steers the argument choice (it need not be exact)."""
    PF, PD, _, NEW_FILES, NEW_DIRS = POOLS[flavor]  # noqa: N806
    pre_files = list(PF)
    pre_dirs = list(PD)
    created_files, created_dirs = [], []
    n = length or rng.choice([1, 1, 2, 2, 3, 3, 4, 5, 6, 7, 8, 9, 10, 11, 12])
    ops = []

    def pick(cands):
        pools = [(w, p) for w, p in cands if p]
        tot = sum(w for w, _ in pools)
        x = rng.random() * tot
        for w, p in pools:
            x -= w
            if x <= 0:
                return rng.choice(p)
        return rng.choice(pools[-1][1])

    prelude = []
    if flavor == "prefix" and n >= 3 and rng.random() < 0.3:
        # two created prefix-related siblings (either order), then one of them is removed / renamed away
        isdir = rng.random() < 0.3
        short, long_ = rng.choice(PX_PAIRS_D if isdir else PX_PAIRS_F)
        first, second = (short, long_) if rng.random() < 0.5 else (long_, short)
        mk = rng.choice(["mkdir", "makedirs", "path-mkdir"]) if isdir else rng.choice(["open-write", "open-append", "path-write_text", "path-touch", "os-open-creat"])
        victim = rng.choice([short, long_])
        if rng.random() < 0.5:
            third = {"op": rng.choice(["rmdir", "path-rmdir", "rmtree"] if isdir else ["remove", "unlink", "path-unlink"]), "a": victim}
        else:
            third = {"op": rng.choice(["rename", "replace", "move", "path-rename", "path-replace", "rename-kw", "move-kw"]), "a": victim,
                     "b": os.path.join(os.path.dirname(victim), "zz_moved")}
        prelude = [{"op": mk, "a": first}, {"op": mk, "a": second}, third]
        (created_dirs if isdir else created_files).extend([short, long_])
    for k in range(n):
        fam = rng.random()
        step = {}
        if k < len(prelude):
            step = prelude[k]
        elif fam < 0.34:
            op = rng.choice(WRITERS + (["open-append", "open-write", "path-write_text"] if rng.random() < 0.3 else []))
            a = pick([(0.45, pre_files), (0.35, NEW_FILES), (0.2, created_files)])
            if a not in pre_files and a not in created_files:
                created_files.append(a)
            step = {"op": op, "a": a}
        elif fam < 0.52:
            op = rng.choice(MKDIRS + ["makedirs-exist_ok"])
            a = pick([(0.4, pre_dirs), (0.45, NEW_DIRS), (0.15, created_dirs)])
            if a not in pre_dirs and a not in created_dirs:
                created_dirs.append(a)
            step = {"op": op, "a": a}
        elif fam < 0.80:
            op = rng.choice(TWOARG)
            if op.startswith("copytree"):
                a = pick([(0.5, created_dirs), (0.5, pre_dirs)])
                b = pick([(0.3, pre_dirs), (0.55, NEW_DIRS), (0.15, created_dirs)])
            else:
                a = pick([(0.55, created_files), (0.1, created_dirs), (0.3, pre_files), (0.05, pre_dirs)])
                b = pick([(0.25, pre_files), (0.25, pre_dirs), (0.35, NEW_FILES), (0.05, NEW_DIRS), (0.1, created_files + created_dirs)])
            (created_dirs if op.startswith("copytree") else created_files).append(b)
            step = {"op": op, "a": a, "b": b}
        elif fam < 0.97:
            op = rng.choice(DELETES)
            if op in ("rmdir", "path-rmdir", "rmtree"):
                a = pick([(0.5, created_dirs), (0.5, pre_dirs)])
            else:
                a = pick([(0.5, created_files), (0.45, pre_files), (0.05, NEW_FILES)])
            step = {"op": op, "a": a}
        else:
            step = {"op": "open-r", "a": pick([(0.8, pre_files), (0.2, created_files)])}
        if step["op"] in PATH_METHOD:
            step["sp"] = "path"
        else:
            r = rng.random()
            step["sp"] = ("str" if r < 0.56 else "path" if r < 0.70 else "dot" if r < 0.78 else "updown" if r < 0.82 else "via-sibling" if r < 0.86
                          else "dotmid" if r < 0.90 else "dslash" if r < 0.94 else "bytes" if r < 0.98 else "slash")
            if step["sp"] == "slash" and not (step["a"] in pre_dirs or step["a"] in NEW_DIRS):
                step["sp"] = "str"
            if step["op"] in ("makedirs-exist_ok", "makedirs") and rng.random() < 0.04:
                step["sp"] = "updown-new"
        ops.append(step)
    return {"ops": ops, "flavor": flavor}


def _run_batch(ctx, cases, tag, clear_cache=True):
    """Create sandboxes, run the child once for the whole batch, diff the snapshots.  Returns list of per-case findings."""
    batch = ctx.scratch / f"batch_{tag}"
    batch.mkdir()
    rng = random.Random(hash(tag) & 0xFFFF)
    before = []
    for i, case in enumerate(cases):
        case["dir"] = f"case_{i:04d}"
        sb = batch / case["dir"]
        sb.mkdir()
        _make_tree(random.Random(case.get("tree_seed", rng.randrange(2**31))), sb, case.get("flavor", "base"))
        before.append(_snapshot(sb))
    spec_f, out_f = batch / "spec.json", batch / "out.json"
    spec_f.write_text(json.dumps({"cases": cases, "clear_cache": clear_cache}))
    env = dict(os.environ)
    env["PYTHONDONTWRITEBYTECODE"] = "1"
    try:
        cp = subprocess.run([PY, os.path.abspath(__file__), "--child", str(spec_f), str(out_f)], cwd=str(batch), env=env,
                            capture_output=True, text=True, timeout=300)
    except subprocess.TimeoutExpired:
        ctx.inconclusive_because(f"child of batch {tag} timed out")
        return None
    if cp.returncode != 0 or not out_f.exists():
        ctx.inconclusive_because(f"child of batch {tag} failed rc={cp.returncode}: {cp.stderr[-400:]}")
        return None
    results = json.loads(out_f.read_text())
    out = []
    for case, res, snap0 in zip(cases, results, before):
        snap1 = _snapshot(batch / case["dir"])
        out.append((case, res, snap0, snap1))
    return out


def _name_classes(ops, log, snap0):
    """Classes describing how the names used by the *successful* operations relate to each other and to pre-existing names."""
    out = set()
    used, raw = set(), {}
    for s, e in zip(ops, log):
        for p in (s.get("a"), s.get("b")):
            if p is None:
                continue
            n = _norm(p)
            raw.setdefault(n, set()).add((s.get("sp", "str"), p))
            if e.get("res") == "ok":
                used.add(n)
    pre = {p for p in snap0 if not p.startswith("<")}
    created = {p for e in log for p in e.get("appeared", [])}
    for n in used:
        parent, base = os.path.split(n)
        for other in (pre | used) - {n}:
            op_, ob = os.path.split(other)
            if op_ != parent or ob == base:
                continue
            if ob.lower() == base.lower():
                out.add("names:case-variant")
            if ob.startswith(base) or base.startswith(ob):
                out.add("names:prefix-related-siblings")
                short, long_ = (n, other) if len(base) < len(ob) else (other, n)
                if short in created and long_ in pre:
                    out.add("names:created-name-is-prefix-of-preexisting")
                if short in pre and long_ in created:
                    out.add("names:preexisting-name-is-prefix-of-created")
                if short in created and long_ in created and parent and any(parent == c or parent.startswith(c + "/") for c in created):
                    out.add("names:prefix-related-inside-created-dir")
    if any(len({sp for sp, _ in v}) > 1 for v in raw.values()):
        out.add("names:same-path-different-spelling")
    return sorted(out)


def _judge(ctx, case, res, snap0, snap1, extras_only=False):
    """Apply the oracle to one executed case."""
    log = res["log"]
    ops = case["ops"]
    n_ok = sum(1 for e in log if e.get("res") == "ok")
    cls = [f"op:{s['op']}" for s in ops]
    for s, e in zip(ops, log):
        for p, k in ((s.get("a"), e.get("pre_a")), (s.get("b"), e.get("pre_b"))):
            if p is None:
                continue
            n = _norm(p)
            if n in snap0:
                cls.append("target:preexisting-file" if snap0[n][0] == "file" else "target:preexisting-dir")
            elif k == "missing":
                cls.append("target:new")
            else:
                cls.append("target:created-earlier")
        if e.get("res") == "PermissionError" and "non-isolated" in e.get("msg", ""):
            cls.append("blocked-by-isolation")
        cls.append(f"spelling:{s.get('sp', 'str')}")
    cls.extend(_name_classes(ops, log, snap0))
    L = len(ops)
    cls.append("len:1-3" if L <= 3 else "len:4-8" if L <= 8 else "len:9-12")
    sig = [(s["op"], e.get("pre_a"), e.get("pre_b"), e.get("res") == "ok") for s, e in zip(ops, log)]
    if res.get("isolation_raised"):
        ctx.anomaly("isolation-enter-or-exit-raised:" + res["isolation_raised"].split(":")[0])

    root_gone = snap1.get("<sandbox-root>", ("missing",))[0] == "missing"
    missing = ["."] if root_gone else _topmost([p for p in snap0 if p not in snap1])
    changed = [] if root_gone else [p for p in snap0 if p in snap1 and snap0[p][:2] != snap1[p][:2]]
    modebits = [p for p in snap0 if p in snap1 and snap0[p][:2] == snap1[p][:2] and snap0[p][2] != snap1[p][2]]
    survivors = _topmost([p for p in snap1 if p not in snap0])
    findings = []
    for p in missing:
        mech, step = _mechanism(case, log, p, "deleted")
        what = "the sandbox directory itself (the cwd of the execution, with everything in it)" if p == "." else f"pre-existing {snap0[p][0]} '{p}'"
        findings.append((f"preexisting-deleted:{mech}", f"{what} is gone after the execution", step))
    for p in changed:
        mech, step = _mechanism(case, log, p, "modified")
        findings.append((f"preexisting-modified:{mech}", f"pre-existing '{p}' changed: {snap0[p][0]} {snap0[p][3]!r} -> {snap1[p][0]} {snap1[p][3]!r}", step))
    for p in survivors:
        mech, step = _mechanism(case, log, p, "survives", pre=set(snap0))
        findings.append((f"created-survives:{mech}", f"'{p}' ({snap1[p][0]}) was created during the execution and still exists afterwards", step))
    if modebits:
        ctx.anomaly("mode-bits-of-preexisting-path-changed")
    ctx.ok(cls=cls + (["case:clean"] if not findings else ["case:violating"]), distinct=sig if n_ok else None)
    replay = {"ops": ops, "tree_seed": case.get("tree_seed"), "flavor": case.get("flavor", "base"), "log": [{k: e.get(k) for k in ("res", "pre_a", "pre_b", "recorded")} for e in log]}
    for key, desc, step in findings:
        if step is not None:
            by = ctx.extra.setdefault("findings_by_entry_point", {})
            k2 = key.split(":")[0] + ":" + step["op"]
            by[k2] = by.get(k2, 0) + 1
        if extras_only or any(s["op"].startswith("x-") for s in ops):
            ctx.anomaly("outside-statement-op:" + key)
        else:
            ctx.witness(key, desc + " | ops: " + "; ".join(f"{s['op']}({s.get('a')}{',' + s['b'] if s.get('b') else ''})={e.get('res')}" for s, e in zip(ops, log))[:380], replay)
    if len(ctx.samples) < 6 and n_ok >= 2:
        ctx.sample({"ops": [f"{s['op']}({s.get('a')}{',' + s['b'] if s.get('b') else ''})[{s.get('sp')}] -> {e.get('res')}" for s, e in zip(ops, log)],
                    "findings": [k for k, _, _ in findings]})
    return findings


def _directed_cases():
    cases = []

    def add(*steps, **kw):
        cases.append({"ops": [dict(zip(("op", "a", "b", "sp"), s + (None,) * (4 - len(s)))) for s in steps], "tree_seed": 7, **kw})

    # the confirmed defect, literally
    add(("makedirs-exist_ok", "pre_dir"), ("open-append", "pre_a.txt"), ("open-write", "n1.txt"))
    add(("makedirs-exist_ok", "pre_dir"))
    add(("open-append", "pre_a.txt"))
    # every writer on a pre-existing file, on a new file, on a new file in a pre-existing dir
    for op in WRITERS + READS:
        sp = "path" if op in PATH_METHOD else "str"
        add((op, "pre_a.txt", None, sp))
        add((op, "n1.txt", None, sp))
        add((op, "pre_dir/new.txt", None, sp))
        add((op, "n1.txt", None, sp), (op, "n1.txt", None, sp), ("remove", "n1.txt"))
    for op in MKDIRS:
        sp = "path" if op in PATH_METHOD else "str"
        add((op, "pre_dir", None, sp))
        add((op, "pre_empty", None, sp))
        add((op, "nd1", None, sp))
        add((op, "nd1/deep/er", None, sp))
        add((op, "pre_empty/nd/x/y", None, sp), ("open-write", "pre_empty/nd/x/y/f.txt"))
    for op in TWOARG:
        sp = "path" if op in PATH_METHOD else "str"
        mk = ("mkdir", "nd2") if op.startswith("copytree") else ("open-write", "n1.txt")
        src = "nd2" if op.startswith("copytree") else "n1.txt"
        for dst in ("pre_a.txt", "pre_empty", "pre_dir", "n2.dat", "pre_dir/new.txt"):
            add(mk, (op, src, dst, sp))
        psrc = "pre_dir" if op.startswith("copytree") else "pre_a.txt"
        add((op, psrc, "nd1" if op.startswith("copytree") else "n2.dat", sp))
        add((op, psrc, "pre_empty" if op.startswith("copytree") else "pre_b.bin", sp))
    for op in DELETES:
        sp = "path" if op in PATH_METHOD else "str"
        isdir = op in ("rmdir", "path-rmdir", "rmtree")
        add((op, "pre_empty" if isdir else "pre_a.txt", None, sp))
        add((op, "pre_dir" if isdir else "pre_dir/x.txt", None, sp))
        add(("mkdir", "nd1") if isdir else ("open-write", "n1.txt"), (op, "nd1" if isdir else "n1.txt", None, sp))
        add(("makedirs-exist_ok", "pre_empty") if isdir else ("open-append", "pre_a.txt"), (op, "pre_empty" if isdir else "pre_a.txt", None, sp))
    for sp in ("dot", "updown", "bytes", "slash", "path"):
        add(("open-write", "n1.txt", None, sp if sp != "slash" else "str"), ("mkdir", "nd1", None, sp), ("open-append", "pre_a.txt", None, sp if sp != "slash" else "str"))
        add(("makedirs-exist_ok", "pre_dir", None, sp))
        add(("open-write", "n1.txt", None, sp if sp != "slash" else "str"), ("rename", "n1.txt", "n2.dat", sp if sp != "slash" else "str"))
        add(("open-write", "n1.txt"), ("copy", "n1.txt", "pre_dir/new.txt", sp if sp != "slash" else "str"))
    # '..' through a directory that does not exist: the parent (here the cwd) ends up in the created-set
    add(("makedirs-exist_ok", "pre_dir", None, "updown-new"))
    add(("makedirs-exist_ok", "nd1", None, "updown-new"))
    add(("path-mkdir-parents-exist_ok", "pre_dir", None, "updown-new"))
    # source == destination
    for op in ("rename", "replace", "move", "path-rename", "path-replace"):
        add(("open-write", "n1.txt"), (op, "n1.txt", "n1.txt", "path" if op.startswith("path-") else "str"))
        add(("mkdir", "nd1"), (op, "nd1", "nd1", "path" if op.startswith("path-") else "str"))
    # a pre-existing file that is modified and then survives because its entry is dropped again (source == destination)
    add(("open-append", "pre_a.txt"), ("rename", "pre_a.txt", "pre_a.txt"))
    add(("open-write", "n1.txt"), ("copy", "n1.txt", "pre_a.txt"), ("rename", "pre_a.txt", "pre_a.txt"))
    add(("open-write", "n1.txt"), ("rename-kw", "n1.txt", "n1.txt"))
    add(("open-append", "pre_a.txt", None, "bytes"))
    add(("open-append", "pre_a.txt", None, "bytes"), ("remove", "pre_a.txt", None, "bytes"))
    add(("mkdir", "nd2"), ("copytree-exist_ok", "nd2", "nd2"))
    add(("mkdir", "nd1"), ("rename", "nd1", "pre_empty"))
    add(("mkdir", "nd1"), ("path-replace", "nd1", "pre_empty", "path"))
    # created directory (with created content) renamed onto a pre-existing empty directory
    add(("mkdir", "nd1"), ("open-write", "nd1/in.txt"), ("rename", "nd1", "pre_empty"))
    add(("mkdir", "nd1"), ("open-write", "nd1/in.txt"), ("path-replace", "nd1", "pre_empty", "path"))
    # created content below created directories, removed in various orders
    add(("makedirs", "nd1/deep/er"), ("open-write", "nd1/deep/er/f.txt"), ("open-write", "nd1/in.txt"))
    add(("mkdir", "nd1"), ("open-write", "nd1/in.txt"), ("rename", "nd1", "nd2"))
    add(("mkdir", "nd1"), ("open-write", "nd1/in.txt"), ("rmtree", "nd1"))
    add(("open-write", "n1.txt"), ("move", "n1.txt", "pre_dir"), ("open-write", "n1.txt"))
    return cases


def _directed_prefix_cases():
    """Siblings whose names are string prefixes of each other (no separator in between), in every role."""
    cases = []

    def add(*steps):
        cases.append({"ops": [dict(zip(("op", "a", "b", "sp"), s + (None,) * (4 - len(s)))) for s in steps], "tree_seed": 11, "flavor": "prefix"})

    def sp_of(op):
        return "path" if op in PATH_METHOD else "str"

    nd = [("mkdir", "nd"), ("open-write", "nd/f1"), ("open-write", "nd/f10")]
    nd_rev = [("mkdir", "nd"), ("open-write", "nd/f10"), ("open-write", "nd/f1")]
    # writers: created name is a prefix of a pre-existing one and vice versa, top level and inside a pre-existing dir
    for op in WRITERS:
        for name in ("app", "app.log.bak", "out", "f", "f10", "pre_dir/app", "pre_dir/app.log.2", "pre_dir/dat", "readme.md"):
            add((op, name, None, sp_of(op)))
        add((op, "f10", None, sp_of(op)), (op, "f", None, sp_of(op)), (op, "f1.tmp", None, sp_of(op)))
        add(("mkdir", "nd"), (op, "nd/app.log.1", None, sp_of(op)), (op, "nd/app.log", None, sp_of(op)))
    for op in MKDIRS:
        for name in ("out", "ou", "d3", "D", "pre_di", "pre_dir2", "pre_dir/d3", "pre_dir/da"):
            add((op, name, None, sp_of(op)))
        add(("mkdir", "nd"), ("mkdir", "nd/d2"), (op, "nd/d", None, sp_of(op)), ("open-write", "nd/d.txt"))
        add((op, "out", None, sp_of(op)), ("open-write", "out/in"), ("open-write", "out_dir/new"), ("open-write", "out_dir2"))
    # deletions of the shorter / the longer name, created and pre-existing, both creation orders
    for op in DELETES:
        isdir = op in ("rmdir", "path-rmdir", "rmtree")
        if isdir:
            dirs = [("mkdir", "nd"), ("mkdir", "nd/d"), ("mkdir", "nd/d2"), ("open-write", "nd/d.txt")]
            add(*dirs, (op, "nd/d", None, sp_of(op)))
            add(*dirs, (op, "nd/d2", None, sp_of(op)))
            add(*dirs, ("open-write", "nd/d2/x"), (op, "nd/d", None, sp_of(op)))
            add(("mkdir", "d3"), (op, "d", None, sp_of(op)), (op, "d2", None, sp_of(op)), (op, "d3", None, sp_of(op)))
            add(("mkdir", "ou"), (op, "out_dir", None, sp_of(op)), (op, "ou", None, sp_of(op)))
            add(("mkdir", "out"), (op, "out_dir", None, sp_of(op)), (op, "out", None, sp_of(op)))
            add(("mkdir", "pre_dir/da"), (op, "pre_dir/d", None, sp_of(op)), (op, "pre_dir/d2", None, sp_of(op)))
        else:
            add(*nd, (op, "nd/f1", None, sp_of(op)))
            add(*nd, (op, "nd/f10", None, sp_of(op)))
            add(*nd_rev, (op, "nd/f1", None, sp_of(op)))
            add(("open-write", "f"), (op, "f1", None, sp_of(op)), (op, "f", None, sp_of(op)))
            add(("open-write", "f10"), (op, "f1", None, sp_of(op)), (op, "f10", None, sp_of(op)))
            add(("open-write", "app"), (op, "app.log", None, sp_of(op)), (op, "app.log.1", None, sp_of(op)))
            add(("open-write", "app.log.bak"), (op, "app.log", None, sp_of(op)))
            add(("open-write", "out"), (op, "out.txt", None, sp_of(op)))
            add(("open-write", "pre_dir/dat"), (op, "pre_dir/data.txt", None, sp_of(op)))
    # rename / replace / move / copy between prefix-related names
    for op in TWOARG:
        q = sp_of(op)
        if op.startswith("copytree"):
            dirs = [("mkdir", "nd"), ("mkdir", "nd/d"), ("open-write", "nd/d/x"), ("mkdir", "nd/d2")]
            add(*dirs, (op, "nd/d", "nd/d3", q))
            add(*dirs, (op, "nd/d", "d3", q))
            add(("mkdir", "ou"), (op, "ou", "out", q))
            add((op, "d", "d3", q), (op, "d2", "nd", q))
            continue
        add(*nd, (op, "nd/f1", "nd/f100", q))
        add(*nd, (op, "nd/f10", "nd/f", q))
        add(*nd, (op, "nd/f10", "nd/f1", q))
        add(*nd_rev, (op, "nd/f1", "nd/f10", q))
        add(("open-write", "f"), (op, "f", "f10", q))
        add(("open-write", "f10"), (op, "f10", "f", q))
        add(("open-write", "app"), (op, "app", "app.log.bak", q), (op, "app.log", "app.log.2", q))
        add(("open-write", "out"), (op, "out", "out_dir", q))
        add(("open-write", "out"), (op, "out", "out_dir2", q), (op, "out_dir2", "ou", q))
        add(("mkdir", "ou"), ("open-write", "ou/in"), (op, "ou", "out", q))
        add(("open-write", "pre_dir/app"), (op, "pre_dir/app", "pre_dir/app.log.2", q), (op, "pre_dir/app.log.1", "pre_dir/app.log.3", q))
    # two created, prefix-related siblings in a directory that is NOT created by the execution; the shorter / the longer one is
    # removed or renamed away, in both creation orders
    pairs_f, pairs_d = PX_PAIRS_F[:5], PX_PAIRS_D
    for op in DELETES + ["rename", "replace", "move", "path-rename", "path-replace", "rename-kw", "move-kw"]:
        q = sp_of(op)
        two = op not in DELETES
        isdir = op in ("rmdir", "path-rmdir", "rmtree")
        for short, long_ in (pairs_d if isdir else pairs_f) + (pairs_d[:2] if two else []):
            mk = "mkdir" if (short, long_) in pairs_d else "open-write"
            away = os.path.join(os.path.dirname(short), "zz_moved")
            for first, second in ((long_, short), (short, long_)):
                for victim in (short, long_):
                    add((mk, first), (mk, second), (op, victim, away if two else None, q))
        if not isdir and not two:
            add(("open-write", "f100"), ("open-write", "f10"), ("open-write", "f"), (op, "f10", None, q), (op, "f", None, q))
    # log rotation chains: x.1 -> x.2, x -> x.1, new x  (inside a created dir, inside a pre-existing dir, at top level)
    for ren in ("rename", "replace", "move", "path-rename", "path-replace"):
        q = sp_of(ren)
        add(("mkdir", "nd"), ("open-write", "nd/app.log"), ("open-write", "nd/app.log.1"), (ren, "nd/app.log.1", "nd/app.log.2", q),
            (ren, "nd/app.log", "nd/app.log.1", q), ("open-write", "nd/app.log"))
        add(("open-write", "pre_dir/app.log.2"), (ren, "pre_dir/app.log.2", "pre_dir/app.log.3", q), (ren, "pre_dir/app.log.1", "pre_dir/app.log.2", q),
            (ren, "pre_dir/app.log", "pre_dir/app.log.1", q), ("open-write", "pre_dir/app.log.0"))
        add((ren, "app.log.1", "app.log.2", q), (ren, "app.log", "app.log.1", q), ("open-excl", "app.log.2"), (ren, "app.log.2", "app.log.3", q))
        for base in ("pre_dir/new.log", "new.log", "out_dir/out"):
            add(("open-write", base + ".1"), ("open-write", base), (ren, base + ".1", base + ".2", q), (ren, base, base + ".1", q), ("open-write", base))
            add(("open-write", base), ("open-write", base + ".1"), ("open-write", base + ".2"), (ren, base + ".2", base + ".3", q),
                (ren, base + ".1", base + ".2", q), (ren, base, base + ".1", q))
    # names that normalise to the same path, used together
    for a_sp, b_sp in (("str", "dot"), ("dot", "dotmid"), ("dslash", "str"), ("via-sibling", "str"), ("updown", "dslash"), ("path", "via-sibling"), ("bytes", "str")):
        add(("open-write", "f10", None, a_sp), ("remove", "f10", None, b_sp))
        add(("mkdir", "nd", None, a_sp), ("open-write", "nd/f1", None, b_sp), ("rename", "nd/f1", "nd/f10", a_sp), ("remove", "nd/f10", None, b_sp))
        add(("open-write", "pre_dir/dat", None, a_sp), ("copy", "pre_dir/dat", "pre_dir/da.bak", b_sp), ("open-append", "pre_dir/dat", None, b_sp))
        add(("open-write", "out", None, a_sp), ("remove", "out.txt", None, b_sp), ("rmtree", "out_dir", None, b_sp))
    for sl in ("slash",):
        add(("mkdir", "d3", None, sl), ("rmdir", "d3"), ("makedirs", "out", None, sl), ("rmtree", "out_dir", None, sl))
        add(("mkdir", "ou"), ("rmtree", "ou", None, sl), ("rmtree", "out_dir", None, sl))
    # case variants
    add(("open-write", "readme.md"), ("remove", "README.md"), ("remove", "readme.md"))
    add(("open-write", "Readme.md"), ("rename", "Readme.md", "readme.md"), ("remove", "README.md"))
    add(("open-write", "APP.LOG"), ("remove", "app.log"), ("mkdir", "D"), ("rmtree", "d"), ("rmdir", "D"))
    add(("mkdir", "D"), ("open-write", "D/x"), ("rmtree", "d"))
    return cases


def run_chunk(spec, ctx):
    if spec["name"] == "directed-prefix":
        for case, res, s0, s1 in _run_batch(ctx, _directed_prefix_cases(), "dprefix") or []:
            _judge(ctx, case, res, s0, s1)
        return
    if spec["name"] == "directed":
        cases = _directed_cases()
        for case, res, s0, s1 in _run_batch(ctx, cases, "directed") or []:
            _judge(ctx, case, res, s0, s1)
        # stale abspath cache after a cwd change (two executions, same relative name, different cwd): anomaly only
        cases = [{"ops": [{"op": "open-write", "a": "same.txt", "sp": "str"}, {"op": "mkdir", "a": "samedir", "sp": "str"}], "tree_seed": 7} for _ in range(3)]
        for idx, (case, res, s0, s1) in enumerate(_run_batch(ctx, cases, "stalecache", clear_cache=False) or []):
            surv = [p for p in s1 if p not in s0]
            gone = [p for p in s0 if p not in s1]
            ctx.ok(cls="stale-cache-batch")
            if surv or gone:
                ctx.anomaly("outside-statement:stale-abspath-cache-after-chdir:" + ("created-survives" if surv else "preexisting-deleted"))
        # operations outside the statement's list: anomaly only
        xcases = []
        for op, a, b in (("x-removedirs", "pre_empty", None), ("x-renames", "pre_a.txt", "nd1/moved.txt"), ("x-truncate", "pre_a.txt", None),
                         ("x-symlink", "pre_a.txt", "ln1"), ("x-link", "pre_a.txt", "hl1")):
            xcases.append({"ops": [{"op": op, "a": a, "b": b, "sp": "str"}], "tree_seed": 7})
        for case, res, s0, s1 in _run_batch(ctx, xcases, "extras") or []:
            _judge(ctx, case, res, s0, s1, extras_only=True)
        return
    rng = random.Random((spec["seed"] * 1000003 + spec["part"]) * 29 + 29)
    cases = []
    for _ in range(spec["n"]):
        c = _gen_case(rng, flavor="prefix" if rng.random() < 0.5 else "base")
        c["tree_seed"] = rng.randrange(2**31)
        cases.append(c)
    for case, res, s0, s1 in _run_batch(ctx, cases, f"r{spec['part']}") or []:
        _judge(ctx, case, res, s0, s1)


def replay(w, ctx):
    case = {"ops": w["case"]["ops"], "tree_seed": w["case"].get("tree_seed", 7), "flavor": w["case"].get("flavor", "base")}
    for c, res, s0, s1 in _run_batch(ctx, [case], "replay") or []:
        _judge(ctx, c, res, s0, s1)


if __name__ == "__main__":
    if len(sys.argv) == 4 and sys.argv[1] == "--child":
        _child_main(sys.argv[2], sys.argv[3])
    else:
        raise SystemExit("usage: c29_fs_isolation.py --child spec.json out.json")
