"""C30 — test executions are isolated and restore process state.

Two monitors around the real ``TestCaseExecutor.execute``:

* **snapshot**: process state (identity of sys.stdout/stderr/stdin/__stdout__/__stderr__, whether they are
  closed, inode of fds 0-2, logging.root.manager.disable, root handlers, root level, state of Pynguin's own
  ``randomness.RNG``) is taken before and after *every* execution by a wrapper installed from the harness; any
  component that differs is a witness ``state-leak:<component>``.
* **order independence**: for a SUT module without hidden state the summary of a test (exception type per
  position, covered line numbers, (predicate, outcome) set, rendered assertion trace, timeout flag) inside a
  random permutation must equal its summary when executed alone in a fresh process.  "Fresh process" is a
  ``fork`` of the harness right after the instrumented import, so every baseline and every permutation starts
  from the same image.  A mismatch is re-run once (must reproduce), then reduced to one culprit statement and
  one victim statement; the key names the API the culprit statement used and the API of the victim statement.
"""

from __future__ import annotations

import random
import re

ID = "C30"
LEVEL = "exploration"
IN_PROCESS = False
CHUNK_TIMEOUT = 1800
RULE = (
    "test cases = one directed call per hostile effect (print, raise, SystemExit, close fd 0/1/2, open(1), dup2, "
    "sys.stdout/stderr/stdin replaced or closed, logging.disable/basicConfig/setLevel/addHandler/shutdown, random.seed, "
    "random draws, non-terminating loop) plus RandomLengthTestCaseFactory tests over the same module, executed through the "
    "unmodified TestCaseExecutor in histories of 3-30 tests, one freshly forked process per history (Pynguin's RNG is advanced "
    "between executions); oracle 1: process-state snapshot equal before/after every execute; oracle 2: every occurrence of a "
    "test in any history has the same summary as its occurrence as *first* test of a history (= alone in a fresh process), only "
    "for the module without hidden state; a mismatch is attributed to (API whose effect leaked -> API that observed it) from the "
    "data and confirmed by re-running the two single-call tests in a fresh process; a case is distinct by the sequence of test sources"
)
ASSUMPTIONS = [
    "os.fstat inode, object identity and logging/random getstate() are a faithful observation of the process state",
    "a fork taken right after the instrumented import is a 'fresh process'",
    "a test whose stand-alone executions (first position of several histories) differ is not deterministic and is excluded (anomaly)",
    "no function of the stateless module loops, so a timeout there is a starved thread on a loaded machine (anomaly, dropped)",
    "a mismatch that cannot be reproduced in a fresh process is load noise (anomaly), not a violation",
    "modules that mutate their own globals are exempt from order independence; long-lived random.Random instances are NOT "
    "exempt: generator._patch_random (installed before the SUT import, as _setup_and_check does) tracks them and "
    "_make_deterministic reseeds them before every execution; random.SystemRandom is excluded (not deterministic)",
    "random.getstate() of the global `random` module is not Pynguin's own stream and is not part of the snapshot",
]

# ------------------------------------------------------------------------------- SUT modules
SUT_FX = '''
import collections
import functools
import io
import logging
import os
import random
import sys


def plain(x: int) -> int:
    if x > 3:
        return x * 2
    return x - 1


def classify(a: int, b: int, c: int) -> str:
    if a <= 0 or b <= 0 or c <= 0:
        return "invalid"
    if a == b == c:
        return "equi"
    if a == b or b == c or a == c:
        return "iso"
    return "scalene"


def pr(x: int) -> int:
    print("hello", x)
    return x + 1


def perr(x: int) -> int:
    sys.stderr.write("oops\\n")
    return x + 2


def boom(x: int) -> int:
    if x > 2:
        raise ValueError("too big")
    return x


def sysexit(x: int) -> int:
    if x > 2:
        sys.exit(3)
    return x


def kbd(x: int) -> int:
    if x > 2:
        raise KeyboardInterrupt()
    return x


def close_fd0(x: int) -> int:
    os.close(0)
    return x


def close_fd1(x: int) -> int:
    os.close(1)
    return x


def close_fd2(x: int) -> int:
    os.close(2)
    return x


def open_fd1(x: int) -> int:
    with open(1, "w") as f:
        f.write("")
    return x


def dup_over_fd1(x: int) -> int:
    fd = os.open(os.devnull, os.O_WRONLY)
    os.dup2(fd, 1)
    os.dup2(fd, 2)
    os.close(fd)
    return x


def stdout_none(x: int) -> int:
    sys.stdout = None
    return x


def stderr_swap(x: int) -> int:
    sys.stderr = io.StringIO()
    sys.stdout = sys.stderr
    return x


def stdin_swap(x: int) -> int:
    sys.stdin = io.StringIO("line\\n")
    return len(sys.stdin.readline())


def close_sys_stdout(x: int) -> int:
    sys.stdout.close()
    return x


def close_sys_stderr(x: int) -> int:
    sys.stderr.close()
    return x


def close_stdin(x: int) -> int:
    sys.stdin.close()
    return x


def close_real_stdout(x: int) -> int:
    sys.__stdout__.close()
    return x


def log_disable(x: int) -> int:
    logging.disable(logging.CRITICAL)
    return x


def log_basic(x: int) -> int:
    logging.basicConfig(level=logging.DEBUG)
    return x


def log_level(x: int) -> int:
    logging.getLogger().setLevel(logging.CRITICAL)
    return x


def log_handler(x: int) -> int:
    logging.getLogger().addHandler(logging.NullHandler())
    return x


def log_force(x: int) -> int:
    logging.basicConfig(level=logging.DEBUG, force=True)
    return x


def log_clear(x: int) -> int:
    logging.getLogger().handlers.clear()
    return x


def log_remove(x: int) -> int:
    root = logging.getLogger()
    for h in list(root.handlers):
        root.removeHandler(h)
    return x


def log_shutdown(x: int) -> int:
    logging.shutdown()
    return x


def log_emit(x: int) -> int:
    logging.getLogger("c30.sut").error("something %s", x)
    return x


def log_query(x: int) -> int:
    if logging.getLogger("c30.sut").isEnabledFor(logging.ERROR):
        return x + 1
    return x - 1


def seed1(x: int) -> float:
    random.seed(1)
    return random.random()


def draw(x: int) -> int:
    r = random.random()
    if r < 0.25:
        return 0
    if r < 0.5:
        return 1
    if r < 0.75:
        return 2
    return 3


def draw_many(x: int) -> int:
    n = 0
    for _ in range(5):
        if random.randint(0, 9) < 5:
            n += 1
    return n


def own_random(x: int) -> float:
    r = random.Random()
    return r.random()


# --- long-lived random.Random instances: tracked by generator._patch_random, reseeded by _make_deterministic ---
_rng_seeded = random.Random(2024)
_rng_unseeded = random.Random()
# created lazily (first use inside a test) by C code, so that the creation itself is not visible in the coverage
_lazy = collections.defaultdict(random.Random)
_lazy_seeded = collections.defaultdict(functools.partial(random.Random, 2024))
_rng_reseeded = random.Random()


class Holder:
    _RNG = random.Random(11)


def _bucket(r: float) -> int:
    if r < 0.25:
        return 0
    if r < 0.5:
        return 1
    if r < 0.75:
        return 2
    return 3


def inst_seeded(x: int) -> int:
    return _bucket(_rng_seeded.random())


def inst_unseeded(x: int) -> int:
    return _bucket(_rng_unseeded.random()) + _rng_unseeded.randint(0, 99)


def inst_lazy(x: int) -> int:
    r = _lazy["r"]
    return _bucket(r.random()) + r.randint(0, 999)


def inst_lazy_seeded(x: int) -> int:
    r = _lazy_seeded["r"]
    return _bucket(r.random()) + r.randint(0, 999)


def inst_class_attr(x: int) -> int:
    return _bucket(Holder._RNG.random()) + Holder._RNG.randrange(50)


def inst_seed_later(x: int) -> int:
    _rng_reseeded.seed(7)
    return _bucket(_rng_reseeded.random())


def inst_draw_after_seed_later(x: int) -> int:
    return _bucket(_rng_reseeded.random())


def inst_per_call(x: int) -> int:
    return _bucket(random.Random(2024).random())


def inst_shuffle(x: int) -> list:
    data = list(range(6))
    _rng_seeded.shuffle(data)
    return data


def _spin(x: int) -> int:
    n = 0
    while True:
        n += 1
    return n


def _spin_print(x: int) -> int:
    sys.stdout = None
    logging.disable(logging.NOTSET)
    n = 0
    while True:
        n += 1
    return n
'''

# function -> API / effect it exercises (mechanism names used in witness keys)
TAGS = {
    "plain": "pure", "classify": "pure", "pr": "print", "perr": "sys.stderr.write", "boom": "raise", "sysexit": "sys.exit",
    "kbd": "raise-KeyboardInterrupt", "close_fd0": "os.close(0)", "close_fd1": "os.close(1)", "close_fd2": "os.close(2)",
    "open_fd1": "open(1)", "dup_over_fd1": "os.dup2", "stdout_none": "sys.stdout=None", "stderr_swap": "sys.stderr=obj",
    "stdin_swap": "sys.stdin=obj", "close_sys_stdout": "sys.stdout.close", "close_sys_stderr": "sys.stderr.close",
    "close_stdin": "sys.stdin.close", "close_real_stdout": "sys.__stdout__.close", "log_disable": "logging.disable",
    "log_basic": "logging.basicConfig", "log_level": "logging.root.setLevel", "log_handler": "logging.root.addHandler",
    "log_shutdown": "logging.shutdown", "log_emit": "logging.error", "log_query": "logging.isEnabledFor",
    "log_force": "logging.basicConfig(force=True)", "log_clear": "logging.root.handlers.clear", "log_remove": "logging.root.removeHandler",
    "seed1": "random.seed", "draw": "random.random", "draw_many": "random.randint", "own_random": "random.Random()",
    "inst_seeded": "Random(seed).module-level", "inst_unseeded": "Random().module-level", "inst_lazy": "Random().lazy-global",
    "inst_lazy_seeded": "Random(seed).lazy-global", "inst_class_attr": "Random(seed).class-attribute",
    "inst_seed_later": "Random.seed(7)", "inst_draw_after_seed_later": "Random().after-seed(7)",
    "inst_per_call": "Random(seed).per-call", "inst_shuffle": "Random(seed).shuffle",
    "_spin": "timeout", "_spin_print": "timeout",
}
INSTANCE_TAGS = {"Random(seed).module-level", "Random().module-level", "Random().lazy-global", "Random(seed).lazy-global",
                 "Random(seed).class-attribute", "Random.seed(7)", "Random().after-seed(7)", "Random(seed).per-call",
                 "Random(seed).shuffle"}
# effect classes named in the floors (property statement: raise, print, close streams, disable logging, reseed, consume)
EFFECT_CLASS = {
    "print": "effect:print", "sys.stderr.write": "effect:print", "raise": "effect:raise", "sys.exit": "effect:raise",
    "raise-KeyboardInterrupt": "effect:raise", "os.close(0)": "effect:close-fd", "os.close(1)": "effect:close-fd",
    "os.close(2)": "effect:close-fd", "open(1)": "effect:close-fd", "os.dup2": "effect:close-fd",
    "sys.stdout=None": "effect:replace-stream", "sys.stderr=obj": "effect:replace-stream", "sys.stdin=obj": "effect:replace-stream",
    "sys.stdout.close": "effect:close-stream", "sys.stderr.close": "effect:close-stream", "sys.stdin.close": "effect:close-stream",
    "sys.__stdout__.close": "effect:close-stream", "logging.disable": "effect:logging.disable",
    "logging.basicConfig": "effect:logging.config", "logging.root.setLevel": "effect:logging.config",
    "logging.root.addHandler": "effect:logging.config", "logging.shutdown": "effect:logging.config",
    "logging.basicConfig(force=True)": "effect:logging.remove-handler", "logging.root.handlers.clear": "effect:logging.remove-handler",
    "logging.root.removeHandler": "effect:logging.remove-handler",
    "logging.error": "effect:logging.use", "logging.isEnabledFor": "effect:logging.use", "random.seed": "effect:random.seed",
    "random.random": "effect:random.draw", "random.randint": "effect:random.draw", "random.Random()": "effect:random.draw",
    "timeout": "effect:timeout", "pure": "effect:none",
} | {t: "sut:random.Random-instance" for t in INSTANCE_TAGS}

SUT_HIDDEN = '''
import random

COUNT = 0
_CACHE = {}
_R = random.Random(7)


def glob(x: int) -> int:
    global COUNT
    COUNT += 1
    if COUNT > 2:
        return -1
    return x


def memo(x: int) -> int:
    if x in _CACHE:
        return _CACHE[x]
    _CACHE[x] = x * x
    print("computed", x)
    return _CACHE[x]


def inst_draw(x: int) -> int:
    if _R.random() < 0.5:
        return 0
    return 1


def glob_raise(x: int) -> int:
    global COUNT
    COUNT += 1
    if COUNT % 2 == 0:
        raise RuntimeError("even")
    return COUNT
'''

FX = "c30_fx"
HID = "c30_hidden"
_CALL = re.compile(r"\b(?:%s_|%s_)\.(\w+)\(" % (FX, HID))


def floors(tier):
    k = 1 if tier == "quick" else 6
    return {
        "evals": 1500 * k,
        "distinct": 80 * k,
        "classes": {
            "snapshot": 700 * k,
            "order:compared": 500 * k,
            "effect:print": 20, "effect:raise": 20, "effect:close-fd": 20, "effect:replace-stream": 10,
            "effect:close-stream": 10, "effect:logging.disable": 10, "effect:logging.config": 10, "effect:logging.remove-handler": 6,
            "effect:random.seed": 10, "effect:random.draw": 20, "effect:timeout": 3,
            "hidden-state-exempt": 40, "factory-test": 100, "sut:random.Random-instance": 150 * k,
        },
    }


def plan(tier, seed):
    # fork() costs 0.1-0.8 s in this sandbox: one fork per history is the budget, reductions only on a mismatch
    if tier == "quick":
        nhist, parts, nfac = 14, 5, 10
    else:
        nhist, parts, nfac = 120, 15, 25
    out = [{"name": "directed"}, {"name": "timeouts"}, {"name": "hidden", "seed": seed, "n": 4 if tier == "quick" else 40}]
    for p in range(parts):
        out.append({"name": "random", "seed": seed, "part": p, "nhist": nhist, "nfactory": nfac})
    return out


# ------------------------------------------------------------------------------- monitor
class Monitor:
    """Snapshot before/after every TestCaseExecutor.execute (wrapper installed from the harness)."""

    def __init__(self):
        self.calls = 0
        self.leaks: list[dict] = []
        self.installed = False

    def install(self):
        from pynguin.testcase.execution import TestCaseExecutor
        from vlib import exech as H

        if self.installed:
            return
        orig = TestCaseExecutor.execute
        mon = self

        def execute(self_, test_case):
            before = H.snapshot()
            try:
                return orig(self_, test_case)
            finally:
                after = H.snapshot()
                mon.calls += 1
                comps = [k for k in before if before[k] != after[k]]
                mon.leaks.append({"components": comps, "before": {k: _short(before[k]) for k in comps},
                                  "after": {k: _short(after[k]) for k in comps}})

        execute.__wrapped__ = orig
        TestCaseExecutor.execute = execute
        self.installed = True


def _short(v):
    s = repr(v)
    return s if len(s) < 80 else s[:77] + "..."


MON = Monitor()


def _tags_of(lines):
    tags = []
    for ln in lines:
        for fn in _CALL.findall(ln):
            tags.append(TAGS.get(fn, fn if fn in ("glob", "memo", "inst_draw", "glob_raise") else "other"))
    return tags


def _run_sequence(sp, tests, max_timeout=5, per_stmt=2):
    """(in a forked child) one executor, tests in order; returns [{'summary':..., 'leak':...}]."""
    from pynguin.assertion.assertiontraceobserver import RemoteAssertionTraceObserver
    from pynguin.testcase.execution import TestCaseExecutor
    from vlib import exech as H

    MON.install()
    # Pynguin's CLI installs its own handler on the root logger (cli._setup_logging): a SUT that removes root handlers removes that one
    import logging

    if not any(getattr(h, "name", None) == "c30-own-handler" for h in logging.root.handlers):
        own = logging.NullHandler()
        own.set_name("c30-own-handler")
        logging.root.addHandler(own)
    ex = TestCaseExecutor(sp, maximum_test_execution_timeout=max_timeout, test_execution_time_per_statement=per_stmt)
    ex.add_remote_observer(RemoteAssertionTraceObserver())
    from pynguin.utils import randomness

    out = []
    for i, t in enumerate(tests):
        n0 = len(MON.leaks)
        for _ in range(1 + i % 3):
            randomness.RNG.random()  # Pynguin draws from its own stream between executions: the state is never the seed state
        try:
            res = ex.execute(t)
            summary = H.summarize(res, sp, verification=False)
        except Exception as e:  # noqa: BLE001 - execute() itself must not raise
            summary = {"execute-raised": f"{type(e).__name__}: {e}"[:200]}
        leak = MON.leaks[n0] if len(MON.leaks) > n0 else None
        out.append({"summary": summary, "leak": leak})
    return out


class Runner:
    def __init__(self, ctx, sp, modname, max_timeout=5, per_stmt=2):
        self.ctx, self.sp, self.modname = ctx, sp, modname
        self.max_timeout, self.per_stmt = max_timeout, per_stmt
        self.forks = 0
        self.rechecked: set = set()

    def seq(self, tests, timeout=120.0):
        from vlib import exech as H

        self.forks += 1
        return H.forked(lambda: _run_sequence(self.sp, tests, self.max_timeout, self.per_stmt), self.ctx.scratch, timeout)

    def alone(self, test):
        return self.seq([test])[0]

    # -- oracle 1 -------------------------------------------------------------
    def judge_leak(self, entry, lines, exempt=False, tainted=False):
        """One snapshot evaluation for one execute().

        tainted: an earlier execution of this process timed out although nothing in the module loops (starved thread on an
        overloaded machine); its abandoned thread may still run SUT code, so a state change is not attributable."""
        ctx = self.ctx
        tags = _tags_of(lines)
        classes = {"snapshot"} | {EFFECT_CLASS.get(t, "effect:other") for t in tags}
        if exempt:
            classes.add("hidden-state-exempt")
        if "execute-raised" in entry["summary"]:
            ctx.witness("execute-raises:" + entry["summary"]["execute-raised"].split(":")[0],
                        f"TestCaseExecutor.execute raised {entry['summary']['execute-raised']}", {"test": lines})
            return
        if entry["leak"] is None:
            ctx.inconclusive_because("snapshot wrapper around TestCaseExecutor.execute saw no call")
            return
        ctx.ok(cls=classes)
        for comp in entry["leak"]["components"]:
            if tainted and comp not in ("sys.stdin.closed", "sys.stdout.closed"):
                ctx.anomaly("state-change-after-starved-timeout")
                continue
            ctx.witness(
                f"state-leak:{comp}",
                f"{comp} changed across TestCaseExecutor.execute: {entry['leak']['before'][comp]} -> {entry['leak']['after'][comp]}; "
                f"SUT APIs used by the test: {sorted(set(tags))}",
                {"module": self.modname, "test": lines, "component": comp},
            )


def _trim(summary):
    return {k: summary[k] for k in ("timeout", "exc", "lines", "branches", "assertions") if k in summary}


def _first_diff(a, b):
    for k in ("timeout", "exc", "lines", "branches", "assertions"):
        if a.get(k) != b.get(k):
            return k
    return "other"


def _chop(test, k):
    from vlib import exech as H

    t = H.clone_plain(test)
    t.chop(k - 1)
    return t


def _fn_of_line(line):
    m = _CALL.findall(line)
    return TAGS.get(m[-1], m[-1]) if m else None


def _last_fn(test, upto=None):
    from vlib import exech as H

    lines = H.test_lines(test)
    if upto is not None:
        lines = lines[: upto + 1]
    for ln in reversed(lines):
        f = _fn_of_line(ln)
        if f:
            return f
    return "no-sut-call"


_LINE_FN: dict = {}


def _line_fn_map():
    """SUT source line -> name of the enclosing top-level function (for attributing line differences)."""
    if not _LINE_FN:
        import ast

        for node in ast.parse(SUT_FX).body:
            if isinstance(node, ast.FunctionDef):
                for ln in range(node.lineno, node.end_lineno + 1):
                    _LINE_FN[ln] = node.name
    return _LINE_FN


def _victim_fn(test, got, ref):
    """API of the statement at which the two summaries first differ."""
    pos = []
    for k in ("exc", "assertions"):
        a, b = got.get(k, {}), ref.get(k, {})
        pos += [int(p) for p in set(a) | set(b) if a.get(p) != b.get(p)]
    if pos:
        return _last_fn(test, min(pos))
    diff = sorted(set(got.get("lines", [])) ^ set(ref.get("lines", [])))
    for ln in diff:
        fn = _line_fn_map().get(ln)
        if fn:
            return TAGS.get(fn, fn)
    return _last_fn(test)


def _executed_calls(test, summary):
    """Number of SUT-calling statements of `test` that were executed according to its summary."""
    from vlib import exech as H

    lines = H.test_lines(test)
    stop = min([int(p) for p in summary.get("exc", {})] or [len(lines) - 1])
    return sum(1 for ln in lines[: stop + 1] if _fn_of_line(ln))


def _bisect(lo, hi, bad):
    """Smallest k in (lo, hi] with bad(k), given bad(hi) and (assumed) not bad(lo)."""
    while hi - lo > 1:
        mid = (lo + hi) // 2
        if bad(mid):
            hi = mid
        else:
            lo = mid
    return hi


def _executed_tags(test, summary):
    """Tags of the SUT calls of `test` that were executed according to its summary (up to the first exception)."""
    from vlib import exech as H

    lines = H.test_lines(test)
    stop = min([int(p) for p in summary.get("exc", {})] or [len(lines) - 1])
    out = []
    for ln in lines[: stop + 1]:
        f = _fn_of_line(ln)
        if f:
            out.append(f)
    return out


VICTIM_FAMILY = {"print": "stream-write", "sys.stderr.write": "stream-write"}


def _okey(cul, vic):
    """Mechanism key of an order dependence: API whose effect leaked -> kind of API that observed it."""
    return f"order-dependence:{cul}->{VICTIM_FAMILY.get(vic, vic)}"


class HistorySet:
    """Runs histories (one forked process each) and decides both oracles.

    Oracle 2 without a separate baseline run: the first test of a history *is* that test alone in a fresh
    process.  Every other occurrence of the same test (any history, any position) must have the same summary.
    A disturbed occurrence is attributed from the data (APIs executed before it, minus APIs that also ran before an
    undisturbed execution of the same victim API) and confirmed by one fork per (culprit API, victim API) pair with
    the single-call directed tests of those APIs.
    """

    MAX_FALLBACKS = 3

    def __init__(self, ctx, runner, label, directed_by_tag):
        self.ctx, self.runner, self.label = ctx, runner, label
        self.by_tag = directed_by_tag  # API tag -> single-call directed test
        self.hist: list[list] = []
        self.res: list[list] = []
        self.tag_cache: dict = {}
        self.reported: set = set()
        self.confirmed: set = set()  # (culprit tag, victim tag)
        self.fallbacks = 0
        self.refs: dict = {}

    def run(self, seq, timeout=180.0):
        from vlib import exech as H

        res = self.runner.seq(seq, timeout)
        lines_of = [H.test_lines(t) for t in seq]
        tainted = False
        for r, lines in zip(res, lines_of):
            tainted = tainted or bool(r["summary"].get("timeout"))
            self.runner.judge_leak(r, lines, tainted=tainted)
        self.hist.append(list(seq))
        self.res.append([None if "execute-raised" in r["summary"] else _trim(r["summary"]) for r in res])
        self.ctx.ok(0, distinct=[self.label, lines_of])
        return res

    def _alone(self, t):
        """Stand-alone summary in a fresh process; a timeout there is load noise -> retried."""
        for _ in range(3):
            s = self.runner.alone(t)["summary"]
            if "execute-raised" not in s and not s["timeout"]:
                return _trim(s)
        return None

    def _after(self, prefix, victim):
        """Victim's summary after `prefix` in a fresh process; None if load noise (timeouts) persists."""
        for _ in range(3):
            r = self.runner.seq(list(prefix) + [victim])
            if any("execute-raised" in x["summary"] or x["summary"]["timeout"] for x in r):
                continue
            return _trim(r[-1]["summary"])
        self.ctx.anomaly("reduction-run-timed-out-under-load")
        return None

    # -- oracle 2 ---------------------------------------------------------------------
    def judge(self):
        ctx = self.ctx
        occ: dict[int, list] = {}
        tests = {}
        before: list[list] = []  # before[h][pos] = set of API tags executed in the process before position pos
        for h, (seq, res) in enumerate(zip(self.hist, self.res)):
            acc: set = set()
            row = []
            for pos, (t, s) in enumerate(zip(seq, res)):
                row.append(set(acc))
                if s is None:
                    continue
                acc |= set(_executed_tags(t, s)) if not s["timeout"] else {TAGS.get(f, f) for f in _tags_of_test(t)}
                if s["timeout"]:
                    # no function of this module loops: a timeout here is a starved thread on a loaded machine
                    ctx.anomaly("execution-timeout-under-load")
                    continue
                occ.setdefault(id(t), []).append((h, pos, s))
                tests[id(t)] = t
            before.append(row)
        # before_single[h][pos]: APIs executed before pos by *single-call* tests only (a multi-statement test can use an
        # API harmlessly, e.g. close a stream it replaced itself, so it must not exonerate that API)
        before_single: list[list] = []
        for h, (seq, res) in enumerate(zip(self.hist, self.res)):
            acc = set()
            row = []
            for t, s in zip(seq, res):
                row.append(set(acc))
                if s is not None and not s["timeout"] and _single_call_fn(t):
                    acc |= set(_executed_tags(t, s))
            before_single.append(row)
        exon: dict[str, set] = {}  # victim API -> APIs that ran (in single-call tests) before an undisturbed execution of it
        bad_all = []
        for tid, lst in occ.items():
            t = tests[tid]
            firsts = [s for (_h, pos, s) in lst if pos == 0]
            if firsts and any(s != firsts[0] for s in firsts):
                ctx.anomaly("nondeterministic-when-alone:" + _first_diff(firsts[0], next(s for s in firsts if s != firsts[0])))
                continue
            if firsts:
                ref = firsts[0]
            elif all(s == lst[0][2] for s in lst):
                ref = lst[0][2]
                ctx.count("tests_compared_across_histories_only", 1)
            else:
                ref = self._alone(t)
                if ref is None:
                    ctx.anomaly("baseline-timeout")
                    continue
            self.refs[tid] = ref
            ctx.ok(n=len(lst), cls="order:compared")
            for h, pos, s in lst:
                if s == ref:
                    if _single_call_fn(t):  # (a multi-statement test may shield its own call, e.g. by replacing the stream first)
                        for vt in set(_executed_tags(t, s)):
                            exon.setdefault(vt, set()).update(before_single[h][pos])
                else:
                    bad_all.append((t, ref, h, pos, s))
        # rank suspects per victim API by how often they precede a disturbed execution
        freq: dict[str, dict] = {}
        for t, ref, h, pos, s in bad_all:
            vt = _victim_fn(t, s, ref)
            for c in before[h][pos] - exon.get(vt, set()):
                freq.setdefault(vt, {}).setdefault(c, 0)
                freq[vt][c] += 1
        for t, ref, h, pos, s in sorted(bad_all, key=lambda o: len(before[o[2]][o[3]])):
            self._explain(t, ref, h, pos, s, before[h][pos], exon, freq)

    def _explain(self, victim, ref, h, pos, s, tags_before, exon, freq):
        from vlib import exech as H

        ctx = self.ctx
        vt, comp = _victim_fn(victim, s, ref), _first_diff(s, ref)
        suspects = sorted(tags_before - exon.get(vt, set()), key=lambda c: (-freq.get(vt, {}).get(c, 0), c))
        if any((c, vt) in self.confirmed for c in tags_before):
            ctx.count("order_mismatches_explained_by_confirmed_mechanism")
            return
        for ctag in suspects:
            found = self._confirm_tags(ctag, vt)
            if found:
                comp2, case = found
                self.confirmed.add((ctag, vt))
                key = _okey(ctag, vt)
                if key not in self.reported:
                    self.reported.add(key)
                    case["observed_in_history"] = {"victim": H.test_lines(victim)[:12], "position": pos, "apis_before": sorted(tags_before)}
                    ctx.witness(
                        key,
                        f"result of a test using {vt} differs ({comp2}) when a test using {ctag} ran before it in the same process, "
                        f"compared with running it first in a fresh process",
                        case,
                    )
                return
        # not attributable from the data: reduce the concrete history (bounded number of times)
        key = _okey("unattributed", vt)
        if key in self.reported:
            ctx.count("order_mismatches_same_mechanism")
            return
        if self.fallbacks >= self.MAX_FALLBACKS:
            ctx.anomaly("order-mismatch-not-reduced")
            ctx.inconclusive_because(f"more than {self.MAX_FALLBACKS} order mismatches could not be attributed from the data (victim API {vt}, {comp}); "
                                     f"victim {H.test_lines(victim)[:14]} suspects {suspects} after {[H.test_lines(t)[:6] for t in self.hist[h][:pos]][-6:]} got {s.get('exc')} ref {ref.get('exc')}")
            return
        self.fallbacks += 1
        preds = self.hist[h][:pos]

        def bad_prefix(k):
            got = self._after(preds[:k], victim)
            return got is not None and got != ref

        if not bad_prefix(pos):
            ctx.anomaly("order-mismatch-not-reproducible")
            return
        k = _bisect(0, pos, bad_prefix) if pos > 1 else 1
        culprit = preds[k - 1]
        got = self._after([culprit], victim)
        self.reported.add(key)
        if got is not None and got != ref:
            cmin = culprit
            if _n_calls(culprit) > 1:
                def bad_c(j):
                    g = self._after([_chop(culprit, j)], victim)
                    return g is not None and g != ref

                cmin = _chop(culprit, _bisect(0, culprit.size(), bad_c))
            key = _okey(_last_fn(cmin), _victim_fn(victim, got, ref))
            if key not in self.reported:
                self.reported.add(key)
                ctx.witness(key, "result differs from the stand-alone result after one predecessor test (reduced from a concrete history; "
                            "the culprit API is the last call of the shortest disturbing prefix of that test)",
                            {"culprit": H.test_lines(cmin), "victim": H.test_lines(victim), "first_in_fresh_process": ref, "after_culprit": got})
        else:
            ctx.witness(_okey("several-predecessors", vt), "result differs from the stand-alone result only after several predecessor tests",
                        {"prefix": [H.test_lines(t) for t in preds[:k]], "victim": H.test_lines(victim), "first_in_fresh_process": ref, "after": s})

    def _confirm_tags(self, ctag, vt):
        """[directed test of culprit API, directed test of victim API] in a fresh process."""
        from vlib import exech as H

        ck = (ctag, vt)
        if ck in self.tag_cache:
            return self.tag_cache[ck]
        out = None
        c, v = self.by_tag.get(ctag), self.by_tag.get(vt)
        if c is not None and v is not None:
            ref = self.refs.get(id(v)) or self._alone(v)
            if ref is not None:
                self.refs[id(v)] = ref
                got = self._after([c], v)
                if got is not None and got != ref:
                    out = (_first_diff(got, ref), {"culprit": H.test_lines(c), "victim": H.test_lines(v), "first_in_fresh_process": ref, "after_culprit": got})
        self.tag_cache[ck] = out
        return out


def _n_calls(test):
    from vlib import exech as H

    return sum(1 for ln in H.test_lines(test) if _fn_of_line(ln))


def _tags_of_test(test):
    from vlib import exech as H

    return [f for ln in H.test_lines(test) for f in [_fn_of_line(ln)] if f]


def _by_tag(tests):
    out = {}
    for t in tests:
        fn = _single_call_fn(t)
        if fn:
            out.setdefault(TAGS.get(fn, fn), t)
    return out


def _directed_tests(alias, args=(1, 5)):
    from vlib import exech as H

    tests = []
    for fn in TAGS:
        if fn.startswith("_"):
            continue
        if fn == "classify":
            tests.append(H.mk_test([f"var_0 = {alias}.classify(3, 3, 4)"]))
            continue
        for arg in args:
            tests.append(H.mk_test([f"var_0 = {arg}", f"var_1 = {alias}.{fn}(var_0)"]))
    # a few multi-statement ones: effect followed by an observer inside the same test
    tests.append(H.mk_test([f"var_0 = {alias}.stdout_none(1)", f"var_1 = {alias}.pr(2)", f"var_2 = {alias}.draw(3)"]))
    tests.append(H.mk_test([f"var_0 = {alias}.close_fd1(1)", f"var_1 = {alias}.pr(2)", f"var_2 = {alias}.boom(3)"]))
    tests.append(H.mk_test([f"var_0 = {alias}.seed1(1)", f"var_1 = {alias}.draw_many(2)", f"var_2 = {alias}.draw(3)"]))
    tests.append(H.mk_test([f"var_0 = {alias}.draw(1)", f"var_1 = {alias}.draw(2)", f"var_2 = {alias}.draw_many(3)", f"var_3 = {alias}.own_random(1)"]))
    return tests


# benign functions whose result reveals a disturbed stream / logging / random state
OBSERVERS = ["plain", "pr", "perr", "log_emit", "log_query", "draw", "draw_many", "own_random", "boom",
             "inst_seeded", "inst_unseeded", "inst_lazy", "inst_lazy_seeded", "inst_class_attr", "inst_draw_after_seed_later",
             "inst_per_call", "inst_shuffle"]


def _single_call_fn(test):
    from vlib import exech as H

    ls = H.test_lines(test)
    if len(ls) == 2 and ls[0].startswith("var_0 = "):
        m = _CALL.findall(ls[1])
        if m:
            return m[0]
    return None


def run_chunk(spec, ctx):
    from vlib import exech as H

    name = spec["name"]
    if name == "hidden":
        sp, _, _ = H.setup_sut(ctx.scratch, HID, SUT_HIDDEN, seed=spec["seed"])
        runner = Runner(ctx, sp, HID)
        alias = HID + "_"
        rng = random.Random(spec["seed"] * 7907 + 30)
        pool = [H.mk_test([f"var_0 = {alias}.{fn}({a})"]) for fn in ("glob", "memo", "inst_draw", "glob_raise") for a in (1, 4)]
        with sp.instrumentation_tracer.temporarily_disable():
            ftests, _ = H.factory_tests(HID, 10, spec["seed"] + 1)
        pool += ftests
        seq = []
        for _ in range(spec["n"]):
            seq = [rng.choice(pool) for _ in range(rng.randint(10, 24))]
            res = runner.seq(seq)
            tainted = False
            for t, r in zip(seq, res):
                tainted = tainted or bool(r["summary"].get("timeout"))
                runner.judge_leak(r, H.test_lines(t), exempt=True, tainted=tainted)
            ctx.ok(0, distinct=["hidden", [H.test_lines(t) for t in seq]])
        ctx.sample({"module": HID, "sequence": [H.test_lines(t) for t in seq][:6], "note": "snapshot oracle only (hidden state)"})
        return

    sp, _, _ = H.setup_sut(ctx.scratch, FX, SUT_FX, seed=spec.get("seed", 0))
    alias = FX + "_"

    if name == "timeouts":
        runner = Runner(ctx, sp, FX, max_timeout=1, per_stmt=1)
        obs = [H.mk_test([f"var_0 = {alias}.{fn}(5)"]) for fn in ("pr", "draw", "log_query", "plain")]
        base = {}
        plain_runner = Runner(ctx, sp, FX, max_timeout=20, per_stmt=20)
        for t in list(obs):
            for _ in range(3):
                s0 = plain_runner.alone(t)["summary"]
                if "execute-raised" not in s0 and not s0["timeout"]:
                    base[id(t)] = _trim(s0)
                    break
            else:
                ctx.anomaly("baseline-timeout")
                obs.remove(t)
        for spin in ("_spin", "_spin_print"):
            loop = H.mk_test([f"var_0 = {alias}.{spin}(1)"])
            seq = [loop] + obs + [loop]
            res = runner.seq(seq, timeout=90)
            lines_of = [H.test_lines(t) for t in seq]
            for r, lines in zip(res, lines_of):
                runner.judge_leak(r, lines)
            if not res[0]["summary"].get("timeout"):
                ctx.anomaly("loop-not-reported-as-timeout")  # C32's business
            for i, t in enumerate(obs):
                got = _trim(res[1 + i]["summary"])
                ctx.ok(cls="order:compared", distinct=["timeouts", spin, H.test_lines(t)])
                if got != base[id(t)]:
                    res2 = runner.seq(seq, timeout=90)
                    got2 = _trim(res2[1 + i]["summary"])
                    if got2 != got:
                        ctx.anomaly("order-mismatch-not-reproducible")
                    elif got["timeout"] and not base[id(t)]["timeout"]:
                        ctx.anomaly("later_result_lost")  # C32: a removed result; load can also cause it
                    else:
                        ctx.witness(_okey("timeout", _last_fn(t)),
                                    "result after an abandoned (timed-out) execution differs from the stand-alone result",
                                    {"sequence": lines_of, "alone": base[id(t)], "after": got})
        return

    runner = Runner(ctx, sp, FX)
    if name == "directed":
        tests = _directed_tests(alias)
        single = {}
        for t in tests:
            fn = _single_call_fn(t)
            if fn and H.test_lines(t)[0] == "var_0 = 5":
                single[fn] = t
        observers = [single[f] for f in OBSERVERS]
        hs = HistorySet(ctx, runner, "directed", _by_tag([t for t in tests if H.test_lines(t)[0] == "var_0 = 5"]))
        # every effect first in a fresh process (= its stand-alone result), again right after itself, then the same
        # function with another argument, then every observer
        other = {}
        for t in tests:
            fn = _single_call_fn(t)
            if fn and H.test_lines(t)[0] != "var_0 = 5":
                other[fn] = t
        obs_ids = {id(o) for o in observers}
        for t in tests:
            fn = _single_call_fn(t)
            if (fn and fn in other and other[fn] is t) or id(t) in obs_ids:
                continue
            hs.run([t, t] + ([other[fn]] if fn in other else []) + observers)
        # the observers themselves: each twice in a row, and once more in reverse order
        hs.run([o for o in observers for _ in (0, 1)] + [other[f] for f in OBSERVERS if f in other])
        hs.run(list(reversed(observers)) + observers)
        hs.judge()
        ctx.sample({"module": FX, "history": [H.test_lines(single["log_disable"]), H.test_lines(single["log_query"])]})
        ctx.note("forks_directed", runner.forks)
        return

    # random histories
    rng = random.Random(spec["seed"] * 1000003 + spec["part"] * 101 + 30)
    with sp.instrumentation_tracer.temporarily_disable():
        ftests, _ = H.factory_tests(FX, spec["nfactory"], spec["seed"] * 131 + spec["part"])
    pool = _directed_tests(alias, args=(rng.choice([1, 2, 5, 7]),)) + ftests
    fset = {id(t) for t in ftests}
    if ftests:
        ctx.sample({"module": FX, "factory_test": H.test_lines(ftests[0])[:10]})
    hs = HistorySet(ctx, runner, "history", _by_tag(pool))
    firsts = list(pool)
    rng.shuffle(firsts)
    for h in range(spec["nhist"]):
        # every pool test gets to be first in a fresh process; the rest of the history is random
        first = firsts[h % len(firsts)]
        k = rng.choice([6, 12, 20, 30])
        seq = [first] + [rng.choice(pool) for _ in range(k)]
        ctx.cls("factory-test", sum(1 for t in seq if id(t) in fset))
        hs.run(seq)
    hs.judge()
    ctx.note("forks_random", runner.forks)
