"""C30 — test executions are isolated and restore process state.

Two monitors around the real ``TestCaseExecutor.execute``:

* **snapshot**: process state (identity of sys.stdout/stderr/stdin/__stdout__/__stderr__, whether they are
  closed, inode of fds 0-2, logging.root.manager.disable, root handlers, root level, state of Pynguin's own
  ``randomness.RNG``) is taken before and after *every* execution by a wrapper installed from the harness; any
  component that differs is a witness ``state-leak:<component>``.
* **order independence**: for a SUT module without hidden state the summary of a test (exception type per
  position, covered line numbers, (predicate, outcome) set, rendered assertion trace, timeout flag) inside a
  random permutation must equal its summary when executed alone in a fresh process.  "Fresh process" is a
  ``fork`` of the harness right after the instrumented import, so every baseline and every permutation starts
  from the same image.  A mismatch is re-run once (must reproduce), then reduced to one culprit statement and
  one victim statement; the key names the API the culprit statement used and the API of the victim statement.
"""

from __future__ import annotations

import random
import re

ID = "C30"
LEVEL = "exploration"
IN_PROCESS = False
CHUNK_TIMEOUT = 900
RULE = (
    "test cases = one directed call per hostile effect (print, raise, SystemExit, close fd 0/1/2, open(1), dup2, "
    "sys.stdout/stderr/stdin replaced or closed, logging.disable/basicConfig/setLevel/addHandler/shutdown, random.seed, "
    "random draws, non-terminating loop) plus RandomLengthTestCaseFactory tests over the same module, executed through the "
    "unmodified TestCaseExecutor; oracle 1: process-state snapshot equal before/after every execute; oracle 2: summary of "
    "test t inside a random permutation (4-10 tests, one executor) == summary of t alone in a freshly forked process, only "
    "for the module without hidden state; a case is distinct by the sequence of test sources"
)
ASSUMPTIONS = [
    "os.fstat inode, object identity and logging/random getstate() are a faithful observation of the process state",
    "a fork taken right after the instrumented import is a 'fresh process'",
    "a test whose two stand-alone executions differ is not deterministic and is excluded (counted as anomaly)",
    "a mismatch that does not reproduce on an identical second run is load noise (anomaly), not a violation",
    "modules that mutate their own globals / hold a module-level Random instance are exempt from order independence",
    "random.getstate() of the global `random` module is not Pynguin's own stream and is not part of the snapshot",
]

# ------------------------------------------------------------------------------- SUT modules
SUT_FX = '''
import io
import logging
import os
import random
import sys


def plain(x: int) -> int:
    if x > 3:
        return x * 2
    return x - 1


def classify(a: int, b: int, c: int) -> str:
    if a <= 0 or b <= 0 or c <= 0:
        return "invalid"
    if a == b == c:
        return "equi"
    if a == b or b == c or a == c:
        return "iso"
    return "scalene"


def pr(x: int) -> int:
    print("hello", x)
    return x + 1


def perr(x: int) -> int:
    sys.stderr.write("oops\\n")
    return x + 2


def boom(x: int) -> int:
    if x > 2:
        raise ValueError("too big")
    return x


def sysexit(x: int) -> int:
    if x > 2:
        sys.exit(3)
    return x


def kbd(x: int) -> int:
    if x > 2:
        raise KeyboardInterrupt()
    return x


def close_fd0(x: int) -> int:
    os.close(0)
    return x


def close_fd1(x: int) -> int:
    os.close(1)
    return x


def close_fd2(x: int) -> int:
    os.close(2)
    return x


def open_fd1(x: int) -> int:
    with open(1, "w") as f:
        f.write("")
    return x


def dup_over_fd1(x: int) -> int:
    fd = os.open(os.devnull, os.O_WRONLY)
    os.dup2(fd, 1)
    os.dup2(fd, 2)
    os.close(fd)
    return x


def stdout_none(x: int) -> int:
    sys.stdout = None
    return x


def stderr_swap(x: int) -> int:
    sys.stderr = io.StringIO()
    sys.stdout = sys.stderr
    return x


def stdin_swap(x: int) -> int:
    sys.stdin = io.StringIO("line\\n")
    return len(sys.stdin.readline())


def close_sys_stdout(x: int) -> int:
    sys.stdout.close()
    return x


def close_sys_stderr(x: int) -> int:
    sys.stderr.close()
    return x


def close_stdin(x: int) -> int:
    sys.stdin.close()
    return x


def close_real_stdout(x: int) -> int:
    sys.__stdout__.close()
    return x


def log_disable(x: int) -> int:
    logging.disable(logging.CRITICAL)
    return x


def log_basic(x: int) -> int:
    logging.basicConfig(level=logging.DEBUG)
    return x


def log_level(x: int) -> int:
    logging.getLogger().setLevel(logging.CRITICAL)
    return x


def log_handler(x: int) -> int:
    logging.getLogger().addHandler(logging.NullHandler())
    return x


def log_shutdown(x: int) -> int:
    logging.shutdown()
    return x


def log_emit(x: int) -> int:
    logging.getLogger("c30.sut").error("something %s", x)
    return x


def log_query(x: int) -> int:
    if logging.getLogger("c30.sut").isEnabledFor(logging.ERROR):
        return x + 1
    return x - 1


def seed1(x: int) -> float:
    random.seed(1)
    return random.random()


def draw(x: int) -> int:
    r = random.random()
    if r < 0.25:
        return 0
    if r < 0.5:
        return 1
    if r < 0.75:
        return 2
    return 3


def draw_many(x: int) -> int:
    n = 0
    for _ in range(5):
        if random.randint(0, 9) < 5:
            n += 1
    return n


def own_random(x: int) -> float:
    r = random.Random()
    return r.random()


def _spin(x: int) -> int:
    n = 0
    while True:
        n += 1
    return n


def _spin_print(x: int) -> int:
    sys.stdout = None
    logging.disable(logging.NOTSET)
    n = 0
    while True:
        n += 1
    return n
'''

# function -> API / effect it exercises (mechanism names used in witness keys)
TAGS = {
    "plain": "pure", "classify": "pure", "pr": "print", "perr": "sys.stderr.write", "boom": "raise", "sysexit": "sys.exit",
    "kbd": "raise-KeyboardInterrupt", "close_fd0": "os.close(0)", "close_fd1": "os.close(1)", "close_fd2": "os.close(2)",
    "open_fd1": "open(1)", "dup_over_fd1": "os.dup2", "stdout_none": "sys.stdout=None", "stderr_swap": "sys.stderr=obj",
    "stdin_swap": "sys.stdin=obj", "close_sys_stdout": "sys.stdout.close", "close_sys_stderr": "sys.stderr.close",
    "close_stdin": "sys.stdin.close", "close_real_stdout": "sys.__stdout__.close", "log_disable": "logging.disable",
    "log_basic": "logging.basicConfig", "log_level": "logging.root.setLevel", "log_handler": "logging.root.addHandler",
    "log_shutdown": "logging.shutdown", "log_emit": "logging.error", "log_query": "logging.isEnabledFor",
    "seed1": "random.seed", "draw": "random.random", "draw_many": "random.randint", "own_random": "random.Random()",
    "_spin": "timeout", "_spin_print": "timeout",
}
# effect classes named in the floors (property statement: raise, print, close streams, disable logging, reseed, consume)
EFFECT_CLASS = {
    "print": "effect:print", "sys.stderr.write": "effect:print", "raise": "effect:raise", "sys.exit": "effect:raise",
    "raise-KeyboardInterrupt": "effect:raise", "os.close(0)": "effect:close-fd", "os.close(1)": "effect:close-fd",
    "os.close(2)": "effect:close-fd", "open(1)": "effect:close-fd", "os.dup2": "effect:close-fd",
    "sys.stdout=None": "effect:replace-stream", "sys.stderr=obj": "effect:replace-stream", "sys.stdin=obj": "effect:replace-stream",
    "sys.stdout.close": "effect:close-stream", "sys.stderr.close": "effect:close-stream", "sys.stdin.close": "effect:close-stream",
    "sys.__stdout__.close": "effect:close-stream", "logging.disable": "effect:logging.disable",
    "logging.basicConfig": "effect:logging.config", "logging.root.setLevel": "effect:logging.config",
    "logging.root.addHandler": "effect:logging.config", "logging.shutdown": "effect:logging.config",
    "logging.error": "effect:logging.use", "logging.isEnabledFor": "effect:logging.use", "random.seed": "effect:random.seed",
    "random.random": "effect:random.draw", "random.randint": "effect:random.draw", "random.Random()": "effect:random.draw",
    "timeout": "effect:timeout", "pure": "effect:none",
}

SUT_HIDDEN = '''
import random

COUNT = 0
_CACHE = {}
_R = random.Random(7)


def glob(x: int) -> int:
    global COUNT
    COUNT += 1
    if COUNT > 2:
        return -1
    return x


def memo(x: int) -> int:
    if x in _CACHE:
        return _CACHE[x]
    _CACHE[x] = x * x
    print("computed", x)
    return _CACHE[x]


def inst_draw(x: int) -> int:
    if _R.random() < 0.5:
        return 0
    return 1


def glob_raise(x: int) -> int:
    global COUNT
    COUNT += 1
    if COUNT % 2 == 0:
        raise RuntimeError("even")
    return COUNT
'''

FX = "c30_fx"
HID = "c30_hidden"
_CALL = re.compile(r"\b(?:%s_|%s_)\.(\w+)\(" % (FX, HID))


def floors(tier):
    k = 1 if tier == "quick" else 6
    return {
        "evals": 1500 * k,
        "distinct": 100 * k,
        "classes": {
            "snapshot": 700 * k,
            "order:compared": 500 * k,
            "effect:print": 20, "effect:raise": 20, "effect:close-fd": 20, "effect:replace-stream": 10,
            "effect:close-stream": 10, "effect:logging.disable": 10, "effect:logging.config": 10,
            "effect:random.seed": 10, "effect:random.draw": 20, "effect:timeout": 3,
            "hidden-state-exempt": 40, "factory-test": 100,
        },
    }


def plan(tier, seed):
    # fork() costs 0.1-0.4 s in this sandbox: the number of forks (baselines + histories + reductions) is the budget
    if tier == "quick":
        nhist, parts, nfac = 14, 8, 12
    else:
        nhist, parts, nfac = 60, 15, 30
    out = [{"name": "directed"}, {"name": "timeouts"}, {"name": "hidden", "seed": seed, "n": 8 if tier == "quick" else 60}]
    for p in range(parts):
        out.append({"name": "random", "seed": seed, "part": p, "nhist": nhist, "nfactory": nfac})
    return out


# ------------------------------------------------------------------------------- monitor
class Monitor:
    """Snapshot before/after every TestCaseExecutor.execute (wrapper installed from the harness)."""

    def __init__(self):
        self.calls = 0
        self.leaks: list[dict] = []
        self.installed = False

    def install(self):
        from pynguin.testcase.execution import TestCaseExecutor
        from vlib import exech as H

        if self.installed:
            return
        orig = TestCaseExecutor.execute
        mon = self

        def execute(self_, test_case):
            before = H.snapshot()
            try:
                return orig(self_, test_case)
            finally:
                after = H.snapshot()
                mon.calls += 1
                comps = [k for k in before if before[k] != after[k]]
                mon.leaks.append({"components": comps, "before": {k: _short(before[k]) for k in comps},
                                  "after": {k: _short(after[k]) for k in comps}})

        execute.__wrapped__ = orig
        TestCaseExecutor.execute = execute
        self.installed = True


def _short(v):
    s = repr(v)
    return s if len(s) < 80 else s[:77] + "..."


MON = Monitor()


def _tags_of(lines):
    tags = []
    for ln in lines:
        for fn in _CALL.findall(ln):
            tags.append(TAGS.get(fn, fn if fn in ("glob", "memo", "inst_draw", "glob_raise") else "other"))
    return tags


def _run_sequence(sp, tests, max_timeout=5, per_stmt=2):
    """(in a forked child) one executor, tests in order; returns [{'summary':..., 'leak':...}]."""
    from pynguin.assertion.assertiontraceobserver import RemoteAssertionTraceObserver
    from pynguin.testcase.execution import TestCaseExecutor
    from vlib import exech as H

    MON.install()
    ex = TestCaseExecutor(sp, maximum_test_execution_timeout=max_timeout, test_execution_time_per_statement=per_stmt)
    ex.add_remote_observer(RemoteAssertionTraceObserver())
    out = []
    for t in tests:
        n0 = len(MON.leaks)
        try:
            res = ex.execute(t)
            summary = H.summarize(res, sp, verification=False)
        except Exception as e:  # noqa: BLE001 - execute() itself must not raise
            summary = {"execute-raised": f"{type(e).__name__}: {e}"[:200]}
        leak = MON.leaks[n0] if len(MON.leaks) > n0 else None
        out.append({"summary": summary, "leak": leak})
    return out


class Runner:
    def __init__(self, ctx, sp, modname, max_timeout=5, per_stmt=2):
        self.ctx, self.sp, self.modname = ctx, sp, modname
        self.max_timeout, self.per_stmt = max_timeout, per_stmt
        self.forks = 0
        self.rechecked: set = set()

    def seq(self, tests, timeout=120.0):
        from vlib import exech as H

        self.forks += 1
        return H.forked(lambda: _run_sequence(self.sp, tests, self.max_timeout, self.per_stmt), self.ctx.scratch, timeout)

    def alone(self, test):
        return self.seq([test])[0]

    # -- oracle 1 -------------------------------------------------------------
    def judge_leak(self, entry, lines, exempt=False):
        """One snapshot evaluation for one execute()."""
        ctx = self.ctx
        tags = _tags_of(lines)
        classes = {"snapshot"} | {EFFECT_CLASS.get(t, "effect:other") for t in tags}
        if exempt:
            classes.add("hidden-state-exempt")
        if "execute-raised" in entry["summary"]:
            ctx.witness("execute-raises:" + entry["summary"]["execute-raised"].split(":")[0],
                        f"TestCaseExecutor.execute raised {entry['summary']['execute-raised']}", {"test": lines})
            return
        if entry["leak"] is None:
            ctx.inconclusive_because("snapshot wrapper around TestCaseExecutor.execute saw no call")
            return
        ctx.ok(cls=classes)
        for comp in entry["leak"]["components"]:
            ctx.witness(
                f"state-leak:{comp}",
                f"{comp} changed across TestCaseExecutor.execute: {entry['leak']['before'][comp]} -> {entry['leak']['after'][comp]}; "
                f"SUT APIs used by the test: {sorted(set(tags))}",
                {"module": self.modname, "test": lines, "component": comp},
            )


def _trim(summary):
    return {k: summary[k] for k in ("timeout", "exc", "lines", "branches", "assertions") if k in summary}


def _first_diff(a, b):
    for k in ("timeout", "exc", "lines", "branches", "assertions"):
        if a.get(k) != b.get(k):
            return k
    return "other"


def _chop(test, k):
    from vlib import exech as H

    t = H.clone_plain(test)
    t.chop(k - 1)
    return t


def _last_fn(test):
    from vlib import exech as H

    for ln in reversed(H.test_lines(test)):
        m = _CALL.findall(ln)
        if m:
            return TAGS.get(m[-1], m[-1])
    return "no-sut-call"


def _mismatch(runner, prefix_tests, victim, baseline):
    """Run prefix + victim in a fresh fork; is the victim's summary different from its baseline?"""
    res = runner.seq(list(prefix_tests) + [victim])
    got = _trim(res[-1]["summary"])
    return got != baseline, got


def _n_sut_calls(test):
    from vlib import exech as H

    return sum(len(_CALL.findall(ln)) for ln in H.test_lines(test))


def _bisect(lo, hi, bad):
    """Smallest k in (lo, hi] with bad(k), given bad(hi) and not bad(lo) (monotone assumption; verified by caller)."""
    while hi - lo > 1:
        mid = (lo + hi) // 2
        if bad(mid):
            hi = mid
        else:
            lo = mid
    return hi


_MIN_CACHE: dict = {}


def _minimise(runner, seq, i, baselines_by_id):
    """Reduce a reproducible mismatch of seq[i] to (culprit API, victim API, differing component, case)."""
    from vlib import exech as H

    victim = seq[i]
    base = baselines_by_id[id(victim)]
    # 1. shortest prefix of the history that still disturbs the victim -> its last test is the culprit
    p = _bisect(0, i, lambda k: _mismatch(runner, seq[:k], victim, base)[0]) if i > 1 else 1
    culprit = seq[p - 1]
    ck = (id(culprit), id(victim))
    if ck in _MIN_CACHE:
        return _MIN_CACHE[ck]
    bad, got = _mismatch(runner, [culprit], victim, base)
    if not bad:
        _, got = _mismatch(runner, seq[:i], victim, base)
        return ("several-predecessors", _last_fn(victim), _first_diff(got, base),
                {"prefix": [H.test_lines(t) for t in seq[:i]], "victim": H.test_lines(victim), "alone": base, "after": got})
    # 2. shortest prefix of the culprit test that still disturbs the victim
    cmin = culprit
    if _n_sut_calls(culprit) > 1:
        k = _bisect(0, culprit.size(), lambda k: _mismatch(runner, [_chop(culprit, k)], victim, base)[0])
        cmin = _chop(culprit, k)
    # 3. shortest prefix of the victim that is still disturbed
    vmin, vbase, vgot = victim, base, got
    if _n_sut_calls(victim) > 1:
        memo = {}

        def bad_v(k):
            v = _chop(victim, k)
            b = _trim(runner.alone(v)["summary"])
            bad_, g = _mismatch(runner, [cmin], v, b)
            memo[k] = (v, b, g)
            return bad_

        k = _bisect(0, victim.size(), bad_v)
        if k in memo:
            vmin, vbase, vgot = memo[k]
    comp = _first_diff(vgot, vbase)
    case = {"culprit": H.test_lines(cmin), "victim": H.test_lines(vmin), "alone": vbase, "after_culprit": vgot}
    out = (_last_fn(cmin), _last_fn(vmin), comp, case)
    _MIN_CACHE[ck] = out
    return out


def _compare_sequence(ctx, runner, seq, baselines_by_id, label):
    """Oracle 1 for every execution of the history, oracle 2 for every test of it."""
    from vlib import exech as H

    res = runner.seq(seq)
    lines_of = [H.test_lines(t) for t in seq]
    for r, lines in zip(res, lines_of):
        runner.judge_leak(r, lines)
    bad_idx = [i for i, (t, r) in enumerate(zip(seq, res)) if "execute-raised" not in r["summary"]
               and _trim(r["summary"]) != baselines_by_id[id(t)]]
    ctx.ok(n=len(seq), cls="order:compared", distinct=[label, lines_of])
    if not bad_idx:
        return
    # must reproduce on an identical second run (otherwise load noise)
    res2 = runner.seq(seq)
    seen_pairs = set()
    for i in bad_idx:
        if _trim(res2[i]["summary"]) != _trim(res[i]["summary"]):
            ctx.anomaly("order-mismatch-not-reproducible")
            continue
        # the stand-alone result must be stable too
        again = _trim(runner.alone(seq[i])["summary"]) if id(seq[i]) not in runner.rechecked else baselines_by_id[id(seq[i])]
        runner.rechecked.add(id(seq[i]))
        if again != baselines_by_id[id(seq[i])]:
            ctx.anomaly("nondeterministic-when-alone:" + _first_diff(again, baselines_by_id[id(seq[i])]))
            continue
        cul, vic, comp, case = _minimise(runner, seq, i, baselines_by_id)
        if (cul, vic, comp) in seen_pairs:
            ctx.count("order_mismatches_same_mechanism_in_history")
            continue
        seen_pairs.add((cul, vic, comp))
        ctx.witness(
            f"order-dependence:{cul}->{vic}:{comp}",
            f"result of a test using {vic} differs ({comp}) when a test using {cul} ran before it in the same process, "
            f"compared with running it alone in a fresh process",
            case,
        )


def _baselines(ctx, runner, tests):
    """Stand-alone summaries: one freshly forked process per test."""
    from vlib import exech as H

    keep, base = [], {}
    for t in tests:
        a = runner.alone(t)
        runner.judge_leak(a, H.test_lines(t))
        if "execute-raised" in a["summary"]:
            continue
        sa = _trim(a["summary"])
        if sa["timeout"]:
            ctx.anomaly("baseline-timeout")
            continue
        keep.append(t)
        base[id(t)] = sa
    return keep, base


def _directed_tests(alias, args=(1, 5)):
    from vlib import exech as H

    tests = []
    for fn in TAGS:
        if fn.startswith("_"):
            continue
        if fn == "classify":
            tests.append(H.mk_test([f"var_0 = {alias}.classify(3, 3, 4)"]))
            continue
        for arg in args:
            tests.append(H.mk_test([f"var_0 = {arg}", f"var_1 = {alias}.{fn}(var_0)"]))
    # a few multi-statement ones: effect followed by an observer inside the same test
    tests.append(H.mk_test([f"var_0 = {alias}.stdout_none(1)", f"var_1 = {alias}.pr(2)", f"var_2 = {alias}.draw(3)"]))
    tests.append(H.mk_test([f"var_0 = {alias}.close_fd1(1)", f"var_1 = {alias}.pr(2)", f"var_2 = {alias}.boom(3)"]))
    tests.append(H.mk_test([f"var_0 = {alias}.seed1(1)", f"var_1 = {alias}.draw_many(2)", f"var_2 = {alias}.draw(3)"]))
    tests.append(H.mk_test([f"var_0 = {alias}.draw(1)", f"var_1 = {alias}.draw(2)", f"var_2 = {alias}.draw_many(3)", f"var_3 = {alias}.own_random(1)"]))
    return tests


# benign functions whose result reveals a disturbed stream / logging / random state
OBSERVERS = ["plain", "pr", "perr", "log_emit", "log_query", "draw", "draw_many", "own_random", "boom"]


def run_chunk(spec, ctx):
    from vlib import exech as H

    name = spec["name"]
    if name == "hidden":
        sp, _, _ = H.setup_sut(ctx.scratch, HID, SUT_HIDDEN, seed=spec["seed"])
        runner = Runner(ctx, sp, HID)
        alias = HID + "_"
        rng = random.Random(spec["seed"] * 7907 + 30)
        pool = [H.mk_test([f"var_0 = {alias}.{fn}({a})"]) for fn in ("glob", "memo", "inst_draw", "glob_raise") for a in (1, 4)]
        with sp.instrumentation_tracer.temporarily_disable():
            ftests, _ = H.factory_tests(HID, 10, spec["seed"] + 1)
        pool += ftests
        seq = []
        for _ in range(spec["n"]):
            seq = [rng.choice(pool) for _ in range(rng.randint(8, 20))]
            res = runner.seq(seq)
            for t, r in zip(seq, res):
                runner.judge_leak(r, H.test_lines(t), exempt=True)
            ctx.ok(0, distinct=["hidden", [H.test_lines(t) for t in seq]])
        ctx.sample({"module": HID, "sequence": [H.test_lines(t) for t in seq][:6], "note": "snapshot oracle only (hidden state)"})
        return

    sp, _, _ = H.setup_sut(ctx.scratch, FX, SUT_FX, seed=spec.get("seed", 0))
    alias = FX + "_"

    if name == "timeouts":
        runner = Runner(ctx, sp, FX, max_timeout=1, per_stmt=1)
        plain_runner = Runner(ctx, sp, FX)
        obs = [H.mk_test([f"var_0 = {alias}.{fn}(5)"]) for fn in ("pr", "draw", "log_query", "plain")]
        keep, base = _baselines(ctx, plain_runner, obs)
        for spin in ("_spin", "_spin_print"):
            loop = H.mk_test([f"var_0 = {alias}.{spin}(1)"])
            seq = [loop] + keep + [loop]
            res = runner.seq(seq, timeout=90)
            lines_of = [H.test_lines(t) for t in seq]
            for r, lines in zip(res, lines_of):
                runner.judge_leak(r, lines)
            if not res[0]["summary"].get("timeout"):
                ctx.anomaly("loop-not-reported-as-timeout")  # C32's business
            for t, r in zip(keep, res[1:]):
                got = _trim(r["summary"])
                ctx.ok(cls="order:compared", distinct=["timeouts", spin, H.test_lines(t)])
                if got != base[id(t)]:
                    res2 = runner.seq(seq, timeout=90)
                    got2 = _trim(res2[1 + keep.index(t)]["summary"])
                    if got2 != got:
                        ctx.anomaly("order-mismatch-not-reproducible")
                    elif got["timeout"] and not base[id(t)]["timeout"]:
                        ctx.anomaly("later_result_lost")  # C32: a removed result; load can also cause it
                    else:
                        ctx.witness(f"order-dependence:timeout->{_last_fn(t)}:{_first_diff(got, base[id(t)])}",
                                    "result after an abandoned (timed-out) execution differs from the stand-alone result",
                                    {"sequence": lines_of, "alone": base[id(t)], "after": got})
        return

    runner = Runner(ctx, sp, FX)
    if name == "directed":
        tests = _directed_tests(alias)
        keep, base = _baselines(ctx, runner, tests)
        single = {}
        for t in keep:
            ls = H.test_lines(t)
            if len(ls) == 2 and ls[0] == "var_0 = 5":
                m = _CALL.findall(ls[1])
                if m:
                    single[m[0]] = t
        observers = [single[f] for f in OBSERVERS if f in single]
        # every effect (twice in a row), then every observer, in one process
        for cfn, c in single.items():
            _compare_sequence(ctx, runner, [c, c] + observers, base, "effect-then-observers")
        # the remaining directed tests: each twice, then the observers
        rest = [t for t in keep if t not in single.values()]
        for i in range(0, len(rest), 6):
            grp = rest[i:i + 6]
            _compare_sequence(ctx, runner, [t for t in grp for _ in (0, 1)] + observers, base, "repeat")
        if "log_disable" in single and "log_query" in single:
            ctx.sample({"module": FX, "history": [H.test_lines(single["log_disable"]), H.test_lines(single["log_query"])]})
        ctx.note("forks_directed", runner.forks)
        return

    # random histories
    rng = random.Random(spec["seed"] * 1000003 + spec["part"] * 101 + 30)
    with sp.instrumentation_tracer.temporarily_disable():
        ftests, _ = H.factory_tests(FX, spec["nfactory"], spec["seed"] * 131 + spec["part"])
    pool = _directed_tests(alias, args=(rng.choice([1, 2, 5, 7]),)) + ftests
    keep, base = _baselines(ctx, runner, pool)
    fset = {id(t) for t in ftests}
    ctx.note("factory_tests_kept", sum(1 for t in keep if id(t) in fset))
    if ftests:
        ctx.sample({"module": FX, "factory_test": H.test_lines(ftests[0])[:10]})
    for h in range(spec["nhist"]):
        # short histories keep a sticky leak of one test from masking everything else; long ones mix more
        k = rng.choice([4, 6, 10, 16, 30])
        seq = [rng.choice(keep) for _ in range(k)]
        ctx.cls("factory-test", sum(1 for t in seq if id(t) in fset))
        _compare_sequence(ctx, runner, seq, base, "history")
    ctx.note("forks_random", runner.forks)
