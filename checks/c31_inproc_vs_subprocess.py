"""C31 — in-process and subprocess execution agree.

Differential execution of the *same* test case object through ``TestCaseExecutor.execute`` and
``SubprocessTestCaseExecutor.execute`` / ``execute_multiple`` (real fork + dill), both with
``RemoteAssertionTraceObserver`` attached; then assertions are attached to a copy of the test (some of them
deliberately falsified) and both executors run it again with ``RemoteAssertionVerificationObserver``.
Compared: timeout flag, exception type per statement position, covered line numbers, (predicate, outcome)
set, rendered assertion trace, verification trace (failed / error index sets per position).

A test case counts as deterministic only if two in-process executions agree; otherwise it is skipped.
"""

from __future__ import annotations

import os
import random
import re

ID = "C31"
LEVEL = "exploration"
IN_PROCESS = False
CHUNK_TIMEOUT = 900
RULE = (
    "test cases = hand-written directed cases (constructor + methods + float result + AttributeError / ZeroDivisionError / "
    "custom exception classes / results that are lambdas, generators, enums, dataclasses, nested containers, a non-terminating "
    "loop) and RandomLengthTestCaseFactory output on 5 deterministic stateless SUT modules; each test is executed in-process "
    "twice (determinism filter) and in a subprocess (single execute and batches through execute_multiple) with the remote "
    "assertion-trace observer, then again with attached (partly falsified) assertions and the remote verification observer; "
    "oracle = equality of the normalised results; distinct by (module, test source)"
)
ASSUMPTIONS = [
    "two equal in-process executions make a test case 'deterministic' in the sense of the statement",
    "assertions are compared by the text the exporter would render plus their class (and exception name)",
    "exceptions are compared by module-qualified type name per statement position",
    "a timeout-flag difference is re-tried twice with a larger budget before it is counted (loaded machine)",
    "SUT modules are stateless, so executing in the parent does not change what the child sees",
]

# ------------------------------------------------------------------------------- SUT modules
SUTS = {}

SUTS["c31_tri"] = '''
import math
import time


def classify(a: int, b: int, c: int) -> str:
    if a <= 0 or b <= 0 or c <= 0:
        return "invalid"
    if a + b <= c or a + c <= b or b + c <= a:
        return "not-a-triangle"
    if a == b == c:
        return "equilateral"
    if a == b or b == c or a == c:
        return "isosceles"
    return "scalene"


def ratio(a: float, b: float) -> float:
    return a / b


def root(x: float) -> float:
    if x < 0:
        raise ValueError("negative")
    return math.sqrt(x)


def clamp(x: int, lo: int, hi: int) -> int:
    if lo > hi:
        raise AssertionError("bad bounds")
    if x < lo:
        return lo
    if x > hi:
        return hi
    return x


def parity(n: int) -> bool:
    return n % 2 == 0


def nothing(x: int) -> None:
    if x > 10:
        return None
    return None


def nap(ms: int) -> int:
    time.sleep(ms / 1000.0)
    if ms > 500:
        return ms
    return -ms


def spin_forever(x: int) -> int:
    n = 0
    while True:
        n += 1
    return n
'''

SUTS["c31_acc"] = '''
class Acc:
    LIMIT = 10

    def __init__(self, start: int = 0):
        self.total = start
        self.items = []
        self._hidden = 1

    def add(self, x: int) -> int:
        if x < 0:
            raise ValueError("neg")
        self.total += x
        self.items.append(x)
        return self.total

    def mean(self) -> float:
        return self.total / len(self.items)

    def big(self) -> bool:
        return self.total > Acc.LIMIT

    def snapshot(self) -> dict:
        return {"total": self.total, "n": len(self.items)}

    def other(self) -> "Acc":
        return Acc(self.total + 1)

    @property
    def size(self) -> int:
        return len(self.items)


class Pair:
    def __init__(self, left: int, right: str):
        self.left = left
        self.right = right

    def swap(self) -> tuple:
        return (self.right, self.left)

    def fail(self) -> int:
        return self.missing_attribute

    def __eq__(self, other):
        return isinstance(other, Pair) and (self.left, self.right) == (other.left, other.right)

    def __hash__(self):
        return hash((self.left, self.right))


def make(n: int) -> Acc:
    a = Acc()
    for i in range(n % 5):
        a.add(i)
    return a
'''

SUTS["c31_str"] = '''
def first_upper(s: str) -> str:
    return s[0].upper()


def words(s: str) -> list:
    return s.split()


def count_vowels(s: str) -> int:
    n = 0
    for ch in s:
        if ch in "aeiou":
            n += 1
    return n


def to_bytes(s: str) -> bytes:
    return s.encode("ascii")


def table(n: int) -> dict:
    return {i: str(i) * 2 for i in range(n % 4)}


def uniq(s: str) -> set:
    return set(s)


def nested(n: int) -> list:
    return [(i, [i, {"k": i}]) for i in range(n % 3)]


def pick(s: str, i: int) -> str:
    if i < 0:
        raise IndexError("negative index")
    return s[i]


def maybe(s: str):
    if len(s) > 3:
        return None
    return len(s)


def lookup(d: dict, k: str) -> int:
    return d[k]
'''

SUTS["c31_exc"] = '''
import threading


class PlainError(Exception):
    pass


class CtorArgsError(Exception):
    def __init__(self, code: int, what: str):
        super().__init__(f"{what} ({code})")
        self.code = code
        self.what = what


class KwOnlyError(Exception):
    def __init__(self, *, detail: str = "d"):
        super().__init__(detail)
        self.detail = detail


class LambdaPayloadError(Exception):
    def __init__(self, msg: str):
        super().__init__(msg)
        self.callback = lambda: msg


class LockPayloadError(Exception):
    def __init__(self, msg: str):
        super().__init__(msg)
        self.lock = threading.Lock()


class BaseOnly(BaseException):
    pass


class Token:
    def __init__(self, kind: str):
        self.kind = kind


_MESSAGES = {"missing": "the thing is missing", "broken": "the thing is broken"}


class CtorAttributeError(Exception):
    """Re-creating it from its pickled args calls __init__(str): str has no .kind -> AttributeError."""

    def __init__(self, token):
        super().__init__(f"unexpected token {token.kind}")


class CtorValueError(Exception):
    """Re-creating it from args=('E007',) runs int('E007') -> ValueError."""

    def __init__(self, code):
        super().__init__(f"E{int(code):03d}")


class CtorKeyError(Exception):
    """Re-creating it from args=(message,) looks the message up as a key -> KeyError."""

    def __init__(self, name):
        super().__init__(_MESSAGES[name])


def raise_plain(x: int) -> int:
    if x >= 0:
        raise PlainError("plain")
    return x


def raise_ctor_args(x: int) -> int:
    if x >= 0:
        raise CtorArgsError(x, "bad")
    return x


def raise_kwonly(x: int) -> int:
    if x >= 0:
        raise KwOnlyError(detail="kw")
    return x


def raise_lambda_payload(x: int) -> int:
    if x >= 0:
        raise LambdaPayloadError("lam")
    return x


def raise_lock_payload(x: int) -> int:
    if x >= 0:
        raise LockPayloadError("lock")
    return x


def raise_ctor_attribute_error(x: int) -> int:
    if x >= 0:
        raise CtorAttributeError(Token("comma"))
    return x


def raise_ctor_value_error(x: int) -> int:
    if x >= 0:
        raise CtorValueError(7)
    return x


def raise_ctor_key_error(x: int) -> int:
    if x >= 0:
        raise CtorKeyError("missing")
    return x


def raise_local_class(x: int) -> int:
    class LocalError(Exception):
        pass

    if x >= 0:
        raise LocalError("local")
    return x


def raise_base(x: int) -> int:
    if x >= 0:
        raise BaseOnly("base")
    return x


def raise_chained(x: int) -> int:
    try:
        return 1 // (x - x)
    except ZeroDivisionError as e:
        raise RuntimeError("wrapped") from e


def raise_group(x: int) -> int:
    raise ExceptionGroup("grp", [ValueError("a"), TypeError("b")])


def raise_stop(x: int) -> int:
    raise StopIteration(x)


def raise_unicode(x: int) -> int:
    return int(b"\\xff".decode("utf-8"))


def raise_oserror(x: int) -> int:
    raise FileNotFoundError(2, "No such file", "nowhere")


def fine(x: int) -> int:
    if x > 5:
        return 1
    return 0
'''

SUTS["c31_obj"] = '''
import dataclasses
import enum


class Color(enum.Enum):
    RED = 1
    GREEN = 2


class Flagged(enum.Flag):
    A = 1
    B = 2


@dataclasses.dataclass
class Point:
    x: int
    y: int

    def norm1(self) -> int:
        return abs(self.x) + abs(self.y)


def color_of(n: int) -> Color:
    if n % 2:
        return Color.RED
    return Color.GREEN


def flags(n: int) -> Flagged:
    return Flagged.A | Flagged.B if n % 2 else Flagged.A


def point(n: int) -> Point:
    return Point(n, -n)


def returns_lambda(n: int):
    return lambda: n


def returns_generator(n: int):
    return (i for i in range(n % 3))


def returns_closure(n: int):
    def inner():
        return n

    return inner


def returns_local_instance(n: int):
    class Local:
        def __init__(self):
            self.v = n

    return Local()


def returns_type(n: int) -> type:
    return Point if n % 2 else Color


def returns_complex(n: int) -> complex:
    return complex(n, -1)


def returns_float_specials(n: int) -> float:
    if n % 3 == 0:
        return float("inf")
    if n % 3 == 1:
        return -0.0
    return float("nan")


def returns_big_int(n: int) -> int:
    return 2 ** 80 + n


def returns_frozenset(n: int) -> frozenset:
    return frozenset({n % 3, 1})


def returns_range(n: int) -> range:
    return range(n % 4)


def returns_bytesarray(n: int) -> bytearray:
    return bytearray(b"ab")
'''

DIRECTED = {
    "c31_tri": [
        ["var_0 = {m}.classify(3, 4, 5)", "var_1 = {m}.ratio(1.0, 3.0)", "var_2 = {m}.root(2.0)", "var_3 = {m}.ratio(1.0, 0.0)"],
        ["var_0 = {m}.classify(2, 2, 2)", "var_1 = {m}.classify(0, 1, 2)", "var_2 = {m}.clamp(5, 1, 3)", "var_3 = {m}.parity(3)", "var_4 = {m}.nothing(11)"],
        ["var_0 = {m}.root(-1.0)"],
        ["var_0 = {m}.clamp(1, 3, 2)"],
        ["var_0 = 7", "var_1 = {m}.classify(var_0, var_0, 3)", "var_2 = {m}.classify(1, 2, 10)", "var_3 = var_1.nope"],
        ["var_0 = {m}.classify('a', 2, 3)"],
    ],
    "c31_acc": [
        ["var_0 = {m}.Acc(2)", "var_1 = var_0.add(3)", "var_2 = var_0.add(4)", "var_3 = var_0.mean()", "var_4 = var_0.big()", "var_5 = var_0.nope"],
        ["var_0 = {m}.Acc()", "var_1 = var_0.mean()"],
        ["var_0 = {m}.Acc()", "var_1 = var_0.add(-1)"],
        ["var_0 = {m}.Pair(1, 'x')", "var_1 = var_0.swap()", "var_2 = var_0.fail()"],
        ["var_0 = {m}.make(4)", "var_1 = var_0.snapshot()", "var_2 = var_0.other()", "var_3 = var_2.big()", "var_4 = var_0.size"],
        ["var_0 = {m}.Acc(20)", "var_1 = var_0.big()", "var_2 = {m}.Pair(2, 'y')", "var_3 = {m}.Pair(2, 'y')"],
    ],
    "c31_str": [
        ["var_0 = 'hello world'", "var_1 = {m}.first_upper(var_0)", "var_2 = {m}.words(var_0)", "var_3 = {m}.count_vowels(var_0)", "var_4 = {m}.to_bytes(var_0)"],
        ["var_0 = {m}.first_upper('')"],
        ["var_0 = {m}.table(3)", "var_1 = {m}.uniq('aab')", "var_2 = {m}.nested(5)", "var_3 = {m}.maybe('abcd')", "var_4 = {m}.maybe('ab')"],
        ["var_0 = {m}.pick('abc', 5)"],
        ["var_0 = {m}.pick('abc', -1)"],
        ["var_0 = {m}.to_bytes('é')"],
        ["var_0 = {{'a': 1}}", "var_1 = {m}.lookup(var_0, 'a')", "var_2 = {m}.lookup(var_0, 'b')"],
    ],
    "c31_exc": [
        [f"var_0 = {{m}}.fine(7)", f"var_1 = {{m}}.{fn}(1)"] for fn in (
            "raise_plain", "raise_ctor_args", "raise_kwonly", "raise_ctor_attribute_error", "raise_ctor_value_error",
            "raise_ctor_key_error", "raise_lambda_payload", "raise_lock_payload", "raise_local_class",
            "raise_base", "raise_chained", "raise_group", "raise_stop", "raise_unicode", "raise_oserror")
    ] + [["var_0 = {m}.raise_plain(-1)", "var_1 = {m}.fine(1)", "var_2 = {m}.raise_ctor_args(-2)"]],
    "c31_obj": [
        [f"var_0 = {{m}}.{fn}(3)", f"var_1 = {{m}}.{fn}(4)"] for fn in (
            "color_of", "flags", "point", "returns_lambda", "returns_generator", "returns_closure", "returns_local_instance",
            "returns_type", "returns_complex", "returns_float_specials", "returns_big_int", "returns_frozenset", "returns_range",
            "returns_bytesarray")
    ] + [["var_0 = {m}.point(2)", "var_1 = var_0.norm1()", "var_2 = {m}.returns_float_specials(2)", "var_3 = var_0.zzz"]],
}
LOOPING = {"c31_tri": [["var_0 = {m}.classify(3, 4, 5)", "var_1 = {m}.spin_forever(1)"]]}
MODS = list(SUTS)


def floors(tier):
    k = 1 if tier == "quick" else 5
    return {
        "evals": 400 * k,
        "distinct": 200 * k,
        "classes": {
            "directed": 40, "factory": 150 * k, "single-execute": 60, "batch-execute_multiple": 100 * k,
            "with-exception": 60, "with-assertion-trace": 150, "verification": 150, "verification:some-violated": 50,
            "timeout-case": 1, "float-result": 5, "slow:within-budget": 8, "slow:above-budget": 2,
            "exception:constructor-raises-on-args": 6, "exception:AttributeError": 3, "exception:ZeroDivisionError": 2,
        } | {f"module:{m}": 30 for m in MODS},
    }


def plan(tier, seed):
    out = []
    for m in MODS:
        out.append({"name": "directed", "module": m})
    for ci in range(len(SLOW_CONFIGS)):
        out.append({"name": "slow", "module": "c31_tri", "config": ci, "reps": 1 if tier == "quick" else 2,
                    "ks": [2, 3, 4, 6] if tier == "quick" else [2, 3, 4, 5, 6], "exclusive": True})
    parts = 2 if tier == "quick" else 6
    n = 26 if tier == "quick" else 70
    for m in MODS:
        for p in range(parts):
            out.append({"name": "factory", "module": m, "seed": seed, "part": p, "n": n})
    return out


# ------------------------------------------------------------------------------- comparison
_CALLRE = re.compile(r"\.(\w+)\(")


def _callee(lines, pos):
    if pos is None or pos >= len(lines):
        pos = len(lines) - 1
    for ln in reversed(lines[: pos + 1]):
        m = _CALLRE.findall(ln)
        if m:
            return m[-1]
    return "no-call"


def _short_exc(name, modname):
    return name.replace(modname + ".", "sut.").replace("builtins.", "")


def _exc_feature(e) -> str:
    """Why pickle may fail to carry this exception object: a feature of the exception class, not of the test."""
    cls = type(e)
    if "<locals>" in cls.__qualname__:
        return "function-local-class"
    try:
        cls(*e.args)
    except TypeError:
        return "constructor-not-callable-with-args"
    except Exception:  # noqa: BLE001
        return "constructor-raises-on-args"  # (not a TypeError: dill.detect.baditems itself raises on such an object)
    import pickle

    try:
        pickle.loads(pickle.dumps(e))
    except Exception:  # noqa: BLE001
        return "payload-not-picklable"
    return "plain"


def _cmp(ctx, modname, lines, a, b, what, phase, excfeat=None):
    """Compare two summaries (a = in-process, b = subprocess). Returns True if equal."""
    equal = True
    excfeat = excfeat or {}
    case = {"module": modname, "test": lines, "phase": phase, "how": what}
    if a["timeout"] != b["timeout"]:
        side = "subprocess-only" if b["timeout"] else "in-process-only"
        ctx.witness(f"timeout-flag:{side}:{_callee(lines, None)}", f"timeout flag differs: in-process {a['timeout']}, subprocess {b['timeout']} ({what})", case)
        return False
    if a["exc"] != b["exc"]:
        equal = False
        for pos in sorted(set(a["exc"]) | set(b["exc"]), key=int):
            ea, eb = a["exc"].get(pos), b["exc"].get(pos)
            if ea == eb:
                continue
            if eb is None:
                key = f"exceptions:dropped-in-subprocess:{excfeat.get(pos) or _short_exc(ea, modname)}"
            elif ea is None:
                key = f"exceptions:extra-in-subprocess:{_short_exc(eb, modname)}"
            else:
                key = f"exceptions:type-changed:{_short_exc(ea, modname)}->{_short_exc(eb, modname)}"
            ctx.witness(key, f"exception at position {pos}: in-process {ea}, subprocess {eb} ({what})", dict(case, inproc=a["exc"], subproc=b["exc"]))
    for comp in ("lines", "branches"):
        if a[comp] != b[comp]:
            equal = False
            sa, sb = {repr(x) for x in a[comp]}, {repr(x) for x in b[comp]}
            kind = "missing-in-subprocess" if sa - sb and not sb - sa else ("extra-in-subprocess" if sb - sa and not sa - sb else "different")
            ctx.witness(f"{comp}:{kind}:{_callee(lines, None)}", f"{comp} differ: only in-process {sorted(sa - sb)[:8]}, only subprocess {sorted(sb - sa)[:8]} ({what})", case)
    if "assertions" in a and a["assertions"] != b.get("assertions"):
        equal = False
        ba = b.get("assertions", {})
        for pos in sorted(set(a["assertions"]) | set(ba), key=int):
            xa, xb = set(a["assertions"].get(pos, [])), set(ba.get(pos, []))
            if xa == xb:
                continue
            kinds_missing = sorted({x.split(":")[0].split(" ")[0] for x in xa - xb})
            kinds_extra = sorted({x.split(":")[0].split(" ")[0] for x in xb - xa})
            kind = ("missing-in-subprocess:" + "+".join(kinds_missing)) if kinds_missing and not kinds_extra else (
                ("extra-in-subprocess:" + "+".join(kinds_extra)) if kinds_extra and not kinds_missing else
                "changed:" + "+".join(kinds_missing) + "->" + "+".join(kinds_extra))
            ctx.witness(f"assertion-trace:{kind}:{_callee(lines, int(pos))}",
                        f"assertion trace at position {pos} differs: only in-process {sorted(xa - xb)[:4]}, only subprocess {sorted(xb - xa)[:4]} ({what})", case)
            break
    if "verif" in a and a["verif"] != b.get("verif"):
        equal = False
        bv = b.get("verif", {"failed": {}, "error": {}})
        for kind in ("failed", "error"):
            if a["verif"][kind] != bv[kind]:
                ctx.witness(f"verification-trace:{kind}-differs:{_callee(lines, None)}",
                            f"assertion verification trace ({kind}) differs: in-process {a['verif'][kind]}, subprocess {bv[kind]} ({what})", case)
    return equal


class Pair:
    """The two executors under comparison for one SUT module."""

    def __init__(self, sp, observer_factory, max_timeout=20, per_stmt=10):
        from pynguin.testcase.execution import TestCaseExecutor
        from pynguin.testcase.subprocess_executor import SubprocessTestCaseExecutor

        self.sp = sp
        self.inp = TestCaseExecutor(sp, maximum_test_execution_timeout=max_timeout, test_execution_time_per_statement=per_stmt)
        self.sub = SubprocessTestCaseExecutor(sp, maximum_test_execution_timeout=max_timeout, test_execution_time_per_statement=per_stmt)
        self.inp.add_remote_observer(observer_factory())
        self.sub.add_remote_observer(observer_factory())


def _safe(ctx, fn, where, modname, lines):
    try:
        return fn()
    except Exception as e:  # noqa: BLE001 - execute() must not raise for a test case
        import traceback

        tb = traceback.extract_tb(e.__traceback__)
        frame = next((f.name for f in reversed(tb) if "/pynguin/" in f.filename), "?")
        ctx.witness(f"execute-raises:{where}:{type(e).__name__}:{frame}:{_callee(lines, None)}",
                    f"{where} execution raised {type(e).__name__}: {str(e)[:200]}", {"module": modname, "test": lines})
        return None


def _attach_assertions(test, result, rng):
    """Copy of `test` with the observed assertions attached; a random subset is falsified."""
    import pynguin.assertion.assertion as ass
    from vlib import exech as H

    t = H.clone_plain(test)
    falsified = 0
    for pos, st in enumerate(t.statements()):
        for a in result.assertion_trace.get_assertions(pos):
            r = rng.random()
            if r < 0.35:
                if isinstance(a, ass.ObjectAssertion):
                    a = ass.ObjectAssertion(a.source, "__c31_wrong__")
                    falsified += 1
                elif isinstance(a, ass.FloatAssertion):
                    a = ass.FloatAssertion(a.source, 12345.678)
                    falsified += 1
                elif isinstance(a, ass.ExceptionAssertion):
                    a = ass.ExceptionAssertion(a.module, "C31NoSuchError")
                    falsified += 1
                elif isinstance(a, ass.CollectionLengthAssertion):
                    a = ass.CollectionLengthAssertion(a.source, a.length + 7)
                    falsified += 1
                elif isinstance(a, ass.IsInstanceAssertion | ass.TypeNameAssertion):
                    a = ass.ObjectAssertion(a.source + ".c31_missing_attr", 1)  # raises -> 'error'
                    falsified += 1
            st.assertions.append(a)
    return t, falsified


def _summ(res, sp, verification):
    from vlib import exech as H

    return H.summarize(res, sp, assertions=not verification, verification=verification)


def _det_filter(ctx, pair, tests, modname, verification=False):
    """In-process twice; keep deterministic ones. Returns list of (test, lines, summary, result)."""
    from vlib import exech as H

    kept = []
    for t in tests:
        lines = H.test_lines(t)
        r1 = _safe(ctx, lambda t=t: pair.inp.execute(t), "in-process", modname, lines)
        r2 = _safe(ctx, lambda t=t: pair.inp.execute(t), "in-process", modname, lines)
        if r1 is None or r2 is None:
            continue
        s1, s2 = _summ(r1, pair.sp, verification), _summ(r2, pair.sp, verification)
        if s1 != s2:
            ctx.anomaly("not-deterministic-in-process:" + ",".join(H.diff_keys(s1, s2)))
            continue
        kept.append((t, lines, s1, r1))
    return kept


def _classes(modname, lines, s, origin, how):
    cl = {origin, how, f"module:{modname}"}
    if s["exc"]:
        cl.add("with-exception")
        for e in s["exc"].values():
            short = e.split(".")[-1]
            if short in ("AttributeError", "ZeroDivisionError"):
                cl.add(f"exception:{short}")
    if any(e.split(".")[-1] in ("CtorAttributeError", "CtorValueError", "CtorKeyError") for e in s["exc"].values()):
        cl.add("exception:constructor-raises-on-args")
    if s.get("assertions"):
        cl.add("with-assertion-trace")
        if any("FloatAssertion" in x for v in s["assertions"].values() for x in v):
            cl.add("float-result")
    if s["timeout"]:
        cl.add("timeout-case")
    return cl


def _retry_timeout(ctx, pair_factory, t, verification):
    """A timeout flag that differs is re-tried with a larger budget (loaded machine)."""
    for mult in (2, 4):
        p = pair_factory(mult)
        ra, rb = p.inp.execute(t), p.sub.execute(t)
        if bool(ra.timeout) == bool(rb.timeout):
            ctx.anomaly("timeout-flag-differed-once-under-load")
            return _summ(ra, p.sp, verification), _summ(rb, p.sp, verification)
    return None


def _compare_tests(ctx, sp, modname, tests, origin, rng, batch_sizes):
    """Both phases for a list of tests. batch_sizes: iterable of ints (1 = single execute)."""
    from pynguin.assertion.assertiontraceobserver import RemoteAssertionTraceObserver, RemoteAssertionVerificationObserver
    from vlib import exech as H

    pair = Pair(sp, RemoteAssertionTraceObserver)
    kept = _det_filter(ctx, pair, tests, modname)
    # ---- phase 1: execution + assertion trace
    i = 0
    phase2 = []
    sizes = iter(batch_sizes)
    while i < len(kept):
        k = max(1, next(sizes, 1))
        grp = kept[i:i + k]
        i += k
        tcs = [g[0] for g in grp]
        if len(grp) == 1:
            how = "single-execute"
            out = _safe(ctx, lambda: [pair.sub.execute(tcs[0])], "subprocess", modname, grp[0][1])
        else:
            how = "batch-execute_multiple"
            out = _safe(ctx, lambda: list(pair.sub.execute_multiple(tcs)), "subprocess", modname, [ln for g in grp for ln in g[1]] )
        if out is None:
            continue
        for (t, lines, s1, r1), rb in zip(grp, out):
            sb = _summ(rb, sp, False)
            if s1["timeout"] != sb["timeout"]:
                again = _retry_timeout(ctx, lambda mult: Pair(sp, RemoteAssertionTraceObserver, 20 * mult, 10 * mult), t, False)
                if again is not None:
                    s1, sb = again
            ctx.ok(cls=_classes(modname, lines, s1, origin, how), distinct=[modname, lines])
            feat = {str(p): _exc_feature(e) for p, e in r1.exceptions.items()}
            if _cmp(ctx, modname, lines, s1, sb, how, "assertion-trace", feat) and not s1["timeout"]:
                phase2.append((t, lines, r1))
        if len(ctx.samples) < 3 and grp:
            ctx.sample({"module": modname, "test": grp[0][1][:8], "in_process": {k: grp[0][2][k] for k in ("timeout", "exc", "lines", "branches")}})
    # ---- phase 2: verification of attached (partly falsified) assertions
    vpair = Pair(sp, RemoteAssertionVerificationObserver)
    withass = []
    for t, lines, r1 in phase2:
        ta, nf = _attach_assertions(t, r1, rng)
        if ta.size_with_assertions() > ta.size():
            withass.append((ta, nf))
    kept2 = _det_filter(ctx, vpair, [w[0] for w in withass], modname, verification=True)
    nf_of = {id(w[0]): w[1] for w in withass}
    i = 0
    while i < len(kept2):
        k = max(1, next(sizes, 1))
        grp = kept2[i:i + k]
        i += k
        tcs = [g[0] for g in grp]
        lines_all = [ln for g in grp for ln in g[1]]
        if len(grp) == 1:
            out = _safe(ctx, lambda: [vpair.sub.execute(tcs[0])], "subprocess", modname, lines_all)
        else:
            out = _safe(ctx, lambda: list(vpair.sub.execute_multiple(tcs)), "subprocess", modname, lines_all)
        if out is None:
            continue
        for (t, lines, s1, _r1), rb in zip(grp, out):
            sb = _summ(rb, sp, True)
            if s1["timeout"] != sb["timeout"]:
                again = _retry_timeout(ctx, lambda mult: Pair(sp, RemoteAssertionVerificationObserver, 20 * mult, 10 * mult), t, True)
                if again is not None:
                    s1, sb = again
            cl = {"verification", f"module:{modname}"}
            if s1["verif"]["failed"] or s1["verif"]["error"]:
                cl.add("verification:some-violated")
            if nf_of.get(id(t)) and not (s1["verif"]["failed"] or s1["verif"]["error"]):
                ctx.anomaly("falsified-assertion-not-reported-in-process")
            ctx.ok(cls=cl, distinct=[modname, "verif", lines, s1["verif"]])
            _cmp(ctx, modname, lines, s1, sb, "single-execute" if len(grp) == 1 else "batch-execute_multiple", "verification")


SLOW_CONFIGS = [(5, 1), (3, 1), (2, 0.5)]  # (maximum_test_execution_timeout, test_execution_time_per_statement), all with max != per


def _slow_cases(alias, configs=None, ks=(2, 3, 4, 5, 6)):
    """(lines, config, kind, planned runtime s, allowed s). Margins: within = [1.5*per, 0.6*allowed], above = 1.6*allowed."""
    out = []
    for mx, per in (configs or SLOW_CONFIGS):
        for k in ks:
            allowed = min(mx, per * k)
            lo, hi = 1.5 * per, 0.6 * allowed
            if lo <= hi:
                for split in (1, 2):
                    runtime = lo + (hi - lo) * (0.25 if split == 1 else 0.75)
                    naps = [runtime] if split == 1 or k < 4 else [runtime * 0.6, runtime * 0.4]
                    lines = []
                    for i, d in enumerate(naps):
                        lines.append(f"var_{len(lines)} = {int(d * 1000)}")
                        lines.append(f"var_{len(lines)} = {alias}.nap(var_{len(lines) - 1})")
                    while len(lines) < k:
                        lines.append(f"var_{len(lines)} = {alias}.parity({len(lines)})")
                    if len(lines) == k:
                        out.append((lines, (mx, per), "within-budget", runtime, allowed))
            if allowed <= 3 and k in (2, 3):
                runtime = 1.6 * allowed
                lines = [f"var_0 = {int(runtime * 1000)}", f"var_1 = {alias}.nap(var_0)"] + [f"var_{i} = {alias}.parity({i})" for i in range(2, k)]
                out.append((lines, (mx, per), "above-budget", runtime, allowed))
    return out


def _run_slow(ctx, sp, modname, alias, reps, configs, ks):
    import time as _t

    from pynguin.assertion.assertiontraceobserver import RemoteAssertionTraceObserver
    from vlib import exech as H

    keys = ("timeout", "exc", "lines", "branches", "assertions")

    def both(t, cfg):
        p = Pair(sp, RemoteAssertionTraceObserver, cfg[0], cfg[1])
        ra, rb = p.inp.execute(t), p.sub.execute(t)
        return _summ(ra, sp, False), _summ(rb, sp, False)

    def calibrate():
        """Machine load, measured WITHOUT the code under test: the latency of forking this (large) process and reaping a child that
        exits at once, plus a fixed busy loop - what a trivial subprocess execution costs at least.  (Timing the subprocess
        executor itself would let a defect of that executor pass for an overloaded machine.)"""
        worst = 0.0
        for _ in range(3):
            t0 = _t.monotonic()
            pid = os.fork()
            if pid == 0:
                os._exit(0)
            os.waitpid(pid, 0)
            n = 0
            for i in range(200_000):
                n += i
            worst = max(worst, _t.monotonic() - t0)
        return worst

    cal = calibrate()
    ctx.extra.setdefault("calibration_fork_and_busy_loop_s", []).append(round(cal, 2))
    for _rep in range(reps):
        for lines, cfg, kind, runtime, allowed in _slow_cases(alias, configs, ks):
            t = H.mk_test(lines)
            attempts = []
            for _ in range(3):  # a disagreement must show three times out of three
                try:
                    sa, sb = both(t, cfg)
                except Exception as e:  # noqa: BLE001
                    ctx.witness(f"execute-raises:slow-test:{type(e).__name__}", f"execution raised {e!r}", {"test": lines, "config": cfg})
                    attempts = []
                    break
                attempts.append((sa, sb))
                if all(sa[k] == sb[k] for k in keys):
                    break
            if not attempts:
                continue
            sa, sb = attempts[-1]
            ctx.ok(cls=[f"slow:{kind}", "config:max!=per-statement", f"module:{modname}"], distinct=[modname, lines, list(cfg)])
            if all(sa[k] == sb[k] for k in keys):
                if len(attempts) > 1:
                    ctx.anomaly("slow-test-disagreement-not-reproduced")
                if kind == "within-budget" and sa["timeout"]:
                    ctx.anomaly("both-executors-time-out-within-budget")  # agreement holds; load or a budget defect outside C31
                if kind == "above-budget" and not sa["timeout"]:
                    ctx.anomaly("both-executors-finish-above-budget")
                continue
            cal2 = calibrate()
            if max(cal, cal2) > float(os.environ.get("C31_OVERLOAD_S", "0.4")):  # (the self-test raises it to see the witness path)
                ctx.anomaly("slow-test-disagreement-on-overloaded-machine")
                ctx.inconclusive_because(f"slow test disagreed 3/3 but forking and reaping a trivial child takes {max(cal, cal2):.2f}s (machine overloaded)")
                continue
            case = {"module": modname, "test": lines, "config": {"maximum_test_execution_timeout": cfg[0], "test_execution_time_per_statement": cfg[1]},
                    "planned_runtime_s": round(runtime, 2), "allowed_s": allowed, "in_process": {k: sa[k] for k in ("timeout", "exc")},
                    "subprocess": {k: sb[k] for k in ("timeout", "exc")}}
            if sa["timeout"] != sb["timeout"]:
                side = "subprocess-only" if sb["timeout"] else "in-process-only"
                ctx.witness(f"timeout-flag:{side}:slow-{kind}:max!=per-statement",
                            f"test running {runtime:.2f}s with allowed timeout {allowed}s (config {cfg}): in-process timeout={sa['timeout']}, "
                            f"subprocess timeout={sb['timeout']} (3/3 attempts)", case)
            else:
                _cmp(ctx, modname, lines, sa, sb, f"slow-{kind}", "assertion-trace")


def run_chunk(spec, ctx):
    import pynguin.configuration as config
    from vlib import exech as H

    modname = spec["module"]
    sp, _, _ = H.setup_sut(ctx.scratch, modname, SUTS[modname], seed=spec.get("seed", 0))
    alias = modname + "_"
    if spec["name"] == "slow":
        _run_slow(ctx, sp, modname, alias, spec.get("reps", 1), [SLOW_CONFIGS[spec["config"]]], spec.get("ks", [2, 3, 4, 5, 6]))
        return
    rng = random.Random(spec.get("seed", 0) * 1000003 + spec.get("part", 0) * 97 + 31)
    if spec["name"] == "directed":
        tests = [H.mk_test([ln.format(m=alias) for ln in lines]) for lines in DIRECTED[modname]]
        _compare_tests(ctx, sp, modname, tests, "directed", rng, batch_sizes=[1] * len(tests) + [4, 4, 4, 4, 4, 4])
        # again, all in one batch
        _compare_tests(ctx, sp, modname, tests, "directed", random.Random(5), batch_sizes=[len(tests), len(tests)])
        # non-terminating test: both must flag a timeout (small budget: this one really waits)
        for lines in LOOPING.get(modname, []):
            from pynguin.assertion.assertiontraceobserver import RemoteAssertionTraceObserver

            t = H.mk_test([ln.format(m=alias) for ln in lines])
            p = Pair(sp, RemoteAssertionTraceObserver, 1, 1)
            tl = H.test_lines(t)
            ra = _safe(ctx, lambda: p.inp.execute(t), "in-process", modname, tl)
            rb = _safe(ctx, lambda: p.sub.execute(t), "subprocess", modname, tl)
            if ra is not None and rb is not None:
                sa, sb = _summ(ra, sp, False), _summ(rb, sp, False)
                ctx.ok(cls=_classes(modname, tl, sa, "directed", "single-execute"), distinct=[modname, tl])
                if sa["timeout"] != sb["timeout"]:
                    ctx.witness(f"timeout-flag:{'subprocess-only' if sb['timeout'] else 'in-process-only'}:spin_forever",
                                f"non-terminating test: in-process timeout={sa['timeout']}, subprocess timeout={sb['timeout']}", {"module": modname, "test": tl})
        return
    config.configuration.search_algorithm.chromosome_length = rng.choice([6, 12, 24])
    with sp.instrumentation_tracer.temporarily_disable():
        tests, _ = H.factory_tests(modname, spec["n"], spec["seed"] * 7919 + spec["part"] * 13 + 1)
    tests = [t for t in tests if "spin_forever" not in t.to_code() and ".nap(" not in t.to_code()]
    sizes = []
    while sum(sizes) < 4 * len(tests) + 10:
        sizes += [1, rng.choice([3, 5, 8]), rng.choice([4, 6])]
    _compare_tests(ctx, sp, modname, tests, "factory", rng, batch_sizes=sizes)
