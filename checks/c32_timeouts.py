"""C32 — non-terminating tests time out without polluting later executions.

Fault enumeration over schedules: interleavings of looping test cases (busy loop, loop with time.sleep, loop around a
C call, loop that swallows BaseException, loop that raises from ``finally``) and terminating ones, executed by one
unmodified ``TestCaseExecutor`` with a 1 s timeout, while a wrapper around ``ExecutionTracer.check`` (installed from
the harness) delays abandoned threads by a chosen amount so that they notice the abort earlier or later.

Oracles (exactly the two clauses of the statement):
* every looping test is reported ``timeout=True`` and ``execute`` returns within bound*3 + 2 s (an overrun is re-tried
  twice; only a reproduced overrun on a machine that is not overloaded is a witness);
* for every terminating test executed after a looping one: lines / (predicate, outcome) pairs / (position, exception
  type) pairs / code objects of its result minus those of its stand-alone result must be empty.

A later test that *loses* its result (timeout=True, nothing covered) because a woken-up abandoned thread stopped the
tracer is a pollution of a later execution too (coordinator decision): witness ``later-result-lost:<loop kind>:<timing class>``,
reported only if it shows in 2 of 3 repetitions of the same interleaving.  The timing class says whether the abandoned thread
stayed blocked (sleep in progress + injected delay) longer or shorter than the second join (= maximum_test_execution_timeout);
the second join outlasts a shorter block, so that class must never lose a result.  Executor configurations with
max != per-statement time are included; there every test is padded to 8 statements so that its budget is at the maximum.
"""

from __future__ import annotations

import random
import time

ID = "C32"
LEVEL = "fault_enumeration"
IN_PROCESS = False
CHUNK_TIMEOUT = 900
MAX_PARALLEL_CHUNKS = 8  # every chunk keeps several busy threads alive: more than 8 at a time starve each other's abandoned threads
BOUND = 1  # seconds, maximum_test_execution_timeout
RULE = (
    "schedules = sequences of terminating tests and looping tests (busy / sleep 0.05-0.3 s / sleep longer than the second join / "
    "repeated C call / BaseException-swallowing loop / raise-from-finally loop) run by one TestCaseExecutor with timeout 1 s, "
    "crossed with a delay (0-1.5 s) injected into ExecutionTracer.check of abandoned threads and with executor configurations "
    "(max, per-statement) in {(1,1), (2,0.25), (2,0.5)} (tests padded to 8 statements); oracle: looping test => timeout=True within "
    "3*max+2 s (overruns re-tried twice), later terminating test => result minus stand-alone result is empty for lines, branch "
    "outcomes, exceptions, code objects, and its result is not lost (2 of 3 repetitions); a schedule is distinct by (kinds, loop "
    "parameters, delay, configuration)"
)
ASSUMPTIONS = [
    "the stand-alone result is taken in the same fresh chunk process before any looping test ran (two equal runs required)",
    "a result with timeout=True and no coverage after a looping test, delivered before the test's own budget elapsed (thread ended "
    "early without a result), is a lost result; it is reported only when it reproduces in "
    "2 of 3 repetitions and a trivial execution takes < 0.5 s (otherwise the test may have run into its own timeout)",
    "the block of an abandoned thread is computed from the loop's sleep period (sleep in progress at the timeout) plus the injected delay",
    "an overrun that does not reproduce twice, or that happens while a trivial execution takes > 0.5 s, is load noise",
    "C calls are short (a few ms): a single long GIL-holding C call is outside 'loops in instrumented code'",
]

SUT = '''
import time


def helper(x):
    if x > 0:
        return 1
    return -1


def t_classify(a, b, c):
    if a <= 0 or b <= 0 or c <= 0:
        return "invalid"
    if a == b == c:
        return "equilateral"
    if a == b or b == c or a == c:
        return "isosceles"
    return "scalene"


def t_small(x):
    if helper(x) > 0:
        return "pos"
    return "neg"


def t_raise(x):
    if helper(x) > 0:
        raise ValueError("expected")
    return x


def t_slow(x):
    n = 0
    for _ in range(x):
        time.sleep(0.01)
        n += helper(1)
    return n


def l_busy(x):
    n = 0
    while True:
        n += helper(-1)
    return n


def l_sleep(d):
    n = 0
    while True:
        time.sleep(d)
        n += helper(-1)
    return n


def l_ccall(size):
    data = list(range(size, 0, -1))
    n = 0
    while True:
        sorted(data)
        n += helper(-1)
    return n


def l_swallow(x):
    n = 0
    while True:
        try:
            n += helper(-1)
            if n % 50 == 0:
                time.sleep(0.001)
        except BaseException:
            n = 0
    return n


def l_finally(x):
    n = 0
    try:
        while True:
            n += helper(-1)
    finally:
        raise RuntimeError("raised while unwinding")
    return n


def l_nested(x):
    while True:
        t_small(-1)
        t_classify(-1, 2, 3)


def l_lines_only(period):
    # every iteration executes the same few lines and nothing else the tracer hears of (no predicate, no new line, no call into
    # instrumented code); only after ~3.5 s the handler - new lines and an exception-match predicate - is reached
    todo = [0] * int(3.5 / period)
    n = 0
    while True:
        try:
            todo.pop()
            time.sleep(period)
        except IndexError:
            todo = [0] * int(3.5 / period)
            n += 1
    return n
'''
MOD = "c32_sut"
A = MOD + "_"

T_TESTS = {
    "t_classify": [f"var_0 = {A}.t_classify(3, 4, 5)", f"var_1 = {A}.t_classify(2, 2, 3)"],
    "t_small": [f"var_0 = {A}.t_small(1)"],
    "t_raise": [f"var_0 = {A}.t_small(2)", f"var_1 = {A}.t_raise(1)"],
    "t_slow": [f"var_0 = {A}.t_slow(20)"],
    "t_long": [f"var_0 = {A}.t_slow(55)"],  # ~0.6 s: still running when a thread that overslept the second join wakes up
}


def _loop_lines(kind, rng):
    """(lines, parameter description) for a looping test of the given kind."""
    if kind == "busy":
        return [f"var_0 = {A}.l_busy(1)"], "busy"
    if kind == "sleep-short":
        d = rng.choice([0.05, 0.1, 0.2, 0.3])
        return [f"var_0 = {A}.l_sleep({d})"], f"sleep({d})"
    if kind == "sleep-long":
        d = rng.choice([1.3, 1.8, 2.6])
        return [f"var_0 = {A}.l_sleep({d})"], f"sleep({d})"
    if kind == "c-call":
        n = rng.choice([2000, 20000, 100000])
        return [f"var_0 = {A}.l_ccall({n})"], f"sorted({n})"
    if kind == "swallow":
        return [f"var_0 = {A}.l_swallow(1)"], "swallow"
    if kind == "finally-raise":
        return [f"var_0 = {A}.l_finally(1)"], "finally-raise"
    if kind == "nested":
        return [f"var_0 = {A}.t_small(1)", f"var_1 = {A}.l_nested(1)"], "nested"
    if kind == "lines-only":
        return [f"var_0 = {A}.l_lines_only(0.1)"], "sleep(0.1)"
    raise AssertionError(kind)


LOOP_KINDS = ["busy", "sleep-short", "c-call", "sleep-long", "swallow", "finally-raise", "nested", "lines-only"]
DELAYS = [0.0, 0.0, 0.02, 0.2, 0.6, 1.5]
# (maximum_test_execution_timeout, test_execution_time_per_statement); tests are padded to PAD statements where per < max, so that
# the budget of every test is "already at the maximum": min(max, per * size) == max
CONFIGS = [(1, 1), (2, 0.25), (2, 0.5)]
PAD = 8
SHORT = "blocked-shorter-than-second-join"
LONG = "blocked-longer-than-second-join"
CLOSE = "blocked-between-half-and-whole-second-join"


def floors(tier):
    k = 1 if tier == "quick" else 5
    return {
        "evals": 300 * k,
        "distinct": 30 * k,
        "classes": {
            # (the directed schedules alone give busy 7, sleep-short 15, c-call 5, nested 3, sleep-long 3, finally-raise 2, lines-only 2,
            #  swallow 1; floors above that rely on the seeded random schedules and leave a wide margin)
            "loop:busy": 10 * k, "loop:sleep-short": 15 * k, "loop:c-call": 8 * k, "loop:sleep-long": 3, "loop:swallow": 1,
            "loop:finally-raise": 2, "loop:nested": 3, "loop:lines-only": 2, "delay-injected": 30 * k, "later:compared": 130 * k,
            "later:after-delayed-abort": 40 * k, f"timing:{SHORT}": 60 * k, f"timing:{LONG}": 12 * k,
            "loop:asleep-at-timeout": 12 * k, "loop:budget-at-maximum-with->=5-statements": 12 * k, "config:max!=per-statement": 40 * k,
        },
    }


def plan(tier, seed):
    out = [{"name": "directed", "variant": v} for v in range(len(DIRECTED))]
    parts = 7 if tier == "quick" else 16
    n = 4 if tier == "quick" else 30
    for p in range(parts):
        out.append({"name": "random", "seed": seed, "part": p, "n": n})
    return out


# ------------------------------------------------------------------------------- monitor / fault injection
DELAY = [0.0]
CHECK_CALLS = [0, 0]  # [calls, delayed calls]


def _install_check_delay():
    """Wrap ExecutionTracer.check: an abandoned thread (ident != current) sleeps DELAY[0] before it notices."""
    import threading

    from pynguin.instrumentation.tracer import ExecutionTracer

    if getattr(ExecutionTracer.check, "_c32", False):
        return
    orig = ExecutionTracer.check

    def check(self):
        CHECK_CALLS[0] += 1
        if DELAY[0] and threading.current_thread().ident != self._current_thread_identifier:
            CHECK_CALLS[1] += 1
            time.sleep(DELAY[0])
        return orig(self)

    check._c32 = True
    ExecutionTracer.check = check


def _facts(summary, pad=0):
    return {
        "lines": set(summary["lines"]),
        "branches": {tuple(b) for b in summary["branches"]},
        "exceptions": {(int(p) - pad, e) for p, e in summary["exc"].items()},  # positions relative to the unpadded test
        "code-objects": set(summary["code_objects"]),
    }


def _executor(sp, cfg=(BOUND, BOUND)):
    from pynguin.testcase.execution import TestCaseExecutor

    return TestCaseExecutor(sp, maximum_test_execution_timeout=cfg[0], test_execution_time_per_statement=cfg[1])


def _block_after_timeout(entry, delay, cfg):
    """Seconds an abandoned thread of this looping test stays blocked after the timeout fired (sleep in progress + injected delay)."""
    allowed = cfg[0]
    d = entry.get("sleep", 0.0)
    rest = 0.0
    if d:
        import math

        rest = math.ceil(allowed / d - 1e-9) * d - allowed
    return rest + delay


def _run_schedule(sp, schedule, delay, cfg):
    """Execute the schedule with one executor. Returns list of (entry, wall seconds, summary | None)."""
    from vlib import exech as H

    DELAY[0] = delay
    ex = _executor(sp, cfg)
    out = []
    worst = 0.0
    for entry in schedule:
        t0 = time.monotonic()
        try:
            res = ex.execute(entry["test"])
            summ = H.summarize(res, sp, assertions=False, verification=False)
        except Exception as e:  # noqa: BLE001
            summ = {"execute-raised": f"{type(e).__name__}: {e}"[:200]}
        out.append((entry, time.monotonic() - t0, summ))
        if entry["loop"]:
            worst = max(worst, _block_after_timeout(entry, delay, cfg))
    # let the abandoned threads of this schedule die before the next schedule starts (schedules stay independent)
    time.sleep(min(worst + 0.4, 5.0))
    DELAY[0] = 0.0
    return out


def _calibrate(sp, test):
    """Wall time of a trivial execution now (load indicator)."""
    DELAY[0] = 0.0
    ex = _executor(sp, (20, 20))
    ts = []
    for _ in range(3):
        t0 = time.monotonic()
        ex.execute(test)
        ts.append(time.monotonic() - t0)
    return sorted(ts)[1]


def _scan(ctx, schedule, delay, cfg, base, records, descr, count=True):
    """One pass over the records of a schedule. Returns (overrun positions, lost: {position: (loop kind, timing class)})."""
    limit = cfg[0] * 3 + 2
    loops_before = []  # (kind, block after timeout)
    over, lost = [], {}
    for idx, (entry, dt, summ) in enumerate(records):
        case = {"schedule": descr, "delay_in_check": delay, "config": list(cfg), "position": idx, "test": entry["lines"]}
        kinds = [k for k, _b in loops_before]
        if "execute-raised" in summ:
            if count:
                ctx.witness(f"execute-raises:{summ['execute-raised'].split(':')[0]}:after-{kinds[-1] if kinds else 'nothing'}",
                            f"TestCaseExecutor.execute raised {summ['execute-raised']}", case)
            continue
        if entry["loop"]:
            kind = entry["kind"]
            blk = _block_after_timeout(entry, delay, cfg)
            if count:
                cls = [f"loop:{kind}"] + (["delay-injected"] if delay else [])
                if entry.get("sleep") and blk - delay > 0.05:
                    cls.append("loop:asleep-at-timeout")
                if len(entry["lines"]) >= 5 and cfg[1] * len(entry["lines"]) >= cfg[0]:
                    cls.append("loop:budget-at-maximum-with->=5-statements")
                if cfg[0] != cfg[1]:
                    cls.append("config:max!=per-statement")
                ctx.ok(cls=cls)
                if not summ["timeout"]:
                    ctx.witness(f"loop-not-flagged-as-timeout:{kind}", f"looping test ({entry['param']}) returned timeout=False after {dt:.2f}s", dict(case, result=summ))
            if summ["timeout"] and dt > limit:
                over.append(idx)
            loops_before.append((kind, blk))
            continue
        # terminating test
        b = base[entry["kind"]]
        if loops_before:
            ckind, cblk = max(loops_before, key=lambda kb: kb[1])
            # a block between half of the second join and the whole of it leaves no margin for a descheduled thread on a busy
            # machine (the thorough tier loads the machine itself): its own class, a lost result there is an anomaly
            timing = LONG if cblk > cfg[0] else (CLOSE if cblk > 0.5 * cfg[0] else SHORT)
        if summ["timeout"] and set(summ["lines"]) <= set(b["import_lines"]):
            allowed = min(cfg[0], cfg[1] * len(entry["lines"]))
            if dt >= 0.9 * allowed:
                # execute() waited for the whole budget: the test ran into its *own* timeout (starved on a loaded machine);
                # a lost result is a thread that ended early without a result
                if count:
                    ctx.anomaly("terminating-test-ran-into-its-own-timeout")
                continue
            if loops_before:
                lost[idx] = (ckind, timing)
                if count:
                    ctx.ok(cls=[f"timing:{timing}", "later:lost-candidate"])
            elif count:
                ctx.anomaly("terminating-test-timed-out-without-loop-before")
            continue
        if not count:
            continue
        got, alone = _facts(summ, len(entry["lines"]) - len(T_TESTS[entry["kind"]])), _facts(b["summary"])
        if loops_before:
            ctx.ok(cls=["later:compared", f"timing:{timing}"] + (["later:after-delayed-abort"] if delay else []))
        else:
            ctx.ok(cls="terminating-before-any-loop")
        if summ["timeout"]:
            ctx.anomaly("later_timeout_with_partial_trace")
        for comp in ("lines", "branches", "exceptions", "code-objects"):
            added = got[comp] - alone[comp]
            if added:
                ctx.witness(
                    f"added-{comp}:after-{kinds[-1] if kinds else 'no-loop'}",
                    f"{entry['kind']} executed after {kinds} has {comp} its stand-alone execution does not have: {sorted(added)[:10]}",
                    dict(case, alone=b["summary"], later=summ),
                )
            missing = alone[comp] - got[comp]
            if missing and not summ["timeout"]:
                ctx.anomaly(f"later_result_missing_{comp}")
    return over, lost


def _judge(ctx, sp, schedule, delay, cfg, base, records, calib_test, descr):
    over, lost = _scan(ctx, schedule, delay, cfg, base, records, descr)
    if not over and not lost:
        return
    # both wall-clock verdicts need the same interleaving to misbehave again: 3/3 for an overrun, 2/3 for a lost result
    over_n = {i: 1 for i in over}
    lost_n = {i: 1 for i in lost}
    walls = {i: [round(records[i][1], 2)] for i in over}
    for _ in range(2):
        again = _run_schedule(sp, schedule, delay, cfg)
        o2, l2 = _scan(ctx, schedule, delay, cfg, base, again, descr, count=False)
        for i in over:
            if i in o2:
                over_n[i] += 1
                walls[i].append(round(again[i][1], 2))
        for i in lost:
            if i in l2:
                lost_n[i] += 1
    cal = _calibrate(sp, calib_test)
    for i in over:
        e = schedule[i]
        if over_n[i] < 3:
            ctx.anomaly("timeout-overrun-not-reproduced")
        elif cal > 0.5:
            ctx.anomaly("timeout-overrun-on-overloaded-machine")
            ctx.inconclusive_because(f"timeout overrun for loop {e['kind']} reproduced, but a trivial execution takes {cal:.2f}s (machine overloaded)")
        else:
            ctx.witness(f"timeout-overrun:{e['kind']}",
                        f"looping test ({e['param']}) reported its timeout only after {walls[i]}s (> {cfg[0] * 3 + 2}s), reproduced 3/3 times",
                        {"schedule": descr, "delay_in_check": delay, "config": list(cfg), "position": i, "test": e["lines"]})
    for i, (kind, timing) in lost.items():
        e = schedule[i]
        if timing == CLOSE:
            ctx.anomaly("later_result_lost_with_block_close_to_second_join")
        elif lost_n[i] < 2:
            ctx.anomaly("later_result_lost_not_reproduced")
        elif cal > 0.5:
            ctx.anomaly("later_result_lost_on_overloaded_machine")
            ctx.inconclusive_because(f"result lost after a {kind} loop ({timing}), but a trivial execution takes {cal:.2f}s (machine overloaded: "
                                     f"the test may simply have run into its own timeout)")
        else:
            ctx.witness(
                f"later-result-lost:{kind}:{timing}",
                f"{e['kind']} executed after a timed-out {kind} loop came back with timeout=True and an empty trace in {lost_n[i]}/3 repetitions: "
                f"the abandoned thread woke up later and stopped the tracer of the running test",
                {"schedule": descr, "delay_in_check": delay, "config": list(cfg), "position": i, "test": e["lines"]},
            )


def _pad(lines, cfg):
    """Cheap leading statements so that per_statement * size >= max (budget at the maximum) and size >= 5."""
    if cfg[0] == cfg[1]:
        return list(lines)
    pad = [f"pad_{i} = {i}" for i in range(max(0, PAD - len(lines)))]
    return pad + list(lines)


def _mk_schedule(spec_list, rng, cfg):
    """spec_list: list of kinds ('t_*' or loop kinds, optionally (kind, sleep seconds)) -> schedule entries."""
    from vlib import exech as H

    sched = []
    for item in spec_list:
        kind, forced = (item, None) if isinstance(item, str) else item
        if kind.startswith("t_"):
            lines = _pad(T_TESTS[kind], cfg)
            sched.append({"loop": False, "kind": kind, "lines": lines, "test": H.mk_test(lines), "param": ""})
        else:
            if forced is not None:
                lines, param = [f"var_0 = {A}.l_sleep({forced})"], f"sleep({forced})"
            else:
                lines, param = _loop_lines(kind, rng)
            sleep = float(param[6:-1]) if param.startswith("sleep(") else 0.0
            lines = _pad(lines, cfg)
            sched.append({"loop": True, "kind": kind, "lines": lines, "test": H.mk_test(lines), "param": param, "sleep": sleep})
    return sched


# (kinds, injected delay, config index)
DIRECTED = [
    (["t_small", "busy", "t_classify", "t_small", "sleep-short", "t_raise", "t_slow", "c-call", "t_classify", "t_small", "nested", "t_raise"], 0.0, 0),
    (["busy", "t_small", "t_slow", "sleep-short", "t_classify", "c-call", "t_raise", "finally-raise", "t_small", "t_classify", "busy", "busy", "t_slow"], 0.2, 0),
    (["sleep-long", "t_slow", "t_small", "t_classify", "t_slow", "swallow", "t_small", "t_raise", "finally-raise", "t_classify"], 0.0, 0),
    (["c-call", "t_slow", "t_small", "busy", "t_slow", "t_classify", "nested", "t_slow", "t_raise", "sleep-short", "t_slow", "t_small"], 0.6, 0),
    # abandoned thread blocked LONGER than the second join: sleep in progress ends 0.6 s after execute() returned, while t_long runs
    ([("sleep-long", 2.3), "t_long", "t_small", "t_classify", ("sleep-long", 2.3), "t_long", "t_raise", "t_small"], 0.0, 0),
    (["busy", "t_long", "t_small", "t_raise", "c-call", "t_long", "t_classify", "t_small"], 1.3, 0),
    # blocked SHORTER than the second join, asleep at the moment of the timeout, >= 8 statements, budget at the maximum, max != per
    ([("sleep-short", 0.3), "t_slow", ("sleep-short", 0.45), "t_slow", "t_small", ("sleep-short", 0.6), "t_slow", ("sleep-short", 0.35), "t_long",
      ("sleep-short", 0.55), "t_slow", "t_raise"], 0.0, 1),
    ([("sleep-short", 0.6), "t_slow", ("sleep-short", 0.25), "t_slow", "t_classify", ("sleep-short", 0.45), "t_long", "busy", "t_slow",
      ("sleep-short", 0.35), "t_slow"], 0.0, 2),
    ([("sleep-short", 0.45), "t_slow", "c-call", "t_slow", ("sleep-short", 0.6), "t_slow", "nested", "t_long", ("sleep-short", 0.3), "t_slow"], 0.2, 1),
    # a loop over already covered lines only: the abandoned thread must die at its next line event (within one sleep period), not
    # when it reaches something new seconds later, while later tests are running
    (["lines-only", "t_long", "t_long", "t_long", "t_long", "t_long", "t_long", "t_small", "t_classify"], 0.0, 0),
    (["t_small", "lines-only", "t_slow", "t_long", "t_long", "t_long", "t_long", "t_long", "t_raise"], 0.0, 0),
]


def run_chunk(spec, ctx):
    from vlib import exech as H

    sp, _, _ = H.setup_sut(ctx.scratch, MOD, SUT, seed=spec.get("seed", 0))
    _install_check_delay()
    # stand-alone results first (fresh process, no looping test has run yet); two equal runs required
    base = {}
    import_lines = sorted(sp.lineids_to_linenos(sp.instrumentation_tracer.import_trace.covered_line_ids))

    def alone(t):
        # the stand-alone result is not about timeouts: generous budget, so that a loaded machine does not spoil it
        return H.summarize(_executor(sp, (20, 20)).execute(t), sp, assertions=False, verification=False)

    for kind, lines in T_TESTS.items():
        t = H.mk_test(lines)
        for _attempt in range(3):
            s1, s2 = alone(t), alone(t)
            if s1 == s2 and not s1["timeout"]:
                break
        else:
            ctx.inconclusive_because(f"stand-alone result of {kind} is not stable / timed out (loaded machine?): {H.diff_keys(s1, s2)}")
            return
        base[kind] = {"summary": s1, "import_lines": import_lines}
    calib_test = H.mk_test(T_TESTS["t_small"])
    cal0 = _calibrate(sp, calib_test)
    ctx.extra.setdefault("calibration_trivial_execution_s", []).append(round(cal0, 3))

    if spec["name"] == "directed":
        kinds, delay, ci = DIRECTED[spec["variant"]]
        rng = random.Random(32 + spec["variant"])
        todo = [(kinds, delay, CONFIGS[ci])]
    else:
        rng = random.Random(spec["seed"] * 1000003 + spec["part"] * 131 + 32)
        todo = []
        for _ in range(spec["n"]):
            cfg = rng.choice(CONFIGS)
            n = rng.randint(6, 11)
            kinds = []
            for _i in range(n):
                if rng.random() < 0.33:
                    k = rng.choices(LOOP_KINDS, weights=[5, 5, 5, 1, 0.5, 2, 2, 0])[0]
                    if k == "sleep-short" and cfg[0] >= 2 and rng.random() < 0.6:
                        k = ("sleep-short", rng.choice([0.25, 0.3, 0.4, 0.5, 0.6]))
                    kinds.append(k)
                else:
                    kinds.append(rng.choice(["t_classify", "t_small", "t_raise", "t_slow", "t_slow", "t_long"]))
            if not any(not (isinstance(k, str) and k.startswith("t_")) for k in kinds):
                kinds.insert(rng.randrange(len(kinds)), "busy")
            if kinds.count("swallow") > 1:
                kinds = [k for i, k in enumerate(kinds) if k != "swallow" or i == kinds.index("swallow")]
            if all(not (isinstance(k, str) and k.startswith("t_")) for k in kinds[-2:]):
                kinds.append("t_slow")
            # the injected delay is kept well on one side of the second join (= max timeout): <= 0.6 * max, or >= 1.5 * max
            delay = rng.choice([d for d in DELAYS if d <= 0.6 * cfg[0] or d >= 1.5 * cfg[0]])
            todo.append((kinds, delay, cfg))
    for kinds, delay, cfg in todo:
        sched = _mk_schedule(kinds, rng, cfg)
        descr = [f"{e['kind']}[{e['param']}]" if e["loop"] else e["kind"] for e in sched]
        records = _run_schedule(sp, sched, delay, cfg)
        _judge(ctx, sp, sched, delay, cfg, base, records, calib_test, descr)
        ctx.ok(0, distinct=[descr, delay, list(cfg)])
        if len(ctx.samples) < 2:
            ctx.sample({"schedule": descr, "delay_in_check": delay, "config": list(cfg),
                        "wall_s": [round(dt, 2) for _e, dt, _s in records],
                        "timeout_flags": [s.get("timeout") for _e, _dt, s in records]})
    ctx.extra["check_calls"] = CHECK_CALLS[0]
    ctx.extra["check_calls_delayed"] = CHECK_CALLS[1]
    if CHECK_CALLS[0] == 0:
        ctx.inconclusive_because("wrapper around ExecutionTracer.check saw no call")
