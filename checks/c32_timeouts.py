"""C32 — non-terminating tests time out without polluting later executions.

Fault enumeration over schedules: interleavings of looping test cases (busy loop, loop with time.sleep, loop around a
C call, loop that swallows BaseException, loop that raises from ``finally``) and terminating ones, executed by one
unmodified ``TestCaseExecutor`` with a 1 s timeout, while a wrapper around ``ExecutionTracer.check`` (installed from
the harness) delays abandoned threads by a chosen amount so that they notice the abort earlier or later.

Oracles (exactly the two clauses of the statement):
* every looping test is reported ``timeout=True`` and ``execute`` returns within bound*3 + 2 s (an overrun is re-tried
  twice; only a reproduced overrun on a machine that is not overloaded is a witness);
* for every terminating test executed after a looping one: lines / (predicate, outcome) pairs / (position, exception
  type) pairs / code objects of its result minus those of its stand-alone result must be empty.

A later test that *loses* its result (timeout=True, nothing covered) because a woken-up abandoned thread stopped the
tracer is counted as anomaly ``later_result_lost`` — the statement forbids adding, not removing.
"""

from __future__ import annotations

import random
import time

ID = "C32"
LEVEL = "fault_enumeration"
IN_PROCESS = False
CHUNK_TIMEOUT = 900
BOUND = 1  # seconds, maximum_test_execution_timeout
GRACE_LIMIT = BOUND * 3 + 2
RULE = (
    "schedules = sequences of terminating tests and looping tests (busy / sleep 0.05-0.3 s / sleep longer than the second join / "
    "repeated C call / BaseException-swallowing loop / raise-from-finally loop) run by one TestCaseExecutor with timeout 1 s, "
    "crossed with a delay (0-1.5 s) injected into ExecutionTracer.check of abandoned threads; oracle: looping test => "
    "timeout=True within 3*bound+2 s (overruns re-tried twice), later terminating test => result minus stand-alone result is "
    "empty for lines, branch outcomes, exceptions, code objects; a schedule is distinct by (kinds, loop parameters, delay)"
)
ASSUMPTIONS = [
    "the stand-alone result is taken in the same fresh chunk process before any looping test ran (two equal runs required)",
    "a result with timeout=True and no coverage is a lost result (anomaly later_result_lost), not an addition",
    "an overrun that does not reproduce twice, or that happens while a trivial execution takes > 0.5 s, is load noise",
    "C calls are short (a few ms): a single long GIL-holding C call is outside 'loops in instrumented code'",
]

SUT = '''
import time


def helper(x):
    if x > 0:
        return 1
    return -1


def t_classify(a, b, c):
    if a <= 0 or b <= 0 or c <= 0:
        return "invalid"
    if a == b == c:
        return "equilateral"
    if a == b or b == c or a == c:
        return "isosceles"
    return "scalene"


def t_small(x):
    if helper(x) > 0:
        return "pos"
    return "neg"


def t_raise(x):
    if helper(x) > 0:
        raise ValueError("expected")
    return x


def t_slow(x):
    n = 0
    for _ in range(x):
        time.sleep(0.01)
        n += helper(1)
    return n


def l_busy(x):
    n = 0
    while True:
        n += helper(-1)
    return n


def l_sleep(d):
    n = 0
    while True:
        time.sleep(d)
        n += helper(-1)
    return n


def l_ccall(size):
    data = list(range(size, 0, -1))
    n = 0
    while True:
        sorted(data)
        n += helper(-1)
    return n


def l_swallow(x):
    n = 0
    while True:
        try:
            n += helper(-1)
            if n % 50 == 0:
                time.sleep(0.001)
        except BaseException:
            n = 0
    return n


def l_finally(x):
    n = 0
    try:
        while True:
            n += helper(-1)
    finally:
        raise RuntimeError("raised while unwinding")
    return n


def l_nested(x):
    while True:
        t_small(-1)
        t_classify(-1, 2, 3)
'''
MOD = "c32_sut"
A = MOD + "_"

T_TESTS = {
    "t_classify": [f"var_0 = {A}.t_classify(3, 4, 5)", f"var_1 = {A}.t_classify(2, 2, 3)"],
    "t_small": [f"var_0 = {A}.t_small(1)"],
    "t_raise": [f"var_0 = {A}.t_small(2)", f"var_1 = {A}.t_raise(1)"],
    "t_slow": [f"var_0 = {A}.t_slow(20)"],
}


def _loop_lines(kind, rng):
    """(lines, parameter description) for a looping test of the given kind."""
    if kind == "busy":
        return [f"var_0 = {A}.l_busy(1)"], "busy"
    if kind == "sleep-short":
        d = rng.choice([0.05, 0.1, 0.2, 0.3])
        return [f"var_0 = {A}.l_sleep({d})"], f"sleep({d})"
    if kind == "sleep-long":
        d = rng.choice([1.3, 1.8, 2.6])
        return [f"var_0 = {A}.l_sleep({d})"], f"sleep({d})"
    if kind == "c-call":
        n = rng.choice([2000, 20000, 100000])
        return [f"var_0 = {A}.l_ccall({n})"], f"sorted({n})"
    if kind == "swallow":
        return [f"var_0 = {A}.l_swallow(1)"], "swallow"
    if kind == "finally-raise":
        return [f"var_0 = {A}.l_finally(1)"], "finally-raise"
    if kind == "nested":
        return [f"var_0 = {A}.t_small(1)", f"var_1 = {A}.l_nested(1)"], "nested"
    raise AssertionError(kind)


LOOP_KINDS = ["busy", "sleep-short", "c-call", "sleep-long", "swallow", "finally-raise", "nested"]
DELAYS = [0.0, 0.0, 0.02, 0.2, 0.6, 1.5]


def floors(tier):
    k = 1 if tier == "quick" else 6
    return {
        "evals": 300 * k,
        "distinct": 30 * k,
        "classes": {
            "loop:busy": 15 * k, "loop:sleep-short": 15 * k, "loop:c-call": 15 * k, "loop:sleep-long": 4, "loop:swallow": 2,
            "loop:finally-raise": 4, "loop:nested": 4, "delay-injected": 30 * k, "later:compared": 130 * k,
            "later:after-delayed-abort": 40 * k,
        },
    }


def plan(tier, seed):
    out = [{"name": "directed", "variant": v} for v in range(len(DIRECTED))]
    parts = 10 if tier == "quick" else 16
    n = 5 if tier == "quick" else 40
    for p in range(parts):
        out.append({"name": "random", "seed": seed, "part": p, "n": n})
    return out


# ------------------------------------------------------------------------------- monitor / fault injection
DELAY = [0.0]
LOOPS_RAN = [0]
CHECK_CALLS = [0, 0]  # [calls, delayed calls]


def _install_check_delay():
    """Wrap ExecutionTracer.check: an abandoned thread (ident != current) sleeps DELAY[0] before it notices."""
    import threading

    from pynguin.instrumentation.tracer import ExecutionTracer

    if getattr(ExecutionTracer.check, "_c32", False):
        return
    orig = ExecutionTracer.check

    def check(self):
        CHECK_CALLS[0] += 1
        if DELAY[0] and threading.current_thread().ident != self._current_thread_identifier:
            CHECK_CALLS[1] += 1
            time.sleep(DELAY[0])
        return orig(self)

    check._c32 = True
    ExecutionTracer.check = check


def _facts(summary):
    return {
        "lines": set(summary["lines"]),
        "branches": {tuple(b) for b in summary["branches"]},
        "exceptions": set(summary["exc"].items()),
        "code-objects": set(summary["code_objects"]),
    }


def _executor(sp):
    from pynguin.testcase.execution import TestCaseExecutor

    return TestCaseExecutor(sp, maximum_test_execution_timeout=BOUND, test_execution_time_per_statement=BOUND)


def _run_schedule(sp, schedule, delay):
    """Execute the schedule with one executor. Returns list of (entry, wall seconds, summary | None)."""
    from vlib import exech as H

    DELAY[0] = delay
    ex = _executor(sp)
    out = []
    for entry in schedule:
        t0 = time.monotonic()
        try:
            res = ex.execute(entry["test"])
            summ = H.summarize(res, sp, assertions=False, verification=False)
        except Exception as e:  # noqa: BLE001
            summ = {"execute-raised": f"{type(e).__name__}: {e}"[:200]}
        out.append((entry, time.monotonic() - t0, summ))
    DELAY[0] = 0.0
    return out


def _calibrate(sp, test):
    """Wall time of a trivial execution now (load indicator)."""
    DELAY[0] = 0.0
    ex = _executor(sp)
    ts = []
    for _ in range(3):
        t0 = time.monotonic()
        ex.execute(test)
        ts.append(time.monotonic() - t0)
    return sorted(ts)[1]


def _judge(ctx, sp, schedule, delay, base, records, calib_test, descr, allow_retry=True):
    loops_before = []
    for idx, (entry, dt, summ) in enumerate(records):
        case = {"schedule": descr, "delay_in_check": delay, "position": idx, "test": entry["lines"]}
        if "execute-raised" in summ:
            ctx.witness(f"execute-raises:{summ['execute-raised'].split(':')[0]}:after-{'+'.join(sorted(set(loops_before))) or 'nothing'}",
                        f"TestCaseExecutor.execute raised {summ['execute-raised']}", case)
            continue
        if entry["loop"]:
            kind = entry["kind"]
            cls = [f"loop:{kind}"] + (["delay-injected"] if delay else [])
            ctx.ok(cls=cls)
            if not summ["timeout"]:
                ctx.witness(f"loop-not-flagged-as-timeout:{kind}", f"looping test ({entry['param']}) returned timeout=False after {dt:.2f}s", dict(case, result=summ))
            elif dt > GRACE_LIMIT:
                entry.setdefault("overruns", []).append(round(dt, 2))
            loops_before.append(kind)
            LOOPS_RAN[0] += 1
            continue
        # terminating test
        if not loops_before:
            ctx.ok(cls="terminating-before-any-loop")
        b = base[entry["kind"]]
        if summ["timeout"] and set(summ["lines"]) <= set(b["import_lines"]):
            if loops_before or LOOPS_RAN[0]:
                ctx.anomaly("later_result_lost")  # (possibly by a loop of an earlier schedule in this process)
            else:
                ctx.anomaly("terminating-test-timed-out-without-loop-before")
            continue
        got, alone = _facts(summ), _facts(b["summary"])
        if loops_before:
            ctx.ok(cls=["later:compared"] + (["later:after-delayed-abort"] if delay else []))
        if summ["timeout"]:
            ctx.anomaly("later_timeout_with_partial_trace")
        for comp in ("lines", "branches", "exceptions", "code-objects"):
            added = got[comp] - alone[comp]
            if added:
                ctx.witness(
                    f"added-{comp}:after-{loops_before[-1] if loops_before else 'no-loop'}",
                    f"{entry['kind']} executed after {loops_before} has {comp} its stand-alone execution does not have: {sorted(added)[:10]}",
                    dict(case, alone=b["summary"], later=summ),
                )
            missing = alone[comp] - got[comp]
            if missing and not summ["timeout"]:
                ctx.anomaly(f"later_result_missing_{comp}")
    # overruns: re-try twice
    over = [(i, e) for i, (e, _dt, _s) in enumerate(records) if e.get("overruns")]
    if over and allow_retry:
        reproduced = {i: 1 for i, _ in over}
        for _ in range(2):
            again = _run_schedule(sp, schedule, delay)
            for i, _e in over:
                if again[i][1] > GRACE_LIMIT:
                    reproduced[i] += 1
        cal = _calibrate(sp, calib_test)
        for i, e in over:
            if reproduced[i] < 3:
                ctx.anomaly("timeout-overrun-not-reproduced")
            elif cal > 0.5:
                ctx.anomaly("timeout-overrun-on-overloaded-machine")
                ctx.inconclusive_because(f"timeout overrun for loop {e['kind']} reproduced, but a trivial execution takes {cal:.2f}s (machine overloaded)")
            else:
                ctx.witness(f"timeout-overrun:{e['kind']}",
                            f"looping test ({e['param']}) reported its timeout only after {e['overruns']}s (> {GRACE_LIMIT}s), reproduced 3/3 times",
                            {"schedule": descr, "delay_in_check": delay, "position": i, "test": e["lines"]})


def _mk_schedule(spec_list, rng):
    """spec_list: list of kinds ('t_*' or loop kinds) -> schedule entries with fresh TestCase objects."""
    from vlib import exech as H

    sched = []
    for kind in spec_list:
        if kind.startswith("t_"):
            lines = T_TESTS[kind]
            sched.append({"loop": False, "kind": kind, "lines": lines, "test": H.mk_test(lines), "param": ""})
        else:
            lines, param = _loop_lines(kind, rng)
            sched.append({"loop": True, "kind": kind, "lines": lines, "test": H.mk_test(lines), "param": param})
    return sched


DIRECTED = [
    (["t_small", "busy", "t_classify", "t_small", "sleep-short", "t_raise", "t_slow", "c-call", "t_classify", "t_small", "nested", "t_raise"], 0.0),
    (["busy", "t_small", "t_slow", "sleep-short", "t_classify", "c-call", "t_raise", "finally-raise", "t_small", "t_classify", "busy", "busy", "t_slow"], 0.2),
    (["sleep-long", "t_slow", "t_small", "t_classify", "t_slow", "swallow", "t_small", "t_raise", "finally-raise", "t_classify"], 0.0),
    (["c-call", "t_slow", "t_small", "busy", "t_slow", "t_classify", "nested", "t_slow", "t_raise", "sleep-short", "t_slow", "t_small"], 0.6),
    (["sleep-long", "t_small", "sleep-long", "t_slow", "t_classify", "swallow", "t_raise", "sleep-long", "t_slow", "t_small", "nested", "t_classify"], 0.0),
    (["busy", "t_slow", "t_small", "c-call", "t_slow", "t_raise", "sleep-short", "t_slow", "t_classify", "finally-raise", "t_slow"], 1.5),
]


def run_chunk(spec, ctx):
    from vlib import exech as H

    sp, _, _ = H.setup_sut(ctx.scratch, MOD, SUT, seed=spec.get("seed", 0))
    _install_check_delay()
    # stand-alone results first (fresh process, no looping test has run yet); two equal runs required
    base = {}
    import_lines = sorted(sp.lineids_to_linenos(sp.instrumentation_tracer.import_trace.covered_line_ids))
    from pynguin.testcase.execution import TestCaseExecutor

    def alone(t):
        # the stand-alone result is not about timeouts: generous budget, so that a loaded machine does not spoil it
        ex = TestCaseExecutor(sp, maximum_test_execution_timeout=20, test_execution_time_per_statement=20)
        return H.summarize(ex.execute(t), sp, assertions=False, verification=False)

    for kind, lines in T_TESTS.items():
        t = H.mk_test(lines)
        for attempt in range(3):
            s1, s2 = alone(t), alone(t)
            if s1 == s2 and not s1["timeout"]:
                break
        else:
            ctx.inconclusive_because(f"stand-alone result of {kind} is not stable / timed out (loaded machine?): {H.diff_keys(s1, s2)}")
            return
        base[kind] = {"summary": s1, "import_lines": import_lines}
    calib_test = H.mk_test(T_TESTS["t_small"])
    cal0 = _calibrate(sp, calib_test)
    ctx.extra.setdefault("calibration_trivial_execution_s", []).append(round(cal0, 3))

    if spec["name"] == "directed":
        kinds, delay = DIRECTED[spec["variant"]]
        rng = random.Random(32 + spec["variant"])
        todo = [(kinds, delay)]
    else:
        rng = random.Random(spec["seed"] * 1000003 + spec["part"] * 131 + 32)
        todo = []
        for _ in range(spec["n"]):
            n = rng.randint(6, 11)
            kinds = []
            for i in range(n):
                if rng.random() < 0.33:
                    kinds.append(rng.choices(LOOP_KINDS, weights=[5, 5, 5, 1, 0.5, 2, 2])[0])
                else:
                    kinds.append(rng.choice(list(T_TESTS)))
            if not any(not k.startswith("t_") for k in kinds):
                kinds.insert(rng.randrange(len(kinds)), "busy")
            if kinds.count("swallow") > 1:
                kinds = [k for i, k in enumerate(kinds) if k != "swallow" or i == kinds.index("swallow")]
            if all(not k.startswith("t_") for k in kinds[-2:]):
                kinds.append("t_small")
            todo.append((kinds, rng.choice(DELAYS)))
    for kinds, delay in todo:
        sched = _mk_schedule(kinds, rng)
        descr = [f"{e['kind']}[{e['param']}]" if e["loop"] else e["kind"] for e in sched]
        records = _run_schedule(sp, sched, delay)
        _judge(ctx, sp, sched, delay, base, records, calib_test, descr)
        ctx.ok(0, distinct=[descr, delay])
        if len(ctx.samples) < 2:
            ctx.sample({"schedule": descr, "delay_in_check": delay,
                        "wall_s": [round(dt, 2) for _e, dt, _s in records],
                        "timeout_flags": [s.get("timeout") for _e, _dt, s in records]})
    ctx.extra["check_calls"] = CHECK_CALLS[0]
    ctx.extra["check_calls_delayed"] = CHECK_CALLS[1]
    if CHECK_CALLS[0] == 0:
        ctx.inconclusive_because("wrapper around ExecutionTracer.check saw no call")
