"""C33 — worker crashes never hang Pynguin and restarts are bounded.

Shape: event log of the MASTER side (vlib/monitors/masterworker.py wraps RunningTask._start_worker / _restart /
_adjust_search_time_after_crash / get_result, MasterProcess.get_result and PynguinClient.run_pynguin in the process
that calls ``run_pynguin_with_master_worker``) + what the workers themselves recorded on disk, judged offline.

Two workloads, one oracle:

(a) real pipelines (``vlib.pyndriver.run_pipeline`` with ``master_worker: true``) with the repository's crash hook
    (``SE2P_PYNGUIN_VERIF_CRASH=<phase>:<n>``: the first n processes reaching <phase> die with ``os._exit(70)``) at each
    of the 9 phase boundaries x n in {1, 2, 99 (= always)} x three budget kinds: search time only (6 s), search time
    plus an iteration cap (20 s, 120 s where the crash count is finite / 2 iterations: the worker reaches the late phases while search time remains, so
    deaths in assertions / minimize / export / done are restartable), iterations only (maximum_search_time = -1).
(b) scripted fault sequences on the real master: a child of this file (``--scripted spec out``) replaces
    ``pynguin.master_worker.master.worker_main`` by a stub that follows, per start index, one step of a script
    (die immediately, die after a delay, close the pipe without sending, raise, kill itself with SIGKILL, die in the
    middle of a message, send an OK result, send an error result, send and die, or run the REAL ``worker_main`` around
    a stubbed ``run_pynguin`` that returns / raises / exits / raises KeyboardInterrupt / SystemExit; ``hang`` only as
    last step) and runs the real ``run_pynguin_with_master_worker`` with ``maximum_search_time`` in {-1, 0, 1, 2, 3, 5}.
    ALL sequences of length <= 4 over 4 dying and 3 sending steps are enumerated (595), the 340 all-dying ones again
    with "the last fault repeats for ever", all sequences of length <= 2 under every other time value, plus sampled
    longer sequences over the full alphabet, plus 95 sequences with a generous search time (60 s: all dying prefixes of
    length <= 2 before each delivering step, every 8th of length 4 before send-ok) whose success after restarts does not
    depend on how fast the machine lets a worker die.

Oracle (exactly the clauses of the statement):
* the command returns: the driver came back before the watchdog (a firing watchdog is re-tried once with a larger
  bound to rule out machine load; reproduced => witness ``no-return:<phase | scripted:step>``);
* every start with index >= 1 (a restart) has 0 < maximum_search_time < the previous start's maximum_search_time
  (``restart:without-search-time``, ``restart:search-time-not-reduced``), and happens while the wall-clock life time of
  the dead workers (master's _start_time .. entry of _restart) is within the original budget (+0.5 s;
  ``restart:after-wall-clock-budget-exhausted``);
* the client returns ReturnCode.OK only if some worker delivered an OK result: real runs - a pid of phases.log reached
  ``done`` and is not in crashes.log; scripted runs - the stub logged ``sent`` (``ok-without-worker-result``).
A hung (not dead) worker blocks ``recv`` for ever - outside the statement, counted as anomaly; a delivered result
that is not reported as OK is an anomaly too (``non-ok-although-worker-delivered``).
"""

from __future__ import annotations

import itertools
import json
import os
import random
import signal
import subprocess
import sys
import time

from concurrent.futures import ThreadPoolExecutor
from pathlib import Path

ID = "C33"
LEVEL = "fault_enumeration"
IN_PROCESS = False
CHUNK_TIMEOUT = 2400
RULE = (
    "(a) real master-worker pipelines (fresh interpreter each, 9 SUT modules, 5 algorithms) with the repository crash hook at each of 9 "
    "phase boundaries x n in {1,2,always} x budget kind {search time 6-10 s, search time 20-120 s + iteration cap, iterations only}; "
    "(b) the real RunningTask/MasterProcess/PynguinClient with worker_main replaced by a scripted stub: ALL fault sequences of length <= 4 "
    "over {die, die-after-delay, close-pipe, raise} x {send-ok, send-error, send-then-die} under maximum_search_time 5, the all-dying ones "
    "also with the last fault repeating for ever (T=3), all sequences of length <= 2 under T in {-1,0,1,2,3}, sampled longer ones over 16 step "
    "kinds (SIGKILL, truncated message, real worker_main around a stubbed run_pynguin, hang), 95 sequences of <= 4 deaths before a delivered "
    "result under maximum_search_time 60 (success after restarts independent of machine load); oracle = offline checker over the master's "
    "event log (monitor on _start_worker/_restart/_adjust_search_time_after_crash/get_result/run_pynguin) plus phases.log/crashes.log resp. "
    "the stub's own log: command returned before the watchdog (re-tried once), every restart has 0 < maximum_search_time < previous and lies "
    "inside the original wall-clock budget, OK only if a worker reached 'done' uncrashed / sent an OK result; distinct = (phase, n, budget, "
    "module, algorithm, seed) with at least one injected crash, resp. (script, fallback, T, delays) with the first step reached"
)
ASSUMPTIONS = [
    "the monitor wrappers in the driver process only read (configuration.stopping.maximum_search_time, configuration.subprocess, "
    "the WorkerResult and the ReturnCode); worker processes are forked, so they inherit the environment, the crash hook and the stub",
    "a worker 'delivered a result' = (real) its pid wrote 'done' to phases.log and is not listed in crashes.log, (scripted) the stub wrote "
    "'sent' after Connection.send returned; the hook's phases.log/crashes.log are trusted",
    "'search time remains' is read off the code's own account (maximum_search_time of the task at the restart must be > 0) and cross-checked "
    "against the summed wall-clock life time of the dead workers (master's _start_time to entry of _restart) with 0.5 s slack",
    "the watchdog (real: 300 s, retry 900 s, and then only if the workers wrote nothing to phases.log for 120 s or more workers were started "
    "than the budget has seconds; scripted: T + 30 s per sequence, retry x3) stands in for 'does not return'; a timeout that does not "
    "reproduce is counted as anomaly watchdog-not-reproduced",
    "a worker that hangs without dying blocks get_result for ever (no timeout in the master): the statement quantifies over worker deaths, "
    "so this is recorded as anomaly master-blocks-on-hung-worker, not as a violation",
    "a result that was delivered but is not reported as OK (success lost) is not forbidden by the statement: anomaly only",
    "real pipelines run with search_algorithm.population=4 (the forced subprocess mode after the first crash costs ~0.3 s per execution) "
    "and mostly with test-case minimisation NONE; the 'minimize' phase boundary is reached regardless",
]

PY = "/venv/bin/python"
VERIF = Path(__file__).resolve().parent.parent

PHASES = ["import", "cluster", "search-start", "search-iteration", "search-done", "assertions", "minimize", "export", "done"]
NS = [1, 2, 99]
BUDGETS = {
    "time": {"maximum_search_time": 6},
    "time+iter": {"maximum_search_time": 20, "maximum_iterations": 2},
    "iter": {"maximum_iterations": 3},
}
MONITOR = "vlib.monitors.masterworker"

# scripted alphabet ------------------------------------------------------------------------------
DYING = ["die0", "die-delay", "close", "raise"]
SENDING = ["send-ok", "send-err", "send-die"]
EXTRA_DYING = ["sigkill", "partial-die", "close-linger", "die-orphan", "orphan-hang", "orphan-hang-exit0", "orphan-hang-return", "real-die", "real-kbd",
               "real-sysexit"]
HANGS = ["hang"]
EXTRA_SENDING = ["send-nogen", "real-ok", "real-raise"]
TERMINAL = set(SENDING) | set(EXTRA_SENDING)
DELIVERS_OK = {"send-ok", "send-die", "real-ok"}
ALL_STEPS = DYING + SENDING + EXTRA_DYING + EXTRA_SENDING + HANGS
TIMES = [-1, 0, 1, 2, 3, 5]
ROBUST_T = 60  # search time of the load-independent success-after-restart cases


# =================================================================================================
# plan / floors
# =================================================================================================
def floors(tier):
    k = 1 if tier == "quick" else 5
    first_ok, robust = guaranteed_ok_delivered(scripted_directed_cases(tier == "quick"))
    classes = {
        # (the restart-dependent floors are low on purpose: on a loaded machine a worker needs longer to die, so fewer
        #  restarts fit into the same wall-clock budget)
        "real:restarted": 8 if tier == "quick" else 36,
        "real:restart-refused:no-search-time": 8 if tier == "quick" else 20,
        "real:restart-refused:time-exhausted": 6 if tier == "quick" else 10,
        "real:ok-after-restart": 4 if tier == "quick" else 6,
        "real:all-started-workers-crashed": 12 if tier == "quick" else 20,
        "real:restart-in-late-phase": 2,
        "scripted:enumerated-len<=4": 211 if tier == "quick" else 595,
        "scripted:all-dying-repeat-forever": 84 if tier == "quick" else 340,
        "scripted:sampled-longer": 40 * k,
        "scripted:restart-rule": 400 if tier == "quick" else 1200,
        # no higher than what the plan guarantees at any machine load (see scripted_directed_cases): the cases whose first
        # worker delivers plus three quarters of the generous-search-time ones; the T = 5 sequences add to it on an idle machine
        "scripted:ok-delivered": first_ok + (3 * robust) // 4,
        "scripted:robust-ok-after-restart": (3 * (robust - len(DELIVERS_OK))) // 4,
        "scripted:nonok-nothing-delivered": 300,
        "scripted:restarts=4": 20,
        "scripted:hang": 2,
    }
    q = tier == "quick"
    for p in PHASES:
        classes[f"real:phase={p}"] = 3 if q else 9
    for n in NS:
        classes[f"real:n={n}"] = 9 if q else 27
    for b in BUDGETS:
        classes[f"real:budget={b}"] = 9 if q else 27
    for c in real_directed_cases(q):
        classes[f"real:{c['phase']}:n{c['n']}:{c['budget_kind']}"] = 1
    for t in TIMES:
        classes[f"scripted:T={t}"] = 30
    classes[f"scripted:T={ROBUST_T}"] = (3 * robust) // 4
    for s in ALL_STEPS:
        classes[f"scripted:step-reached={s}"] = 2 if s in HANGS else 5
    if tier == "quick":
        return {"evals": 1500, "distinct": 600, "classes": classes}
    return {"evals": 3000 + 1500 * (k - 1), "distinct": 1100 + 500 * (k - 1), "classes": classes}


def _real_cost(case):
    """Rough relative cost used to balance chunks."""
    b, n, p = case["budget_kind"], case["n"], PHASES.index(case["phase"])
    if b == "iter":
        return 3
    if b == "time":
        return 9
    return 8 + (10 if n == 99 and p >= 4 else (5 if n == 2 and p >= 4 else 0))


def real_directed_cases(quick=False):
    cases = []
    kinds = list(BUDGETS)
    for b in BUDGETS:
        for pi, p in enumerate(PHASES):
            for ni, n in enumerate(NS):
                if quick and kinds[(pi + ni) % len(kinds)] != b:
                    continue  # quick tier: a Latin square - every (phase, n), every (phase, budget kind) and every (n, budget kind) once
                budget = dict(BUDGETS[b])
                if b == "time+iter" and n != 99:
                    budget["maximum_search_time"] = 120  # far more than the run needs (the iteration cap ends the search): a restart in a late phase must find search time left however loaded the machine is
                cases.append({"phase": p, "n": n, "budget_kind": b, "budget": budget, "module": "tri",
                              "algorithm": "DYNAMOSA", "seed": 11, "assertion_generation": "NONE", "minimize": False})
    return cases


def real_random_cases(seed, count):
    from vlib import sut_corpus

    rng = random.Random(seed * 1_000_003 + 3301)
    cases = []
    for i in range(count):
        b = rng.choice(list(BUDGETS))
        budget = dict(BUDGETS[b])
        if b == "time":
            budget["maximum_search_time"] = rng.randint(6, 10)
        elif b == "time+iter":
            budget["maximum_search_time"] = rng.choice([12, 16, 20, 25])
            budget["maximum_iterations"] = rng.randint(1, 4)
        else:
            budget = rng.choice([{"maximum_iterations": rng.randint(1, 5)}, {"maximum_test_executions": rng.randint(10, 60)},
                                 {"maximum_statement_executions": rng.randint(50, 400)}])
        cases.append({"phase": rng.choice(PHASES), "n": rng.choice(NS + [3]), "budget_kind": b, "budget": budget,
                      "module": rng.choice(sut_corpus.ALL), "algorithm": rng.choice(["DYNAMOSA", "MOSA", "MIO", "WHOLE_SUITE", "RANDOM"]),
                      "seed": rng.randrange(1 << 16), "assertion_generation": rng.choice(["NONE", "NONE", "SIMPLE", "MUTATION_ANALYSIS"]),
                      "minimize": rng.random() < 0.3})
    return cases


def _balance(cases, nchunks):
    chunks = [[] for _ in range(nchunks)]
    load = [0] * nchunks
    for c in sorted(cases, key=_real_cost, reverse=True):
        i = load.index(min(load))
        chunks[i].append(c)
        load[i] += _real_cost(c)
    return [c for c in chunks if c]


def enumerated_sequences(maxlen):
    """All sequences: a (possibly empty) prefix of dying steps followed by one dying or sending step."""
    out = []
    for k in range(1, maxlen + 1):
        for prefix in itertools.product(DYING, repeat=k - 1):
            for last in DYING + SENDING:
                out.append(list(prefix) + [last])
    return out


def scripted_directed_cases(quick=False):
    cases = []
    seqs = enumerated_sequences(4)  # 595
    if quick:
        # quick tier: all sequences of length <= 3 (147) and every 7th of length 4 (64); the thorough tier runs all 595
        seqs = [q for q in seqs if len(q) <= 3] + [q for q in seqs if len(q) == 4][::7]
    for s in seqs:
        cases.append({"script": s, "then": "send-ok", "T": 5, "delay": 0.3, "tag": "enum4"})
    for k in range(1, 4 if quick else 5):  # 340 (quick tier: lengths <= 3 = 84; each of these runs until its search time is used up)
        for s in itertools.product(DYING, repeat=k):
            cases.append({"script": list(s), "then": "repeat", "T": 3, "delay": 0.3, "tag": "repeat"})
    for t in (-1, 0, 1, 2, 3):  # 5 x 35
        for s in enumerated_sequences(2):
            cases.append({"script": s, "then": "send-ok", "T": t, "delay": 0.3, "tag": "enum2"})
    # every extra step kind, first and after a restart, healthy worker afterwards / fault repeating
    for st in EXTRA_DYING + EXTRA_SENDING:
        for t in (-1, 2, 5):
            cases.append({"script": [st], "then": "send-ok", "T": t, "delay": 0.3, "tag": "extra"})
            cases.append({"script": ["die0", st], "then": "send-err", "T": t, "delay": 0.3, "tag": "extra"})
        if st in EXTRA_DYING:
            cases.append({"script": [st], "then": "repeat", "T": 3, "delay": 0.3, "tag": "extra"})
    for h in HANGS:
        for t in (30, -1):  # 30: the restart that leads to the hang step must fit even on a very loaded machine
            cases.append({"script": ["die0", h] if t > 0 else [h], "then": "send-ok", "T": t, "delay": 0.3, "tag": "hang"})
    # success after restarts with search time to spare: under T = 5 a sequence of four deaths ends in a delivered result only
    # if every worker dies within a second of its start (each restart costs at least one whole second), which a loaded
    # machine does not grant.  With T = 60 the same sequences reach their delivering step at any realistic load, so the
    # "OK and delivered" side of the oracle and the restart rule over 4 restarts are observed however slow the machine is.
    for k in range(3):
        for prefix in itertools.product(DYING, repeat=k):
            for last in sorted(DELIVERS_OK):
                cases.append({"script": list(prefix) + [last], "then": "send-ok", "T": ROBUST_T, "delay": 0.3, "tag": "robust"})
    for prefix in list(itertools.product(DYING, repeat=4))[::8]:
        cases.append({"script": list(prefix), "then": "send-ok", "T": ROBUST_T, "delay": 0.3, "tag": "robust"})
    return cases


def guaranteed_ok_delivered(cases):
    """Cases of the plan that end in a delivered OK result independently of machine load: the first worker delivers, or the
    search time is generous (tag robust).  (first-worker cases, robust cases)"""
    first = sum(1 for c in cases if c["tag"] != "robust" and c["script"][0] in DELIVERS_OK)
    return first, sum(1 for c in cases if c["tag"] == "robust")


def scripted_random_cases(seed, count):
    rng = random.Random(seed * 7_919 + 33)
    cases = []
    dying = DYING + EXTRA_DYING
    sending = SENDING + EXTRA_SENDING
    for _ in range(count):
        k = rng.randint(5, 8)
        script = [rng.choice(dying) for _ in range(k)]
        if rng.random() < 0.5:
            script[rng.randrange(2, k)] = rng.choice(sending)
        cases.append({"script": script, "then": rng.choice(["send-ok", "send-err", "repeat", "send-nogen"]),
                      "T": rng.choice([5, 5, 6, 8, 10, 3]), "delay": rng.choice([0.3, 0.5, 0.8, 1.2]), "tag": "long"})
    return cases


def scripted_thorough_cases(seed):
    rng = random.Random(seed * 104_729 + 5)
    cases = []
    for s in enumerated_sequences(4):
        for t in (3, 5):
            cases.append({"script": s, "then": rng.choice(["send-ok", "send-err", "send-nogen"]), "T": t,
                          "delay": rng.choice([0.3, 0.45, 0.6, 0.9, 1.2]), "tag": "enum4-var"})
    for s in enumerated_sequences(3):
        for t in (-1, 0, 1, 2):
            cases.append({"script": s, "then": "send-ok", "T": t, "delay": rng.choice([0.3, 0.7, 1.1]), "tag": "enum3-var"})
    for k in range(1, 5):
        for s in itertools.product(DYING, repeat=k):
            cases.append({"script": list(s), "then": "repeat", "T": 5, "delay": rng.choice([0.3, 0.6, 1.2]), "tag": "repeat-var"})
    return cases


def plan(tier, seed):
    quick = tier == "quick"
    specs = []
    nsd = 4
    for i in range(nsd):
        specs.append({"name": "scripted-directed", "part": i, "of": nsd, "quick": quick})
    real = real_directed_cases(quick)
    for i, chunk in enumerate(_balance(real, 12)):
        specs.append({"name": "real-directed", "part": i, "cases": chunk})
    if quick:
        specs.append({"name": "scripted-random", "seed": seed, "part": 0, "count": 120})
        for i, chunk in enumerate(_balance(real_random_cases(seed, 12), 2)):
            specs.append({"name": "real-random", "part": i, "cases": chunk})
    else:
        for i in range(4):
            specs.append({"name": "scripted-random", "seed": seed * 31 + i + 1, "part": i, "count": 150})
        for i in range(8):
            specs.append({"name": "scripted-thorough", "seed": seed, "part": i, "of": 8})
        # the directed cross product again on other modules / algorithms / seeds, plus free random cases
        rng = random.Random(seed * 613 + 77)
        from vlib import sut_corpus

        more = []
        for rep in range(2):
            for c in real_directed_cases():
                c = dict(c)
                c["module"] = rng.choice(sut_corpus.ALL)
                c["algorithm"] = rng.choice(["DYNAMOSA", "MOSA", "MIO", "WHOLE_SUITE", "RANDOM"])
                c["seed"] = rng.randrange(1 << 16)
                c["assertion_generation"] = rng.choice(["NONE", "SIMPLE"])
                if c["budget_kind"] == "time":
                    c["budget"] = {"maximum_search_time": rng.randint(6, 10)}
                more.append(c)
        more += real_random_cases(seed + 17, 40)
        for i, chunk in enumerate(_balance(more, 32)):
            specs.append({"name": "real-random", "part": i, "cases": chunk})
    return specs


# =================================================================================================
# offline oracle (shared)
# =================================================================================================
def check_protocol(ctx, kind, case, rec, label):
    """Rules over the master's event log.  rec: {"events", "rc", "timeout", "delivered_ok": bool, "delivered_any": bool}.

    Returns a small summary dict used for classes."""
    events = rec["events"]
    starts = [e for e in events if e.get("ev") == "start"]
    restarts = [e for e in events if e.get("ev") == "restart"]
    c = dict(case)
    c["workload"] = kind
    c["log"] = [{k: (round(v, 3) if isinstance(v, float) else v) for k, v in e.items()} for e in events
                if e.get("ev") in ("start", "restart", "adjust", "task-result", "client-return", "client-raised", "seeded-break")][:40]
    summary = {"starts": len(starts), "refused": [r for r in restarts if r.get("ret") is False]}

    # ---- each restart strictly reduces the remaining search time; restarts only while search time remains
    budget0 = starts[0]["mst"] if starts else None
    # worker time consumed before each start, on the wall clock: sum over the dead workers of (moment the master noticed the
    # death and entered _restart) - (the master's own _start_time of that worker); independent of the int() bookkeeping
    consumed_before: dict = {}
    consumed, last_start = 0.0, None
    for e in events:
        if e.get("ev") == "start":
            consumed_before[e["idx"]] = consumed
            last_start = e
        elif e.get("ev") == "restart" and last_start is not None:
            consumed += max(0.0, e["t"] - last_start.get("start_time", last_start["t"]))
            last_start = None
    flagged = set()
    for prev, cur in zip(starts, starts[1:]):
        ctx.ok(cls=f"{kind}:restart-rule")
        if cur["mst"] is None or cur["mst"] <= 0 or prev["mst"] <= 0:
            key = "restart:without-search-time"
            desc = f"worker #{cur['idx']} was started with maximum_search_time={cur['mst']} (previous start: {prev['mst']})"
        elif cur["mst"] >= prev["mst"]:
            key = "restart:search-time-not-reduced"
            desc = f"worker #{cur['idx']} was started with maximum_search_time={cur['mst']}, not smaller than the previous start's {prev['mst']}"
        elif budget0 is not None and budget0 > 0 and consumed_before.get(cur["idx"], 0.0) > budget0 + 0.5:
            key = "restart:after-wall-clock-budget-exhausted"
            desc = (f"worker #{cur['idx']} was started after the previous workers had lived for {consumed_before[cur['idx']]:.2f} s "
                    f"in total although the search budget was {budget0} s")
        else:
            continue
        if key not in flagged:
            flagged.add(key)
            ctx.witness(key, f"[{label}] {desc}", c)
    # a refused restart must not be followed by a start
    for r in restarts:
        if r.get("ret") is False:
            later = [s for s in starts if s["t"] > r["t"]]
            if later:
                ctx.anomaly("start-after-refused-restart")

    # ---- success only if some worker delivered a result
    rc = rec.get("rc")
    if rc == "OK":
        if not rec["delivered_ok"]:
            why = "a-non-ok-result" if rec.get("delivered_any") else "no-result"
            ctx.witness("ok-without-worker-result", f"[{label}] the client returned ReturnCode.OK although the workers delivered {why}", c)
    tr = [e for e in events if e.get("ev") == "task-result" and "result" in e]
    if rc is not None and rc != "OK" and rec["delivered_ok"]:
        # (real runs: a worker that reached 'done' may itself have delivered NO_TESTS_GENERATED - that is not a lost success)
        if not (kind == "real" and tr and tr[-1]["result"].get("return_code") not in (None, "OK")):
            ctx.anomaly("non-ok-although-worker-delivered")
    if tr and tr[-1]["result"].get("restart_count") is not None:
        n_restarted = sum(1 for r in restarts if r.get("ret") is True)
        if tr[-1]["result"]["restart_count"] != n_restarted:
            ctx.anomaly("restart_count-differs-from-observed-restarts")
    summary["restarted"] = sum(1 for r in restarts if r.get("ret") is True)
    summary["budget0"] = budget0
    return summary


# =================================================================================================
# (a) real pipelines
# =================================================================================================
def _kill_leftovers(state_dir):
    """After a watchdog: kill processes that carry this case's state directory in their environment."""
    needle = f"SE2P_PYNGUIN_VERIF_STATE={state_dir}".encode()
    me = os.getpid()
    for p in Path("/proc").iterdir():
        if not p.name.isdigit() or int(p.name) == me:
            continue
        try:
            if needle in (p / "environ").read_bytes():
                os.kill(int(p.name), signal.SIGKILL)
        except OSError:
            continue


def _read(p):
    try:
        return p.read_text()
    except OSError:
        return ""


def run_real_case(ctx, case, proj, idx, seeded_break=None):
    from vlib.pyndriver import run_pipeline

    label = f"real:{case['phase']}:n{case['n']}:{case['budget_kind']}"
    res = None
    attempts = []
    stalled_for = None
    for attempt, timeout in enumerate((300, 900)):
        work = ctx.scratch / f"real{idx}_{attempt}"
        state = work / "state"
        state.mkdir(parents=True, exist_ok=True)
        cfg = {"search_algorithm.population": 4}
        if not case.get("minimize"):
            cfg["test_case_output.minimization.test_case_minimization_strategy"] = "NONE"
        spec = {"module": case["module"], "project_path": str(proj), "output_path": str(work / "out"), "algorithm": case["algorithm"],
                "seed": case["seed"], "budget": case["budget"], "assertion_generation": case["assertion_generation"],
                "master_worker": True, "monitors": [MONITOR], "config": cfg}
        env = {"SE2P_PYNGUIN_VERIF_STATE": str(state), "SE2P_PYNGUIN_VERIF_CRASH": f"{case['phase']}:{case['n']}"}
        if seeded_break:
            env["VERIF_BREAK"] = seeded_break
        res = run_pipeline(spec, timeout=timeout, env_extra=env)
        res["_phases"] = _read(state / "phases.log")
        res["_crashes"] = _read(state / "crashes.log")
        attempts.append({"timeout": res["timeout"], "wall": res.get("parent_wall_s")})
        if not res["timeout"]:
            break
        try:
            stalled_for = time.time() - (state / "phases.log").stat().st_mtime
        except OSError:
            stalled_for = float(timeout)
        _kill_leftovers(state)
    phases = [ln.split() for ln in res["_phases"].splitlines() if len(ln.split()) == 2]
    crashes = [ln.split() for ln in res["_crashes"].splitlines() if len(ln.split()) == 2]
    crashed_pids = {p for p, _ in crashes}
    c = dict(case)
    c["attempts"] = attempts
    if res["timeout"]:
        last = phases[-1][1] if phases else "before-import"
        c["phases_tail"] = phases[-8:]
        c["crashes"] = crashes
        T = case["budget"].get("maximum_search_time", -1)
        workers = len({p for p, _ in phases})
        # a watchdog on a loaded machine proves nothing by itself: it counts only if the workers stopped making progress
        # (nothing written to phases.log for 120 s: the master waits for nobody) or more workers were started than the
        # budget can pay for (each restart costs at least one second of search time)
        if stalled_for is not None and stalled_for < 120 and workers <= max(T, 0) + 1:
            ctx.inconclusive_because(f"{label}: watchdog fired twice (300 s, 900 s) but the workers were still making progress "
                                     f"({workers} worker(s), last phase {last}, load {os.getloadavg()[0]:.0f})")
            return
        ctx.ok(cls=[f"real:{case['phase']}:n{case['n']}:{case['budget_kind']}", "real:no-return"])
        ctx.witness(f"no-return:{case['phase']}",
                    f"[{label}] run_pynguin_with_master_worker did not return within 300 s and, re-tried, 900 s "
                    f"(budget {case['budget']}, {len(crashes)} injected crash(es), {workers} worker(s) started, last phase reached: {last}, "
                    f"no progress for {stalled_for:.0f} s)", c)
        return
    if len(attempts) > 1:
        ctx.anomaly("watchdog-not-reproduced:real")
        ctx.extra.setdefault("watchdog_retries", []).append({"case": case, "attempts": attempts})
    if res.get("exception"):
        ctx.inconclusive_because(f"{label}: driver failed: {res['exception']} :: {res.get('stderr_tail', '')[-300:]}")
        return
    events = [e for e in res["events"] if isinstance(e, dict)]
    mc = [e for e in events if e.get("ev") == "monitor-calls" and e.get("monitor") == "masterworker"]
    if not mc or not mc[0]["calls"].get("start") or not mc[0]["calls"].get("client") or not mc[0]["calls"].get("task-result"):
        ctx.inconclusive_because(f"{label}: the master monitors saw no call ({mc[:1]})")
        return
    if not [e for e in events if e.get("ev") == "client-return"]:
        ctx.inconclusive_because(f"{label}: no client-return event although the driver returned rc={res.get('rc')}")
        return
    started_pids = {str(e["pid"]) for e in events if e.get("ev") == "start" and e.get("pid")}
    done_pids = {p for p, ph in phases if ph == "done"}
    delivered = bool((done_pids - crashed_pids) & started_pids) if started_pids else bool(done_pids - crashed_pids)
    rec = {"events": events, "rc": res.get("rc"), "timeout": False, "delivered_ok": delivered, "delivered_any": delivered}
    c["phases_by_pid"] = {p: [ph for q, ph in phases if q == p][-3:] for p in list(dict.fromkeys(q for q, _ in phases))[:8]}
    c["crashes"] = crashes[:8]
    summ = check_protocol(ctx, "real", c, rec, label)

    # ---- classes / evidence
    T = case["budget"].get("maximum_search_time", -1)
    cls = [f"real:phase={case['phase']}", f"real:n={case['n']}", f"real:budget={case['budget_kind']}",
           f"real:{case['phase']}:n{case['n']}:{case['budget_kind']}", f"real:algo={case['algorithm']}", f"real:rc={res.get('rc')}"]
    if not crashes:
        ctx.anomaly(f"crash-phase-not-reached:{case['phase']}")
    if summ["restarted"]:
        cls.append("real:restarted")
        if PHASES.index(case["phase"]) >= 4:
            cls.append("real:restart-in-late-phase")
        if res.get("rc") == "OK":
            cls.append("real:ok-after-restart")
    for r in summ["refused"]:
        cls.append("real:restart-refused:no-search-time" if r["mst_before"] <= 0 else "real:restart-refused:time-exhausted")
    if crashes and started_pids and started_pids <= crashed_pids:
        cls.append("real:all-started-workers-crashed")
        if res.get("rc") == "OK":  # implied by the delivered rule; kept as an explicit cross-check of n = always
            ctx.witness("ok-without-worker-result", f"[{label}] every started worker was crashed by the hook, yet the client returned OK", c)
    wall = [e for e in events if e.get("ev") == "client-return"][0]["wall"]
    if wall > max(T, 0) * (summ["restarted"] + 1) + 60:
        ctx.anomaly("slow-return:wall>T*(restarts+1)+60s")
    ctx.ok(cls=cls, distinct=({"w": "real", **{k: case[k] for k in ("phase", "n", "budget", "module", "algorithm", "seed",
                                                                     "assertion_generation", "minimize")}} if crashes else None))
    ctx.count("real_wall_total", round(res.get("parent_wall_s", 0), 1))
    if len(ctx.samples) < 4:
        ctx.sample({"case": case, "rc": res.get("rc"), "wall": round(wall, 2), "starts": [(e["mst"], e["subprocess"]) for e in events if e.get("ev") == "start"],
                    "restarts": [(e["mst_before"], e["mst_after"], e["ret"]) for e in events if e.get("ev") == "restart"], "crashes": crashes[:6]})


# =================================================================================================
# (b) scripted fault sequences — child side
# =================================================================================================
class _Watchdog(BaseException):
    pass


_CUR: dict = {}


def _wlog(msg):
    fd = os.open(_CUR["log"], os.O_WRONLY | os.O_APPEND | os.O_CREAT, 0o644)
    try:
        os.write(fd, (msg + "\n").encode())
    finally:
        os.close(fd)


def _stub_worker_main(task, sending_connection):
    """Runs in the forked worker.  Follows the script step of this start index."""
    import struct

    from pynguin.generator import ReturnCode
    from pynguin.master_worker import worker as w

    idx = getattr(task, "_c33_start_index", None)
    case = _CUR["case"]
    script = case["script"]
    if idx is None:
        step = "die0"
    elif idx < len(script):
        step = script[idx]
    elif case["then"] == "repeat":
        step = script[-1]
    else:
        step = case["then"]
    pid = os.getpid()
    _wlog(f"{pid} {idx} begin {step}")
    signal.signal(signal.SIGALRM, signal.SIG_DFL)
    if step == "die0":
        os._exit(3)
    if step == "die-delay":
        time.sleep(case["delay"])
        os._exit(3)
    if step == "sigkill":
        os.kill(pid, signal.SIGKILL)
        time.sleep(30)
    if step == "close":
        sending_connection.close()
        return
    if step == "close-linger":
        sending_connection.close()
        time.sleep(0.4)
        os._exit(0)
    if step == "raise":
        raise RuntimeError("scripted worker failure")
    if step == "partial-die":
        os.write(sending_connection.fileno(), struct.pack("!i", 4096) + b"\x80\x04truncated")
        os._exit(3)
    if step == "hang":
        _wlog(f"{pid} {idx} hang {step}")
        while True:
            time.sleep(60)
    if step in ("die-orphan", "orphan-hang", "orphan-hang-exit0", "orphan-hang-return"):
        # the worker dies, but a descendant (like a daemon process of SubprocessTestCaseExecutor, which inherits every
        # descriptor on fork) still holds the write end of the result pipe for a while / for ever
        gpid = os.fork()
        if gpid == 0:
            time.sleep(0.6 if step == "die-orphan" else 3600)
            os._exit(0)
        _wlog(f"{pid} {idx} orphan {gpid}")
        if step == "orphan-hang-exit0":
            os._exit(0)  # a worker may also end with exit status 0 without having sent anything (e.g. os._exit(0) in the SUT)
        if step == "orphan-hang-return":
            return  # worker_main returns without sending: the process exits normally (status 0), its descendant lives on
        os._exit(3)  # the worker is dead in all cases: "orphan-hang" is a dying step, not a hang
    if step in ("send-ok", "send-die", "send-nogen", "send-err"):
        if step == "send-err":
            res = w.WorkerResult(task_id=task.task_id, worker_return_code=w.WorkerReturnCode.OK, return_code=None,
                                 error=w.WorkerError("scripted error", "Traceback (scripted)"))
        else:
            rc = ReturnCode.NO_TESTS_GENERATED if step == "send-nogen" else ReturnCode.OK
            res = w.WorkerResult(task_id=task.task_id, worker_return_code=w.WorkerReturnCode.OK, return_code=rc)
        sending_connection.send(res)
        _wlog(f"{pid} {idx} sent {step}")
        if step == "send-die":
            os._exit(3)
        return
    if step.startswith("real-"):
        def fake_run_pynguin():
            if step == "real-ok":
                _wlog(f"{pid} {idx} returning {step}")
                return ReturnCode.OK
            if step == "real-raise":
                raise ValueError("scripted failure inside run_pynguin")
            if step == "real-die":
                os._exit(70)
            if step == "real-kbd":
                raise KeyboardInterrupt
            if step == "real-sysexit":
                raise SystemExit(3)
            raise AssertionError(step)

        w.run_pynguin = fake_run_pynguin
        orig_send = sending_connection.send

        class _Conn:  # logs a completed send of the real worker_main
            def __getattr__(self, name):
                return getattr(sending_connection, name)

            def send(self, obj):
                orig_send(obj)
                _wlog(f"{pid} {idx} sent {step}")

        _CUR["real_worker_main"](task, _Conn())
        return
    raise AssertionError(f"unknown step {step}")


def scripted_child(spec_path, out_path):
    """Runs the cases of spec sequentially against the real master; appends one JSON line per case to out_path."""
    spec = json.loads(Path(spec_path).read_text())
    sys.path.insert(0, str(VERIF))
    import logging

    import multiprocess as mp

    import pynguin.configuration as config
    import pynguin.master_worker.master as master

    from pynguin.generator import set_configuration
    from pynguin.master_worker.client import run_pynguin_with_master_worker
    from vlib.monitors import masterworker as mon

    logging.disable(logging.CRITICAL)
    events: list = []
    state = mon.install(events, None)
    breaks = [e for e in events if e.get("ev") == "seeded-break"]
    _CUR["real_worker_main"] = master.worker_main
    master.worker_main = _stub_worker_main
    scratch = Path(spec["scratch"])

    def on_alarm(signum, frame):
        # plain cases: one shot at the bound.  Cases with a hang step: the timer ticks every 0.5 s; the watchdog fires
        # 2 s after the stub logged that it hangs (the master is then blocked in recv), or at the bound if it never did.
        w = _CUR.get("watch")
        if w is None:
            raise _Watchdog()
        now = time.time()
        if w["hang_seen"] is None and " hang " in _read(Path(_CUR["log"])):
            w["hang_seen"] = now
        if (w["hang_seen"] is not None and now - w["hang_seen"] >= 2.0) or now - w["t0"] >= w["bound"]:
            signal.setitimer(signal.ITIMER_REAL, 0)
            raise _Watchdog()

    signal.signal(signal.SIGALRM, on_alarm)
    with open(out_path, "a") as out:
        for ci, case in enumerate(spec["cases"]):
            del events[:]
            events.extend(breaks)
            mon.reset_counters(state)
            log = scratch / f"w_{spec['tag']}_{ci}.log"
            _CUR.update({"case": case, "log": str(log)})
            cfg = config.Configuration(algorithm=config.Algorithm.DYNAMOSA, project_path=str(scratch), module_name="c33_no_module",
                                       test_case_output=config.TestCaseOutputConfiguration(output_path=str(scratch / "out")))
            cfg.stopping.maximum_search_time = case["T"]
            cfg.use_master_worker = True
            set_configuration(cfg)
            rec = {"i": case["i"], "rc": None, "timeout": False, "exception": None}
            out.write(json.dumps({"begin": case["i"]}) + "\n")
            out.flush()
            t0 = time.time()
            if set(HANGS) & set(case["script"]) or case["then"] in HANGS:
                _CUR["watch"] = {"t0": t0, "bound": case["bound"], "hang_seen": None}
                signal.setitimer(signal.ITIMER_REAL, 0.5, 0.5)
            else:
                _CUR["watch"] = None
                signal.setitimer(signal.ITIMER_REAL, case["bound"])
            try:
                rc = run_pynguin_with_master_worker(cfg)
                signal.setitimer(signal.ITIMER_REAL, 0)
                rec["rc"] = getattr(rc, "name", repr(rc))
            except _Watchdog:
                rec["timeout"] = True
            except BaseException as e:  # noqa: BLE001
                signal.setitimer(signal.ITIMER_REAL, 0)
                rec["exception"] = f"{type(e).__name__}: {str(e)[:200]}"
            signal.setitimer(signal.ITIMER_REAL, 0)
            rec["wall"] = round(time.time() - t0, 3)
            left = 0
            for p in mp.active_children():
                try:
                    p.join(0.5)  # a worker that has just sent its result may still be exiting
                    if p.is_alive():
                        left += 1
                        p.kill()
                        p.join(2)
                except Exception:  # noqa: BLE001
                    pass
            rec["leftover_workers"] = left
            for ln in _read(log).splitlines():  # descendants of dead workers (die-orphan / orphan-hang)
                parts = ln.split()
                if len(parts) == 4 and parts[2] == "orphan":
                    try:
                        os.kill(int(parts[3]), signal.SIGKILL)
                    except (OSError, ValueError):
                        pass
            events.append(mon.calls_event(state))
            rec["events"] = list(events)
            rec["final_mst"] = cfg.stopping.maximum_search_time
            rec["worker_log"] = _read(log)
            out.write(json.dumps(rec, default=repr) + "\n")
            out.flush()


# =================================================================================================
# (b) parent side
# =================================================================================================
def _bound(case, factor=1):
    return (max(case["T"], 0) + 30) * factor


def _hang_logged(rec):
    return any(len(x) == 4 and x[2] == "hang" for x in (ln.split() for ln in rec.get("worker_log", "").splitlines()))


def _run_driver(ctx, cases, tag, seeded_break, factor=1):
    """One child over `cases`; returns ({i: rec}, begun-but-unfinished i or None, stderr)."""
    from vlib import core

    spec_f = ctx.scratch / f"s_{tag}.json"
    out_f = ctx.scratch / f"o_{tag}.jsonl"
    payload = []
    for c in cases:
        d = dict(c)
        d["bound"] = _bound(c, factor)
        payload.append(d)
    spec_f.write_text(json.dumps({"cases": payload, "scratch": str(ctx.scratch), "tag": tag}))
    env = core.child_env({"VERIF_BREAK": seeded_break} if seeded_break else None)
    if not seeded_break:
        env.pop("VERIF_BREAK", None)
    outer = sum(d["bound"] for d in payload) + 120
    err = ""
    try:
        cp = subprocess.run([PY, str(Path(__file__).resolve()), "--scripted", str(spec_f), str(out_f)], env=env,
                            capture_output=True, text=True, timeout=outer, cwd=str(ctx.scratch), start_new_session=True)
        err = cp.stderr[-1500:]
        died = cp.returncode != 0
    except subprocess.TimeoutExpired:
        died = True
        err = "outer watchdog"
    recs, begun = {}, None
    for ln in _read(out_f).splitlines():
        try:
            r = json.loads(ln)
        except ValueError:
            continue
        if "begin" in r:
            begun = r["begin"]
        else:
            recs[r["i"]] = r
            begun = None
    return recs, (begun if died else None), err


def run_scripted(ctx, cases, tag, seeded_break=None, parallel=6):
    cases = [dict(c, i=i) for i, c in enumerate(cases)]
    groups = [cases[g::parallel] for g in range(parallel)]
    groups = [g for g in groups if g]

    def work(gi_group):
        gi, group = gi_group
        pending = list(group)
        done: dict = {}
        problems = []
        rounds = 0
        while pending and rounds < 6:
            rounds += 1
            recs, stuck, err = _run_driver(ctx, pending, f"{tag}_{gi}_{rounds}", seeded_break)
            done.update(recs)
            if stuck is not None:
                # the child died / was killed in the middle of this case: run it alone once more
                alone = [c for c in pending if c["i"] == stuck]
                r2, stuck2, err2 = _run_driver(ctx, alone, f"{tag}_{gi}_{rounds}_alone", seeded_break)
                if stuck in r2:
                    done[stuck] = r2[stuck]
                else:
                    done[stuck] = {"i": stuck, "driver_died": True, "stderr": (err + " // " + err2)[-800:]}
            elif not recs:
                problems.append(f"scripted driver produced nothing: {err[-400:]}")
                break
            pending = [c for c in pending if c["i"] not in done]
        # watchdog hits are re-tried alone with a 3x bound (machine load)
        for c in group:
            r = done.get(c["i"])
            if r and r.get("timeout") and not _hang_logged(r):
                r2, _, _ = _run_driver(ctx, [c], f"{tag}_{gi}_retry{c['i']}", seeded_break, factor=3)
                if c["i"] in r2:
                    r2[c["i"]]["first_attempt_timed_out"] = True
                    if r2[c["i"]].get("timeout"):
                        r2[c["i"]]["timeout_reproduced"] = True
                    done[c["i"]] = r2[c["i"]]
        return done, problems

    results: dict = {}
    with ThreadPoolExecutor(max_workers=len(groups) or 1) as ex:
        for done, problems in ex.map(work, enumerate(groups)):
            results.update(done)
            for p in problems:
                ctx.inconclusive_because(p)
    for c in cases:
        rec = results.get(c["i"])
        if rec is None:
            ctx.inconclusive_because(f"scripted case never ran: {json.dumps(c)[:160]}")
            continue
        judge_scripted(ctx, c, rec)


def judge_scripted(ctx, case, rec):
    c = {k: case[k] for k in ("script", "then", "T", "delay", "tag")}
    label = f"scripted:T={case['T']}:{'>'.join(case['script'])}:then={case['then']}"
    if rec.get("driver_died"):
        ctx.inconclusive_because(f"{label}: scripted driver died twice on this case: {rec.get('stderr', '')[-300:]}")
        return
    wl = [ln.split() for ln in rec.get("worker_log", "").splitlines()]
    wl = [x for x in wl if len(x) == 4]
    reached = [x[3] for x in wl if x[2] == "begin"]
    sent = [x[3] for x in wl if x[2] == "sent"]
    hung = [x for x in wl if x[2] == "hang"]
    events = rec.get("events", [])
    if rec.get("first_attempt_timed_out") and not rec.get("timeout"):
        ctx.anomaly("watchdog-not-reproduced:scripted")
        ctx.extra.setdefault("watchdog_retries", []).append({"case": dict(c), "second_wall": rec.get("wall")})
    if rec.get("timeout"):
        if hung:
            ctx.anomaly("master-blocks-on-hung-worker")
            ctx.ok(cls=["scripted:hang"] + [f"scripted:step-reached={s}" for s in set(reached)], distinct={"w": "scripted", **c})
            # the restart rules still apply to what happened before the hang
            check_protocol(ctx, "scripted", c, {"events": events, "rc": None, "timeout": True, "delivered_ok": False, "delivered_any": False}, label)
            return
        last = reached[-1] if reached else "none"
        c["worker_log"] = wl[-8:]
        cc = dict(c)
        ctx.witness(f"no-return:scripted:{last}",
                    f"[{label}] run_pynguin_with_master_worker did not return within {_bound(case)} s and, re-tried alone, {_bound(case, 3)} s; "
                    f"{len(reached)} worker(s) started, last step {last}", cc)
        check_protocol(ctx, "scripted", c, {"events": events, "rc": None, "timeout": True, "delivered_ok": False, "delivered_any": False}, label)
        ctx.ok(cls="scripted:no-return")
        return
    if rec.get("exception"):
        # the client is documented to return a ReturnCode; an escaping exception still "returns" — judged as non-OK, noted
        ctx.anomaly(f"client-raised:{rec['exception'].split(':')[0]}")
    mc = [e for e in events if e.get("ev") == "monitor-calls"]
    if not mc or not mc[0]["calls"].get("start") or not mc[0]["calls"].get("client"):
        ctx.inconclusive_because(f"{label}: the master monitors saw no call")
        return
    if not reached:
        ctx.inconclusive_because(f"{label}: the worker stub never ran")
        return
    delivered_ok = any(s in DELIVERS_OK for s in sent)
    c["worker_log"] = wl[:12]
    summ = check_protocol(ctx, "scripted", c, {"events": events, "rc": rec.get("rc"), "timeout": False,
                                               "delivered_ok": delivered_ok, "delivered_any": bool(sent)}, label)
    cls = [f"scripted:T={case['T']}", f"scripted:len={len(case['script'])}", f"scripted:restarts={summ['restarted']}",
           f"scripted:rc={rec.get('rc')}", f"scripted:then={case['then']}"]
    cls += [f"scripted:step-reached={s}" for s in set(reached)]
    if case["tag"] == "enum4":
        cls.append("scripted:enumerated-len<=4")
    elif case["tag"] == "repeat":
        cls.append("scripted:all-dying-repeat-forever")
    elif case["tag"] == "long":
        cls.append("scripted:sampled-longer")
    if rec.get("rc") == "OK" and delivered_ok:
        cls.append("scripted:ok-delivered")
        if case["tag"] == "robust" and summ["restarted"]:
            cls.append("scripted:robust-ok-after-restart")
    if rec.get("rc") != "OK" and not delivered_ok:
        cls.append("scripted:nonok-nothing-delivered")
    for r in summ["refused"]:
        cls.append("scripted:restart-refused:no-search-time" if r["mst_before"] <= 0 else "scripted:restart-refused:time-exhausted")
    if rec.get("leftover_workers"):
        ctx.anomaly("worker-still-alive-after-return")
    if rec["wall"] > max(case["T"], 0) + 5:
        ctx.anomaly("scripted-slow-return:wall>T+5s")
    ctx.ok(cls=cls, distinct={"w": "scripted", **c, "worker_log": None})
    if len(ctx.samples) < 6 and summ["restarted"] >= 2:
        ctx.sample({"case": c, "rc": rec.get("rc"), "wall": rec["wall"], "reached": reached, "sent": sent,
                    "starts": [e["mst"] for e in events if e.get("ev") == "start"]})


# =================================================================================================
def run_chunk(spec, ctx):
    brk = spec.get("seeded_break")
    name = spec["name"]
    if name in ("real-directed", "real-random"):
        from vlib import sut_corpus

        proj = sut_corpus.copy_to(ctx.scratch / "proj")
        for i, case in enumerate(spec["cases"]):
            run_real_case(ctx, case, proj, i, seeded_break=brk)
    elif name == "scripted-directed":
        cases = scripted_directed_cases(quick=spec.get("quick", False))
        cases = cases[spec["part"]::spec["of"]]
        if "limit" in spec:
            cases = cases[: spec["limit"]]
        run_scripted(ctx, cases, f"d{spec['part']}", seeded_break=brk, parallel=spec.get("parallel", 8))
    elif name == "scripted-random":
        run_scripted(ctx, scripted_random_cases(spec["seed"], spec["count"]), f"r{spec['part']}", seeded_break=brk,
                     parallel=spec.get("parallel", 8))
    elif name == "scripted-thorough":
        cases = scripted_thorough_cases(spec["seed"])[spec["part"]::spec["of"]]
        run_scripted(ctx, cases, f"t{spec['part']}", seeded_break=brk, parallel=spec.get("parallel", 8))
    elif name == "scripted-cases":  # self-test / replay entry
        run_scripted(ctx, spec["cases"], "x", seeded_break=brk, parallel=spec.get("parallel", 4))
    else:
        raise ValueError(name)


def replay(w, ctx):
    case = w.get("case") or {}
    if case.get("workload") == "scripted":
        run_scripted(ctx, [{k: case[k] for k in ("script", "then", "T", "delay", "tag")}], "replay", parallel=1)
    elif case.get("workload") == "real" or "phase" in case:
        from vlib import sut_corpus

        proj = sut_corpus.copy_to(ctx.scratch / "proj")
        run_real_case(ctx, {k: case[k] for k in ("phase", "n", "budget_kind", "budget", "module", "algorithm", "seed",
                                                 "assertion_generation", "minimize")}, proj, 0)


if __name__ == "__main__":
    if len(sys.argv) == 4 and sys.argv[1] == "--scripted":
        os.environ.setdefault("SE2P_PYNGUIN_VERIF", "1")
        scripted_child(sys.argv[2], sys.argv[3])
