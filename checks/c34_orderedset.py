"""C34 — OrderedSet / FrozenOrderedSet against a reference model (dict-backed order + set semantics).

Shape: history + executable model.  Every operation of a random history is applied to the real
object and to the model; after each one the monitor compares the operation's return value or raised
exception type, and the full observable state (iteration order, len, membership over the universe,
every index in [-n-1, n], reversed()).
"""

from __future__ import annotations

import copy
import random

ID = "C34"
LEVEL = "exploration"
IN_PROCESS = True
RULE = (
    "random operation histories (25-40 ops) over OrderedSet/FrozenOrderedSet with arguments given as "
    "list/tuple/set/frozenset/OrderedSet/generator/iter(list)/dict-keys; oracle = insertion-ordered dict "
    "model; after every operation result, exception type and whole state are compared; a history is "
    "non-trivial/distinct by its (op, argkind) sequence hash; classes = op:argkind pairs"
)
ASSUMPTIONS = [
    "dict insertion order and set semantics of CPython are the reference",
    "set.pop()-style 'arbitrary element' is accepted for pop(); == is only compared when order agrees or elements differ",
    "slicing is documented as unsupported and not exercised",
]

UNIVERSE = [0, 1, 2, 3, 4, 5, 6, 7, "a", "b", "", (1, 2), (), None, 1.0, True, -1, 2**70, "é", frozenset({1})]
ARGKINDS = ["list", "tuple", "set", "frozenset", "oset", "foset", "gen", "iter", "dictkeys", "range"]
ONESHOT = {"gen", "iter"}


def floors(tier):
    return {
        "evals": 40000 if tier == "quick" else 400000,
        "distinct": 500,
        "classes": {
            "getitem:negative": 200,
            "symmetric_difference:oneshot": 20,
            "symmetric_difference_update:oneshot": 20,
            "issubset:oneshot": 20,
            "issuperset:oneshot": 20,
            "union:oneshot": 20,
            "frozen": 100,
        },
    }


def plan(tier, seed):
    n = 1500 if tier == "quick" else 20000
    return [{"name": "directed"}, {"name": "random", "n": n, "seed": seed}]


def _mk_arg(rng, kind, OrderedSet, FrozenOrderedSet, values=None):
    """Returns (real_arg, model_list_in_iteration_order)."""
    if values is None:
        values = [rng.choice(UNIVERSE) for _ in range(rng.randint(0, 6))]
    if kind == "range":
        k = rng.randint(0, 5)
        return range(k), list(range(k))
    if kind == "list":
        return list(values), list(values)
    if kind == "tuple":
        return tuple(values), list(values)
    if kind == "set":
        s = set(values)
        return s, list(s)
    if kind == "frozenset":
        s = frozenset(values)
        return s, list(s)
    if kind == "oset":
        s = OrderedSet(values)
        return s, list(dict.fromkeys(values))
    if kind == "foset":
        s = FrozenOrderedSet(values)
        return s, list(dict.fromkeys(values))
    if kind == "gen":
        return (v for v in list(values)), list(values)
    if kind == "iter":
        return iter(list(values)), list(values)
    if kind == "dictkeys":
        d = dict.fromkeys(values)
        return d.keys(), list(d)
    raise AssertionError(kind)


def _r(x):
    """repr with type, so that 1 / 1.0 / True are told apart."""
    if isinstance(x, (list, tuple)) and not isinstance(x, str):
        return [f"{type(v).__name__}:{v!r}" for v in x]
    return f"{type(x).__name__}:{x!r}"


class Model:
    def __init__(self, items=()):
        self.d = dict.fromkeys(items)

    def lst(self):
        return list(self.d)


def _state_check(ctx, real, model, hist, where):
    """Whole-state comparison. Returns True when consistent."""
    exp = model.lst()
    try:
        got = list(real)
        if _r(got) != _r(exp):
            ctx.witness(f"state:{where}", f"iteration order/content differs after {where}: got {got!r} expected {exp!r}", hist)
            return False
        if len(real) != len(exp):
            ctx.witness(f"len:{where}", f"len {len(real)} != {len(exp)} after {where}", hist)
            return False
        for u in UNIVERSE:
            if (u in real) != (u in model.d):
                ctx.witness(f"contains:{where}", f"membership of {u!r} differs after {where}", hist)
                return False
        if _r(list(reversed(real))) != _r(list(reversed(exp))):
            ctx.witness("reversed", f"reversed() differs after {where}", hist)
            return False
    except Exception as e:  # noqa: BLE001
        ctx.witness(f"state-raises:{type(e).__name__}", f"observing state after {where} raised {e!r}", hist)
        return False
    return True


def _outcome(fn):
    try:
        return ("ok", fn())
    except Exception as e:  # noqa: BLE001
        return ("exc", type(e).__name__)


def _apply(ctx, rng, real, model, frozen, OrderedSet, FrozenOrderedSet, hist, forced=None):
    """Apply one random operation to real and model; compare outcome. Returns (real, model, ok)."""
    n = len(model.d)
    mut_ops = [] if frozen else [
        "add", "update", "discard", "remove", "pop", "clear", "difference_update", "intersection_update",
        "symmetric_difference_update", "ior", "iand", "isub", "ixor",
    ]
    ro_ops = [
        "getitem", "getitem", "index", "count", "union", "intersection", "difference", "symmetric_difference",
        "issubset", "issuperset", "isdisjoint", "or", "and", "xor", "sub", "eq", "le", "ge", "copy", "freeze_or_hash",
        "repr", "union0", "multi",
    ]
    op = forced[0] if forced else rng.choice(mut_ops + ro_ops)
    kind = forced[1] if forced else rng.choice(ARGKINDS)
    setlike = rng.choice(["set", "frozenset", "oset", "foset"])
    cls = FrozenOrderedSet if frozen else OrderedSet
    exp_list = model.lst()
    entry = [op, kind]
    hist.append(entry)

    def others_not_in(xs, lists):
        bad = set()
        for l in lists:
            bad |= set(l)
        return [x for x in xs if x not in bad]

    tag = None  # class tag for floors
    if op == "getitem":
        i = forced[2] if forced and len(forced) > 2 else rng.randint(-n - 1, n)
        entry.append(i)
        got = _outcome(lambda: real[i])
        exp = _outcome(lambda: exp_list[i])
        tag = "getitem:negative" if i < 0 else "getitem:nonneg"
        cmp = (got[0], _r(got[1]) if got[0] == "ok" else got[1]) == (exp[0], _r(exp[1]) if exp[0] == "ok" else exp[1])
        if not cmp:
            key = "getitem:negative-index" if i < 0 and -n <= i else ("getitem:out-of-range" if not (-n <= i < n) else "getitem:value")
            ctx.witness(key, f"s[{i}] on {exp_list!r}: got {got!r}, list gives {exp!r}", hist)
            return real, model, False
    elif op in ("index", "count"):
        v = rng.choice(UNIVERSE)
        entry.append(repr(v))
        got = _outcome(lambda: getattr(real, op)(v))
        exp = _outcome(lambda: getattr(exp_list, op)(v))
        if got != exp:
            ctx.witness(f"{op}:value", f"{op}({v!r}) on {exp_list!r}: got {got!r} expected {exp!r}", hist)
            return real, model, False
    elif op in ("add", "discard", "remove"):
        v = rng.choice(UNIVERSE)
        entry.append(repr(v))
        got = _outcome(lambda: getattr(real, op)(v))
        if op == "add":
            model.d.setdefault(v)
            exp = ("ok", None)
        elif op == "discard":
            model.d.pop(v, None)
            exp = ("ok", None)
        else:
            if v in model.d:
                model.d.pop(v)
                exp = ("ok", None)
            else:
                exp = ("exc", "KeyError")
        if got != exp:
            ctx.witness(f"{op}:outcome", f"{op}({v!r}): got {got!r} expected {exp!r}", hist)
            return real, model, False
    elif op == "pop":
        got = _outcome(lambda: real.pop())
        if n == 0:
            if got != ("exc", "KeyError"):
                ctx.witness("pop:empty", f"pop() on empty: {got!r}", hist)
                return real, model, False
        else:
            if got[0] != "ok" or got[1] not in model.d:
                ctx.witness("pop:value", f"pop() returned {got!r} not an element of {exp_list!r}", hist)
                return real, model, False
            # keep the model's own key object; compare by identity of dict semantics
            model.d.pop(got[1])
    elif op == "clear":
        real.clear()
        model.d.clear()
    elif op in ("update", "difference_update", "intersection_update", "symmetric_difference_update"):
        arg, lst = _mk_arg(rng, kind, OrderedSet, FrozenOrderedSet)
        entry.append(repr(lst))
        tag = f"{op}:oneshot" if kind in ONESHOT else f"{op}:{kind}"
        got = _outcome(lambda: getattr(real, op)(arg))
        if op == "update":
            for v in lst:
                model.d.setdefault(v)
        elif op == "difference_update":
            model.d = dict.fromkeys(others_not_in(exp_list, [lst]))
        elif op == "intersection_update":
            model.d = dict.fromkeys([x for x in exp_list if x in set(lst)])
        else:
            keep = others_not_in(exp_list, [lst])
            add = [x for x in dict.fromkeys(lst) if x not in set(exp_list)]
            model.d = dict.fromkeys(keep + add)
        if got != ("ok", None):
            ctx.witness(f"{op}:{'oneshot' if kind in ONESHOT else 'arg'}:raises", f"{op}({kind} {lst!r}) -> {got!r}", hist)
            return real, model, False
    elif op in ("ior", "iand", "isub", "ixor"):
        arg, lst = _mk_arg(rng, setlike, OrderedSet, FrozenOrderedSet)
        entry[1] = setlike
        entry.append(repr(lst))
        before = real
        try:
            if op == "ior":
                real |= arg
                for v in lst:
                    model.d.setdefault(v)
            elif op == "iand":
                real &= arg
                model.d = dict.fromkeys([x for x in exp_list if x in set(lst)])
            elif op == "isub":
                real -= arg
                model.d = dict.fromkeys(others_not_in(exp_list, [lst]))
            else:
                real ^= arg
                keep = others_not_in(exp_list, [lst])
                add = [x for x in dict.fromkeys(lst) if x not in set(exp_list)]
                model.d = dict.fromkeys(keep + add)
        except Exception as e:  # noqa: BLE001
            ctx.witness(f"{op}:raises", f"{op} with {setlike} {lst!r} raised {e!r}", hist)
            return real, model, False
        if real is not before:
            ctx.witness(f"{op}:identity", "in-place operator returned a new object", hist)
            return real, model, False
    elif op in ("union", "intersection", "difference", "multi"):
        meth = op if op != "multi" else rng.choice(["union", "intersection", "difference"])
        k = 1 if op != "multi" else rng.randint(2, 3)
        args, lsts = [], []
        for _ in range(k):
            a, l = _mk_arg(rng, rng.choice(ARGKINDS) if op == "multi" else kind, OrderedSet, FrozenOrderedSet)
            args.append(a)
            lsts.append(l)
        entry.append(repr(lsts))
        entry.append(meth)
        tag = f"{meth}:oneshot" if (kind in ONESHOT and op != "multi") else f"{meth}:{kind if op != 'multi' else 'multi'}"
        got = _outcome(lambda: getattr(real, meth)(*args))
        if meth == "union":
            exp = list(dict.fromkeys(exp_list + [x for l in lsts for x in l]))
        elif meth == "intersection":
            exp = [x for x in exp_list if all(x in set(l) for l in lsts)]
        else:
            exp = others_not_in(exp_list, lsts)
        if got[0] != "ok" or type(got[1]) is not cls or _r(list(got[1])) != _r(exp):
            ctx.witness(
                f"{meth}:{'oneshot' if kind in ONESHOT and op != 'multi' else 'arg'}:result",
                f"{meth}({lsts!r}) on {exp_list!r}: got {got!r} expected {cls.__name__}({exp!r})", hist)
            return real, model, False
    elif op == "union0":
        meth = rng.choice(["union", "intersection", "difference"])
        entry.append(meth)
        got = _outcome(lambda: getattr(real, meth)())
        if got[0] != "ok" or _r(list(got[1])) != _r(exp_list) or got[1] is real:
            ctx.witness(f"{meth}:noargs", f"{meth}() on {exp_list!r}: {got!r}", hist)
            return real, model, False
    elif op == "symmetric_difference":
        arg, lst = _mk_arg(rng, kind, OrderedSet, FrozenOrderedSet)
        entry.append(repr(lst))
        tag = "symmetric_difference:oneshot" if kind in ONESHOT else f"symmetric_difference:{kind}"
        got = _outcome(lambda: real.symmetric_difference(arg))
        exp = others_not_in(exp_list, [lst]) + [x for x in dict.fromkeys(lst) if x not in set(exp_list)]
        if got[0] != "ok" or type(got[1]) is not cls or _r(list(got[1])) != _r(exp):
            ctx.witness(
                f"symmetric_difference:{'oneshot' if kind in ONESHOT else 'arg'}:result",
                f"symmetric_difference({kind} {lst!r}) on {exp_list!r}: got {got!r} expected {exp!r}", hist)
            return real, model, False
    elif op in ("issubset", "issuperset", "isdisjoint"):
        # bias towards interesting relations
        base = exp_list
        choice = rng.random()
        if choice < 0.3 and base:
            vals = list(base) + [rng.choice(UNIVERSE) for _ in range(rng.randint(0, 2))]
            rng.shuffle(vals)
        elif choice < 0.6 and base:
            vals = rng.sample(base, rng.randint(0, len(base)))
        else:
            vals = None
        arg, lst = _mk_arg(rng, kind if kind != "range" else "list", OrderedSet, FrozenOrderedSet, vals)
        entry.append(repr(lst))
        tag = f"{op}:oneshot" if kind in ONESHOT else f"{op}:{kind}"
        got = _outcome(lambda: getattr(real, op)(arg))
        exp = ("ok", getattr(set(exp_list), op)(lst))
        if got != exp:
            ctx.witness(
                f"{op}:{'oneshot' if kind in ONESHOT else 'arg'}:result",
                f"{op}({kind} {lst!r}) on {exp_list!r}: got {got!r} expected {exp!r}", hist)
            return real, model, False
    elif op in ("or", "and", "xor", "sub"):
        arg, lst = _mk_arg(rng, rng.choice(["oset", "foset"]) , OrderedSet, FrozenOrderedSet)
        entry.append(repr(lst))
        import operator

        f = {"or": operator.or_, "and": operator.and_, "xor": operator.xor, "sub": operator.sub}[op]
        got = _outcome(lambda: f(real, arg))
        if op == "or":
            exp = list(dict.fromkeys(exp_list + lst))
        elif op == "and":
            exp = [x for x in exp_list if x in set(lst)]
        elif op == "sub":
            exp = others_not_in(exp_list, [lst])
        else:
            exp = others_not_in(exp_list, [lst]) + [x for x in lst if x not in set(exp_list)]
        if got[0] != "ok" or _r(list(got[1])) != _r(exp):
            ctx.witness(f"operator-{op}:result", f"{exp_list!r} {op} {lst!r}: got {got!r} expected {exp!r}", hist)
            return real, model, False
    elif op == "eq":
        same = cls(exp_list)
        other_vals = exp_list + [rng.choice(UNIVERSE)]
        other = cls(other_vals)
        differs = list(dict.fromkeys(other_vals)) != exp_list or len(set(other_vals)) != len(set(exp_list))
        g1 = _outcome(lambda: real == same)
        g2 = _outcome(lambda: real != same)
        g3 = _outcome(lambda: real == other)
        if g1 != ("ok", True) or g2 != ("ok", False) or (len(set(other_vals)) != len(set(exp_list)) and g3 != ("ok", False)):
            ctx.witness("eq:result", f"== / != inconsistent on {exp_list!r}: {g1} {g2} {g3} differs={differs}", hist)
            return real, model, False
    elif op in ("le", "ge"):
        arg, lst = _mk_arg(rng, rng.choice(["set", "frozenset", "oset"]), OrderedSet, FrozenOrderedSet,
                           rng.sample(exp_list, rng.randint(0, n)) if rng.random() < 0.5 else None)
        entry.append(repr(lst))
        got = _outcome(lambda: (real <= arg) if op == "le" else (real >= arg))
        exp = ("ok", (set(exp_list) <= set(lst)) if op == "le" else (set(exp_list) >= set(lst)))
        if got != exp:
            ctx.witness(f"operator-{op}:result", f"{exp_list!r} {op} {lst!r}: got {got!r} expected {exp!r}", hist)
            return real, model, False
    elif op == "copy":
        got = _outcome(lambda: copy.copy(real))
        if got[0] != "ok" or got[1] is real or type(got[1]) is not cls or _r(list(got[1])) != _r(exp_list):
            ctx.witness("copy:result", f"copy.copy -> {got!r}", hist)
            return real, model, False
        if not frozen:
            got[1].add("__fresh__")
            if "__fresh__" in real:
                ctx.witness("copy:aliasing", "mutating the copy changed the original", hist)
                return real, model, False
    elif op == "freeze_or_hash":
        if frozen:
            perm = list(exp_list)
            rng.shuffle(perm)
            h = _outcome(lambda: (hash(real), hash(FrozenOrderedSet(exp_list))))
            if h[0] != "ok" or h[1][0] != h[1][1]:
                ctx.witness("hash:equal-objects", f"hash differs for equal frozen sets {exp_list!r}: {h!r}", hist)
                return real, model, False
        else:
            got = _outcome(lambda: real.freeze())
            if got[0] != "ok" or type(got[1]) is not FrozenOrderedSet or _r(list(got[1])) != _r(exp_list):
                ctx.witness("freeze:result", f"freeze() -> {got!r}", hist)
                return real, model, False
    elif op == "repr":
        got = _outcome(lambda: repr(real))
        exp = f"{cls.__name__}()" if not exp_list else f"{cls.__name__}({exp_list!r})"
        if got != ("ok", exp):
            ctx.witness("repr:result", f"repr -> {got!r} expected {exp!r}", hist)
            return real, model, False
    ctx.ok(cls=[tag or f"{op}:{kind}"] + (["frozen"] if frozen else []))
    ok = _state_check(ctx, real, model, hist, f"{op}")
    if ok and op in ("union", "intersection", "difference", "symmetric_difference", "issubset", "issuperset", "or", "and", "xor", "sub", "le", "ge", "getitem"):
        pass
    return real, model, ok


def _history(ctx, rng, OrderedSet, FrozenOrderedSet, length, forced_ops=None, frozen=None, init=None):
    if frozen is None:
        frozen = rng.random() < 0.2
    cls = FrozenOrderedSet if frozen else OrderedSet
    kind = rng.choice(ARGKINDS)
    arg, lst = _mk_arg(rng, kind, OrderedSet, FrozenOrderedSet, init)
    hist = [["init", cls.__name__, kind, repr(lst)]]
    try:
        real = cls(arg) if (lst or rng.random() < 0.7) else cls()
    except Exception as e:  # noqa: BLE001
        ctx.witness("init:raises", f"{cls.__name__}({kind} {lst!r}) raised {e!r}", hist)
        return
    model = Model(lst)
    if not _state_check(ctx, real, model, hist, "init"):
        return
    ops = forced_ops or [None] * length
    for f in ops:
        real, model, ok = _apply(ctx, rng, real, model, frozen, OrderedSet, FrozenOrderedSet, hist, forced=f)
        if not ok:
            return
    ctx.ok(0, distinct=[h[:2] for h in hist])
    if len(ctx.samples) < 4:
        ctx.sample({"history": hist[:8], "final": repr(model.lst())})


def run_chunk(spec, ctx):
    from pynguin.utils.orderedset import FrozenOrderedSet, OrderedSet

    if spec["name"] == "directed":
        rng = random.Random(12345)
        # every class named in the floors, for every seed
        for frozen in (False, True):
            for init in ([], [3], [1, 2, 3, "a", (1, 2)]):
                n = len(init)
                for i in range(-n - 1, n + 1):
                    _history(ctx, rng, OrderedSet, FrozenOrderedSet, 0, [("getitem", "list", i)], frozen, init)
            for _ in range(30):
                for op in ("symmetric_difference", "issubset", "issuperset", "isdisjoint", "union", "intersection", "difference"):
                    for kind in ("gen", "iter", "list", "set"):
                        _history(ctx, rng, OrderedSet, FrozenOrderedSet, 0, [(op, kind)], frozen, [1, 2, 3, "a", 0, 5])
        for _ in range(30):
            for op in ("symmetric_difference_update", "update", "difference_update", "intersection_update"):
                for kind in ("gen", "iter", "list", "set"):
                    _history(ctx, rng, OrderedSet, FrozenOrderedSet, 0, [(op, kind)], False, [1, 2, 3, "a", 0, 5])
        return
    rng = random.Random(spec["seed"] * 1000003 + 34)
    for _ in range(spec["n"]):
        _history(ctx, rng, OrderedSet, FrozenOrderedSet, rng.randint(25, 40))
