"""C35 - the coverage report agrees with the computed coverage.

Real pipelines (``vlib.pyndriver`` + ``vlib.monitors.report``) with ``statistics_output.create_coverage_report = True`` and
coverage metrics [BRANCH, LINE] (plus BRANCH-only and LINE-only controls).  The monitor captures the ``CoverageReport`` object
returned by ``get_coverage_report``, the raw registries of the run's SubjectProperties, the coverage values the pipeline
tracked, and the merged execution trace of the final suite *re-executed* on a fresh executor.  The parent

  * recomputes branch and line coverage from the fresh trace with short reference definitions written from the docstrings of
    ``fitness_metrics`` (``reference_coverage`` below: branch coverage = (executed branch-less code objects + predicates with a
    true distance of 0 + predicates with a false distance of 0) / (branch-less code objects + 2 * predicates), branch-less =
    code object that owns no predicate; line coverage = covered line ids / existing line ids; 1.0 when nothing exists);
  * R1 totals == tracked: report.branch_coverage / line_coverage equal the tracked Final*Coverage and the reference;
    (covered, existing) totals equal the reference counts;
  * R2 annotations sum to the totals (branches, branch-less code objects, lines, total);
  * R3 a line is shown covered exactly when the suite covers it: annotation.lines.covered == 1 <=> line number in the
    reference covered line numbers (and .existing == 1 <=> line exists); per-line branch annotations equal the reference per line;
  * R4 cov_report.xml parsed back: lines-covered/valid, branches-covered/valid, line-rate, branch-rate, the set of listed
    lines, per-line hits and condition-coverage; cov_report.html: header totals and per-line tool tips.
"""

from __future__ import annotations

import math
import random
import re
import xml.etree.ElementTree as ET

ID = "C35"
LEVEL = "exploration"
IN_PROCESS = False
CHUNK_TIMEOUT = 2400
RULE = (
    "real searches (MOSA/WHOLE_SUITE/MIO/RANDOM/RANDOM_TEST_SUITE_SEARCH with [BRANCH, LINE]; DYNAMOSA BRANCH-only and LINE-only "
    "controls; 9 tiny SUT modules + 2 with lambdas/nested/decorated code objects; 3-8 iterations; all minimisation strategies) with "
    "create_coverage_report=True in a fresh interpreter; a monitor around get_coverage_report captures the report object, the "
    "SubjectProperties registries, the tracked Final*Coverage values and the merged trace of the final suite re-executed on a fresh "
    "executor; oracle: reference definitions of branch/line coverage applied to the fresh trace == report ratios == tracked "
    "values, totals == reference counts, sum of per-line annotations == totals, line shown covered <=> line in the covered "
    "line numbers, per-line branch counts == reference, and the same for the parsed-back cov_report.xml / cov_report.html; "
    "distinct = run spec"
)
ASSUMPTIONS = [
    "the final suite is re-executed on a new TestCaseExecutor bound to the run's SubjectProperties; the SUT modules are "
    "deterministic and (apart from a class-level counter that no branch depends on) stateless, so this trace is the suite's coverage",
    "the import trace is part of every execution trace (Pynguin counts lines and code objects executed while importing the module)",
    "reference definitions are taken from the docstrings of pynguin.ga.fitness_metrics, not from its code",
    "XML 'hits' is read as 'shown covered': 1 <=> the line is in the covered line numbers or a branch / branch-less code object "
    "anchored at that line is covered (the latter alone is reported under its own key)",
    "a driver timeout or a run that dies is inconclusive",
]

EXTRA_SUTS = {
    "shapes": '''"""Lambdas, nested functions, decorators, comprehensions, a class with properties."""
import functools


def deco(f):
    @functools.wraps(f)
    def inner(*a, **k):
        return f(*a, **k)
    return inner


@deco
def area(w: int, h: int) -> int:
    if w < 0 or h < 0:
        return 0
    return w * h


def scale(xs: list[int], k: int) -> list[int]:
    f = lambda v: v * k  # noqa: E731
    return [f(x) for x in xs if x]


def outer(n: int) -> int:
    def step(i: int) -> int:
        if i % 2:
            return i
        return -i
    total = 0
    for i in range(min(max(n, 0), 5)):
        total += step(i)
    return total


class Box:
    def __init__(self, w: int):
        self.w = w

    @property
    def double(self) -> int:
        return self.w * 2

    def bigger(self, other: "Box") -> bool:
        return self.w > other.w if other is not None else True
''',
    "oneliners": '''"""Several code objects and predicates on one line; while/else; try/except."""


def sgn(x: int) -> int: return 1 if x > 0 else (-1 if x < 0 else 0)


def both(a: int, b: int) -> bool: return a > 0 and b > 0


def find(xs: list[int], t: int) -> int:
    i = 0
    while i < len(xs) and i < 8:
        if xs[i] == t:
            break
        i += 1
    else:
        return -1
    return i


def parse(s: str) -> int:
    try:
        return int(s)
    except ValueError:
        return 0
''',
}
# shared_lines / oneline_first (vlib/sut_corpus): one source line is the first line of branch-less code objects (lambdas, one-line
# defs, the module itself) AND carries predicates of another code object, or several code objects start on it
SUTS = ["tri", "strings", "containers", "account", "colors", "queue_", "printer", "lastcall", "floats", "shapes", "oneliners",
        "shared_lines", "oneline_first"]


def floors(tier):
    k = 1 if tier == "quick" else 5
    return {"evals": 3000 * k, "distinct": 30 * k,
            "classes": {"report": 30 * k, "report:BRANCH+LINE": 24 * k, "report:BRANCH": 2 * k, "report:LINE": 2 * k,
                        "xml-parsed": 30 * k, "html-parsed": 30 * k, "line-annotation": 1500 * k, "branch-line": 200 * k,
                        "branchless-line": 150 * k, "line:covered": 300 * k, "line:not-covered": 60 * k,
                        "report:partial-coverage": 10 * k, "report:sut:shapes": 2, "report:sut:oneliners": 2,
                        "report:sut:shared_lines": 4, "report:sut:oneline_first": 3,
                        "line-with-branchless-entry-and-predicate": 12 * k, "line-with-branchless-entry-and-predicate:covered-differently": 3,
                        "line-with-several-code-object-entries": 8 * k, "report:BRANCH:shared-lines": 2, "xml-branch-sum": 30 * k}}


def directed_runs():
    runs = []
    algos = ["MOSA", "WHOLE_SUITE", "MIO", "RANDOM", "MOSA", "RANDOM_TEST_SUITE_SEARCH"]
    strategies = ["CASE", "SUITE", "COMBINED", "NONE"]
    i = 0
    for rep in range(3):
        for sut in SUTS:
            runs.append({"sut": sut, "algorithm": algos[(i + rep) % len(algos)], "seed": 350 + i, "iterations": [3, 5, 8][(i + rep) % 3],
                         "metrics": ["BRANCH", "LINE"], "strategy": strategies[i % 4], "assertion_generation": "SIMPLE" if i % 3 else "NONE"})
            i += 1
    for j, sut in enumerate(["tri", "shapes", "queue_", "shared_lines", "oneline_first", "shared_lines"]):
        runs.append({"sut": sut, "algorithm": "DYNAMOSA", "seed": 400 + j, "iterations": [5, 5, 5, 6, 3, 2][j], "metrics": ["BRANCH"], "strategy": "CASE",
                     "assertion_generation": "NONE"})
    for j, sut in enumerate(["oneliners", "lastcall", "printer"]):
        runs.append({"sut": sut, "algorithm": "MOSA", "seed": 410 + j, "iterations": 5, "metrics": ["LINE"], "strategy": "CASE",
                     "assertion_generation": "NONE"})
    return runs


def plan(tier, seed):
    quick = tier == "quick"
    runs = directed_runs()
    rng = random.Random(seed * 15485863 + 35)
    for _ in range(9 if quick else 220):
        r = 0.0 if quick else rng.random()
        metrics = ["BRANCH", "LINE"] if r < 0.86 else (["BRANCH"] if r < 0.93 else ["LINE"])
        runs.append({"sut": rng.choice(SUTS), "algorithm": rng.choice(["MOSA", "WHOLE_SUITE", "MIO", "RANDOM"]), "seed": rng.randrange(1, 10**6),
                     "iterations": rng.choice([2, 3, 5, 8]), "metrics": metrics, "strategy": rng.choice(["CASE", "SUITE", "COMBINED", "NONE"]),
                     "assertion_generation": rng.choice(["NONE", "SIMPLE"])})
    per = 3 if quick else 8
    return [{"name": "real", "runs": runs[i:i + per]} for i in range(0, len(runs), per)]


# --------------------------------------------------------------------------------------------------------------------
# reference definitions (from the docstrings of fitness_metrics / SubjectProperties)
# --------------------------------------------------------------------------------------------------------------------
def reference_coverage(reg, trace):
    preds = {int(p): m for p, m in reg["predicates"].items()}
    cos = {int(c): m for c, m in reg["code_objects"].items()}
    lines = {int(l): m for l, m in reg["lines"].items()}
    owners = {m["code_object"] for m in preds.values()}
    branchless = [c for c in cos if c not in owners]          # "initially branch-less until a predicate is registered for it"
    executed = set(trace["executed_code_objects"])
    t0 = {int(p) for p, d in trace["true_distances"].items() if d == 0.0 and int(p) in preds}    # "covered if distance is 0.0"
    f0 = {int(p) for p, d in trace["false_distances"].items() if d == 0.0 and int(p) in preds}
    bl_cov = [c for c in branchless if c in executed]
    existing = len(branchless) + 2 * len(preds)                  # "every predicate creates two branches"
    covered = len(bl_cov) + len(t0) + len(f0)
    branch_cov = 1.0 if existing == 0 else covered / existing
    cov_ids = {i for i in trace["covered_line_ids"] if i in lines}
    line_cov = 1.0 if not lines else len(cov_ids) / len(lines)  # "nothing to cover => everything is covered"
    per_line_branch, per_line_bl = {}, {}
    for p, m in preds.items():
        c, e = per_line_branch.get(m["line"], (0, 0))
        per_line_branch[m["line"]] = (c + (p in t0) + (p in f0), e + 2)
    for cid in branchless:
        ln = cos[cid]["first_line"]
        c, e = per_line_bl.get(ln, (0, 0))
        per_line_bl[ln] = (c + (cid in executed), e + 1)
    return {
        "branch_coverage": branch_cov, "line_coverage": line_cov,
        "branches": [len(t0) + len(f0), 2 * len(preds)], "branchless": [len(bl_cov), len(branchless)],
        "covered_linenos": sorted({lines[i]["line"] for i in cov_ids}), "existing_linenos": sorted({m["line"] for m in lines.values()}),
        "covered_line_ids": len(cov_ids), "existing_line_ids": len(lines),
        "per_line_branch": per_line_branch, "per_line_branchless": per_line_bl,
    }


def close(a, b):
    return isinstance(a, (int, float)) and isinstance(b, (int, float)) and math.isclose(a, b, rel_tol=1e-9, abs_tol=1e-12)


def evaluate(ctx, run, ev, files, tag):
    case = {"run": run}
    metrics = ev["metrics"]
    mcls = "+".join(m for m in ("BRANCH", "LINE") if m in metrics) or "none"
    if ev.get("raised"):
        ctx.ok(cls=["report", f"report:{mcls}"], distinct=run)
        ctx.witness(f"report:raises-{ev['raised'].split(':')[0]}", f"[{tag}] get_coverage_report raised {ev['raised'][:200]}", case)
        return
    if "fresh" not in ev:
        ctx.inconclusive_because(f"{tag}: fresh re-execution failed: {ev.get('fresh_error')}")
        return
    rep, reg = ev["report"], ev["registry"]
    ref = reference_coverage(reg, ev["fresh"])
    ref_att = reference_coverage(reg, ev["attached"])
    stale = (ref["branch_coverage"], ref["line_coverage"], ref["covered_linenos"]) != (ref_att["branch_coverage"], ref_att["line_coverage"], ref_att["covered_linenos"])
    if ev.get("fresh_timeouts") or ev.get("attached_timeouts"):
        ctx.anomaly("a-test-of-the-final-suite-timed-out")
    why = "attached-results-differ-from-reexecution" if stale else "formula"
    tracked = ev["tracked"]

    def wit(key, desc, **extra):
        c = dict(case)
        c.update(extra)
        c.update({"reference": {k: ref[k] for k in ("branch_coverage", "line_coverage", "branches", "branchless", "covered_line_ids", "existing_line_ids")},
                  "report": {k: rep[k] for k in ("branch_coverage", "line_coverage", "branches", "branchless", "lines")}, "tracked": tracked})
        ctx.witness(key, f"[{tag}] {desc}", c)

    ann = rep["annotations"]
    n_src = rep["source_lines"]
    # ---- R1 totals vs tracked vs reference ---------------------------------------------------------
    if "BRANCH" in metrics:
        ctx.ok(cls="totals:branch")
        if not close(rep["branch_coverage"], ref["branch_coverage"]):
            wit(f"totals:branch-coverage-differs-from-reference:{why}", f"report branch coverage {rep['branch_coverage']} != recomputed {ref['branch_coverage']}")
        t = tracked.get("FinalBranchCoverage")
        if t is None:
            ctx.anomaly("FinalBranchCoverage-not-tracked")
        elif not close(rep["branch_coverage"], t):
            wit("totals:branch-coverage-differs-from-tracked", f"report branch coverage {rep['branch_coverage']} != tracked FinalBranchCoverage {t}")
        if rep["branches"] != ref["branches"]:
            wit(f"totals:branches-count-differs:{why}", f"report branches {rep['branches']} != reference {ref['branches']}")
        if rep["branchless"] != ref["branchless"]:
            wit(f"totals:branchless-code-objects-count-differs:{why}", f"report branch-less code objects {rep['branchless']} != reference {ref['branchless']}")
        ex = rep["branches"][1] + rep["branchless"][1]
        ratio = 1.0 if ex == 0 else (rep["branches"][0] + rep["branchless"][0]) / ex
        if not close(ratio, rep["branch_coverage"]):
            wit("totals:branch-counts-inconsistent-with-branch-coverage", f"(branches+branchless) covered/existing = {ratio} but branch_coverage = {rep['branch_coverage']}")
    else:
        if rep["branch_coverage"] is not None or rep["branches"] != [0, 0] or rep["branchless"] != [0, 0]:
            ctx.anomaly("branch-data-present-although-BRANCH-not-requested")
    if "LINE" in metrics:
        ctx.ok(cls="totals:line")
        if not close(rep["line_coverage"], ref["line_coverage"]):
            wit(f"totals:line-coverage-differs-from-reference:{why}", f"report line coverage {rep['line_coverage']} != recomputed {ref['line_coverage']}")
        t = tracked.get("FinalLineCoverage")
        if t is None:
            ctx.anomaly("FinalLineCoverage-not-tracked")
        elif not close(rep["line_coverage"], t):
            wit("totals:line-coverage-differs-from-tracked", f"report line coverage {rep['line_coverage']} != tracked FinalLineCoverage {t}")
        want = [len(ref["covered_linenos"]), len(ref["existing_linenos"])]
        if rep["lines"] != want:
            wit(f"totals:lines-count-differs:{why}", f"report lines {rep['lines']} != reference {want}")
        ratio = 1.0 if rep["lines"][1] == 0 else rep["lines"][0] / rep["lines"][1]
        if not close(ratio, rep["line_coverage"]):
            wit("totals:line-counts-inconsistent-with-line-coverage", f"lines covered/existing = {ratio} but line_coverage = {rep['line_coverage']}")
    # ---- R2 annotations sum to totals ------------------------------------------------------------------
    sums = {"total": [0, 0], "branches": [0, 0], "branchless": [0, 0], "lines": [0, 0]}
    for a in ann:
        for name, e in zip(("total", "branches", "branchless", "lines"), a[1:5]):
            sums[name][0] += e[0]
            sums[name][1] += e[1]
    ctx.ok(cls="annotation-sums")
    for name in ("branches", "branchless", "lines"):
        if sums[name] != rep[name]:
            # is something anchored at a line the source does not have?
            outside = [ln for ln in list(ref["per_line_branch"]) + list(ref["per_line_branchless"]) + ref["existing_linenos"] if not (1 <= ln <= n_src)]
            wit(f"annotations:sum-of-{name}-differs-from-total{':item-outside-source' if outside else ''}",
                f"sum over line annotations {sums[name]} != report total {rep[name]}", outside_lines=outside[:10])
    tot = [rep["branches"][i] + rep["branchless"][i] + rep["lines"][i] for i in (0, 1)]
    if sums["total"] != tot:
        wit("annotations:sum-of-total-differs-from-totals", f"sum of annotation totals {sums['total']} != branches+branchless+lines {tot}")
    if [a[0] for a in ann] != list(range(1, n_src + 1)):
        wit("annotations:line-numbers-not-1..n", f"annotation line numbers are not 1..{n_src}")
    # ---- R3 per line ---------------------------------------------------------------------------------------
    covered, existing = set(ref["covered_linenos"]), set(ref["existing_linenos"])
    for a in ann:
        ln, total, br, bl, li, msg = a
        cls = ["line-annotation"]
        if [br[i] + bl[i] + li[i] for i in (0, 1)] != total:
            wit("annotation:total-is-not-sum-of-parts", f"line {ln}: total {total} != {br}+{bl}+{li}")
        if "LINE" in metrics:
            want = [int(ln in covered), int(ln in existing)]
            if ln in existing:
                cls.append("line:covered" if ln in covered else "line:not-covered")
            if li != want:
                if li[0] and not want[0]:
                    k = "line-shown-covered-but-suite-does-not-cover-it"
                elif want[0] and not li[0]:
                    k = "line-covered-by-suite-but-shown-uncovered"
                else:
                    k = "line-existence-differs"
                wit(f"annotation:{k}:{why}", f"line {ln}: annotation lines {li}, reference {want}", line=ln)
            shown = re.search(r"Line (\d+)( not)? covered", msg or "")
            if ln in existing and (shown is None or int(shown.group(1)) != ln or bool(shown.group(2)) == (ln in covered)):
                wit("annotation:message-disagrees", f"line {ln}: tool tip {msg!r}, reference covered={ln in covered}", line=ln)
        elif li != [0, 0]:
            ctx.anomaly("line-data-present-although-LINE-not-requested")
        if "BRANCH" in metrics:
            wb = list(ref["per_line_branch"].get(ln, (0, 0)))
            wl = list(ref["per_line_branchless"].get(ln, (0, 0)))
            if wb[1]:
                cls.append("branch-line")
            if wl[1]:
                cls.append("branchless-line")
            if wb[1] and wl[1]:
                cls.append("line-with-branchless-entry-and-predicate")
                if (wb[0] == wb[1]) != (wl[0] == wl[1]) or (wb[0] == 0) != (wl[0] == 0):
                    cls.append("line-with-branchless-entry-and-predicate:covered-differently")
            if wl[1] >= 2:
                cls.append("line-with-several-code-object-entries")
            if br != wb:
                wit(f"annotation:branches-on-line-differ:{why}", f"line {ln}: annotation branches {br}, reference {wb}", line=ln)
            if bl != wl:
                wit(f"annotation:branchless-on-line-differ:{why}", f"line {ln}: annotation branch-less code objects {bl}, reference {wl}", line=ln)
        ctx.ok(cls=cls)
    missing = sorted(ln for ln in covered if not (1 <= ln <= n_src))
    if missing:
        wit("annotation:covered-line-has-no-annotation", f"covered line numbers {missing[:8]} lie outside the source (1..{n_src})")
    # ---- R4 XML / HTML -----------------------------------------------------------------------------------
    xml = files.get("cov_report.xml")
    if xml is None:
        ctx.inconclusive_because(f"{tag}: cov_report.xml was not written")
    else:
        check_xml(ctx, wit, xml, rep, ref, metrics, covered, existing)
    html = files.get("cov_report.html")
    if html is None:
        ctx.inconclusive_because(f"{tag}: cov_report.html was not written")
    else:
        check_html(ctx, wit, html, rep, ann)
    partial = ("BRANCH" in metrics and ref["branch_coverage"] < 1.0) or ("LINE" in metrics and ref["line_coverage"] < 1.0)
    cls = ["report", f"report:{mcls}", f"report:sut:{run['sut']}", f"report:algorithm:{run['algorithm']}"]
    if run["sut"] in ("shared_lines", "oneline_first"):
        cls.append(f"report:{mcls}:shared-lines")
    if partial:
        cls.append("report:partial-coverage")
    ctx.ok(cls=cls, distinct=run)
    if len(ctx.samples) < 2:
        ctx.sample({"run": run, "report": {k: rep[k] for k in ("branch_coverage", "line_coverage", "branches", "branchless", "lines")},
                    "tracked": tracked, "reference": {k: ref[k] for k in ("branch_coverage", "line_coverage", "branches", "branchless")},
                    "covered_lines": ref["covered_linenos"][:40]})


def check_xml(ctx, wit, xml, rep, ref, metrics, covered, existing):
    body = xml[xml.index("<coverage"):] if "<coverage" in xml else xml
    try:
        root = ET.fromstring(body)
    except ET.ParseError as e:
        wit("xml:not-parseable", f"cov_report.xml cannot be parsed: {e}")
        return
    ctx.ok(cls="xml-parsed")
    at = root.attrib

    def num(name):
        try:
            return float(at[name])
        except (KeyError, ValueError):
            return at.get(name)

    if "LINE" in metrics:
        if [num("lines-covered"), num("lines-valid")] != [float(x) for x in rep["lines"]]:
            wit("xml:lines-covered/valid-differ-from-report", f"xml {at.get('lines-covered')}/{at.get('lines-valid')} report {rep['lines']}")
        if not close(num("line-rate"), rep["line_coverage"]):
            wit("xml:line-rate-differs", f"xml line-rate {at.get('line-rate')} report {rep['line_coverage']}")
    if "BRANCH" in metrics:
        want = [float(rep["branches"][i] + rep["branchless"][i]) for i in (0, 1)]
        if [num("branches-covered"), num("branches-valid")] != want:
            wit("xml:branches-covered/valid-differ-from-report", f"xml {at.get('branches-covered')}/{at.get('branches-valid')} report {want}")
        if not close(num("branch-rate"), rep["branch_coverage"]):
            wit("xml:branch-rate-differs", f"xml branch-rate {at.get('branch-rate')} report {rep['branch_coverage']}")
    lines = {}
    for el in root.iter("line"):
        n = int(el.attrib["number"])
        if n in lines:
            wit("xml:line-listed-twice", f"line {n} appears twice")
        lines[n] = el.attrib
    listed = set(lines)
    want_listed = set()
    if "LINE" in metrics:
        want_listed |= existing
    if "BRANCH" in metrics:
        want_listed |= {ln for ln, (c, e) in ref["per_line_branch"].items() if e} | {ln for ln, (c, e) in ref["per_line_branchless"].items() if e}
    want_listed = {ln for ln in want_listed if 1 <= ln <= rep["source_lines"]}
    if listed != want_listed:
        wit("xml:set-of-listed-lines-differs", f"only in xml {sorted(listed - want_listed)[:8]}, missing from xml {sorted(want_listed - listed)[:8]}")
    if "BRANCH" in metrics:
        sc = se = 0
        for a in lines.values():
            m = re.search(r"\((\d+)/(\d+)\)", a.get("condition-coverage", ""))
            if m:
                sc, se = sc + int(m.group(1)), se + int(m.group(2))
        ctx.ok(cls="xml-branch-sum")
        ref_tot = [ref["branches"][i] + ref["branchless"][i] for i in (0, 1)]
        if [float(sc), float(se)] != [num("branches-covered"), num("branches-valid")]:
            wit("xml:sum-of-condition-coverage-differs-from-header", f"sum over <line condition-coverage> = {sc}/{se}, header branches-covered/valid = "
                f"{at.get('branches-covered')}/{at.get('branches-valid')}")
        if [sc, se] != ref_tot:
            wit("xml:sum-of-condition-coverage-differs-from-reference", f"sum over <line condition-coverage> = {sc}/{se}, recomputed totals {ref_tot}")
    for n, a in lines.items():
        ctx.ok(cls="xml-line")
        bc, be = (0, 0)
        if "BRANCH" in metrics:
            b1, b2 = ref["per_line_branch"].get(n, (0, 0)), ref["per_line_branchless"].get(n, (0, 0))
            bc, be = b1[0] + b2[0], b1[1] + b2[1]
        line_cov = "LINE" in metrics and n in covered
        want_hit = "1" if (line_cov or bc > 0) else "0"
        if a.get("hits") != want_hit:
            wit("xml:hits-differ" + (":line-covered-but-hits-0" if want_hit == "1" else ":hits-1-but-nothing-covered"),
                f"line {n}: hits={a.get('hits')} reference covered-line={line_cov} covered-branches={bc}", line=n)
        elif "LINE" in metrics and a.get("hits") == "1" and n in existing and not line_cov:
            wit("xml:line-shown-hit-but-line-not-covered", f"line {n}: hits=1 only because {bc} branch item(s) anchored there are covered; the line itself is not in the covered lines", line=n)
        if be:
            want_cc = f"{bc / be:.0%} ({bc}/{be})"
            if a.get("branch") != "true" or a.get("condition-coverage") != want_cc:
                wit("xml:condition-coverage-differs", f"line {n}: branch={a.get('branch')} condition-coverage={a.get('condition-coverage')!r}, reference {want_cc!r}", line=n)
        elif a.get("branch") != "false":
            wit("xml:branch-flag-on-line-without-branches", f"line {n}: branch={a.get('branch')}", line=n)


def check_html(ctx, wit, html, rep, ann):
    ctx.ok(cls="html-parsed")
    spans = re.findall(r'<span class="(notRelevant|notCovered|partiallyCovered|fullyCovered)"(?: title="([^"]*)")?>(\d+)</span>', html)
    if len(spans) != len(ann):
        wit("html:number-of-line-markers-differs", f"{len(spans)} line markers, {len(ann)} annotations")
        return
    for (cls, title, no), a in zip(spans, ann):
        ln, total = a[0], a[1]
        want = "notRelevant" if total[1] == 0 else "notCovered" if total[0] == 0 else "partiallyCovered" if total[0] < total[1] else "fullyCovered"
        if int(no) != ln or cls != want:
            wit("html:line-marker-differs", f"line {ln}: html marker {cls} ({no}), annotation total {total} => {want}", line=ln)
            break
    m = re.search(r"(\d+)/(\d+) lines covered", html)
    if rep["line_coverage"] is not None and (m is None or [int(m.group(1)), int(m.group(2))] != rep["lines"]):
        wit("html:header-lines-differ", f"header says {m.group(0) if m else None}, report {rep['lines']}")
    m = re.search(r"(\d+)/(\d+) branches covered", html)
    if rep["branch_coverage"] is not None and (m is None or [int(m.group(1)), int(m.group(2))] != rep["branches"]):
        wit("html:header-branches-differ", f"header says {m.group(0) if m else None}, report {rep['branches']}")


def run_real(ctx, run, proj, idx, env_extra=None):
    from vlib.pyndriver import run_pipeline

    out = ctx.scratch / f"out{idx}"
    cfg = {"statistics_output.create_coverage_report": True, "test_case_output.filter_assertions_in_subprocess": False,
           "test_case_output.minimization.test_case_minimization_strategy": run["strategy"]}
    spec = {"module": run["sut"], "project_path": str(proj), "output_path": str(out), "algorithm": run["algorithm"], "seed": run["seed"],
            "budget": {"maximum_iterations": run["iterations"]}, "assertion_generation": run["assertion_generation"],
            "coverage_metrics": run["metrics"], "config": cfg, "monitors": ["vlib.monitors.report"]}
    res = run_pipeline(spec, timeout=300, env_extra=env_extra)
    tag = f"{run['sut']}:{run['algorithm']}:{'+'.join(run['metrics'])}:seed={run['seed']}"
    if res.get("timeout"):
        ctx.inconclusive_because(f"{tag}: driver timeout (inconclusive)")
        return
    if res.get("exception"):
        ctx.inconclusive_because(f"{tag}: pipeline raised {res['exception'][:200]} {res.get('traceback', '')[-300:]}")
        return
    evs = res.get("events", [])
    calls = next((e for e in evs if e.get("ev") == "monitor-calls" and e.get("monitor") == "report"), None)
    ev = next((e for e in evs if e.get("ev") == "coverage-report"), None)
    if calls is None or not calls.get("get_coverage_report") or ev is None:
        ctx.inconclusive_because(f"{tag}: the deciding monitor saw no get_coverage_report call (rc={res.get('rc')}) {res.get('stderr_tail', '')[-200:]}")
        return
    ctx.note(f"wall_s:{run['algorithm']}", res.get("wall_s"))
    evaluate(ctx, run, ev, res.get("files", {}), tag)


def run_chunk(spec, ctx):
    from vlib import sut_corpus

    proj = sut_corpus.copy_to(ctx.scratch / "proj")
    sut_corpus.copy_to(proj, names=sut_corpus.SHARED_LINES)
    for name, src in EXTRA_SUTS.items():
        (proj / f"{name}.py").write_text(src)
    for i, run in enumerate(spec["runs"]):
        run_real(ctx, run, proj, i, env_extra=spec.get("env_extra"))
