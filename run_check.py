#!/venv/bin/python
"""Single entry point: run_check.py <ID> --tier quick|thorough [--seed N] [--only substr] [--replay file]."""

from __future__ import annotations

import argparse
import importlib
import os
import sys

from pathlib import Path


VERIF = Path(__file__).resolve().parent
sys.path.insert(0, str(VERIF))
deps = VERIF / ".deps"
if deps.is_dir():
    sys.path.append(str(deps))  # appended: must not shadow /venv's typing_extensions

os.environ.setdefault("SE2P_PYNGUIN_VERIF", "1")


def find_module(pid: str):
    pid = pid.upper()
    for f in sorted((VERIF / "checks").glob("c*.py")):
        if f.stem.upper().startswith(pid.upper() + "_") or f.stem.upper() == pid:
            return importlib.import_module(f"checks.{f.stem}")
    raise SystemExit(f"no check module for {pid}")


def main():
    ap = argparse.ArgumentParser()
    ap.add_argument("id")
    ap.add_argument("--tier", default=os.environ.get("VERIF_TIER", "quick"), choices=["quick", "thorough"])
    ap.add_argument("--seed", type=int, default=int(os.environ.get("VERIF_SEED", "0") or 0))
    ap.add_argument("--jobs", type=int, default=int(os.environ.get("VERIF_JOBS", "16")))
    ap.add_argument("--only", default=None)
    ap.add_argument("--chunk", default=None)
    ap.add_argument("--out", default=None)
    ap.add_argument("--replay", default=None)
    a = ap.parse_args()
    from vlib import core

    mod = find_module(a.id)
    if a.chunk:
        core.run_chunk_in_child(mod, a.tier, a.seed, a.chunk, a.out)
        return 0
    if a.replay:
        import json

        w = json.loads(Path(a.replay).read_text())
        if not hasattr(mod, "replay"):
            print("no replay for this check; witness:", json.dumps(w, indent=1))
            return 0
        ctx = core.Ctx(mod.ID, a.tier, w.get("seed", a.seed))
        ctx.scratch = core.make_scratch()
        mod.replay(w, ctx)
        for x in ctx.witnesses:
            print("witness", x["key"], x["desc"])
        return 1 if ctx.witnesses else 0
    if os.environ.get("PYTHONHASHSEED") is None:
        os.environ["PYTHONHASHSEED"] = "0"
        os.execv(sys.executable, [sys.executable, *sys.argv])
    return core.run_check(mod, a.tier, a.seed, a.jobs, a.only)


if __name__ == "__main__":
    sys.exit(main())
