#!/venv/bin/python
"""Runs the repository's own suite (guard off) and compares with /root/.vp/BASELINE.json stable_pass."""
import json, os, subprocess, sys, tempfile, xml.etree.ElementTree as ET
env = dict(os.environ); env.pop("SE2P_PYNGUIN_VERIF", None)
out = tempfile.mktemp(suffix=".xml")
subprocess.run(["/venv/bin/python", "-m", "pytest", "-q", "-p", "no:cacheprovider", "--timeout=900",
                "--continue-on-collection-errors", "-n", "16", f"--junitxml={out}"], cwd="/repo", env=env,
               stdout=subprocess.DEVNULL, stderr=subprocess.DEVNULL)
passed = set()
for tc in ET.parse(out).getroot().iter("testcase"):
    if not any(c.tag in ("failure", "error", "skipped") for c in tc):
        passed.add(f"{tc.get('classname')}::{tc.get('name')}")
os.unlink(out)
base = set(json.load(open("/root/.vp/BASELINE.json"))["stable_pass"])
missing = sorted(base - passed)
print(f"baseline stable_pass={len(base)} passed_now={len(passed)} missing={len(missing)}")
for m in missing[:30]:
    print("  MISSING", m)
sys.exit(1 if missing else 0)
