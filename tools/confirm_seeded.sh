#!/bin/bash
# Final confirmation pass, the prescribed way: apply each seeded change to /repo ITSELF, run its demonstration and the checks that
# are recorded as catching it, and undo it straight afterwards (git -C /repo checkout -- .).  Only to be run when nothing else uses
# /repo.  Usage: tools/confirm_seeded.sh [seeded dir names...]   (default: all)   -> appends to seeded/CONFIRMATION.tsv
set -u
cd /verif
[ -n "$(git -C /repo status --porcelain)" ] && { echo "/repo working tree is not clean"; exit 3; }
NAMES="$@"; [ -z "$NAMES" ] && NAMES=$(ls seeded | grep -v CONFIRMATION)
OUT=seeded/CONFIRMATION.tsv
[ -f $OUT ] || echo -e "seeded\thead\tdemo_with\tdemo_without\tcheck\texit_with_change\twitness_keys" > $OUT
HEAD=$(git -C /repo log --format=%h -1)
for name in $NAMES; do
  D=seeded/$name
  [ -f $D/patch.diff ] || continue
  DEMO=$(ls $D/demo*.py 2>/dev/null | head -1)
  if [[ "$DEMO" == *_test.py || "$DEMO" == *test_*.py ]]; then RUN="-m pytest -q -p no:cacheprovider"; else RUN=""; fi
  (cd /tmp && timeout 900 /venv/bin/python $RUN /verif/$DEMO >/dev/null 2>&1); d0=$?
  if ! git -C /repo apply /verif/$D/patch.diff; then echo -e "$name\t$HEAD\tPATCH-DOES-NOT-APPLY" >> $OUT; continue; fi
  (cd /tmp && timeout 900 /venv/bin/python $RUN /verif/$DEMO >/dev/null 2>&1); d1=$?
  IDS=$(/venv/bin/python -c "import json;print(' '.join(json.load(open('$D/meta.json'))['verification']['caught_by']))")
  for id in $IDS; do
    cp evidence/$id.json /tmp/confirm_ev_$id.json 2>/dev/null
    out=$(timeout 3000 /venv/bin/python run_check.py $id --tier quick 2>&1); rc=$?
    keys=$(echo "$out" | grep -o "witness key=[^ ]*" | sed 's/witness key=//; s/:$//' | sort | uniq -c | sort -rn | head -3 | awk '{print $2" x"$1}' | tr '\n' ' ')
    echo -e "$name\t$HEAD\t$d1\t$d0\t$id\t$rc\t$keys" >> $OUT
    cp /tmp/confirm_ev_$id.json evidence/$id.json 2>/dev/null; rm -f /tmp/confirm_ev_$id.json
  done
  git -C /repo checkout -- .
done
git -C /repo status --porcelain | head -3
