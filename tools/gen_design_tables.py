#!/venv/bin/python
"""Emits the markdown tables of DESIGN.md §7-§8 from known_findings.json and seeded/*/meta.json."""
import json, glob, os, re
V = os.path.dirname(os.path.dirname(os.path.abspath(__file__)))
k = json.load(open(f"{V}/known_findings.json"))
print("### Repaired defects (`fix:` commits in /repo)\n")
print("| property | commit | what failed |\n|---|---|---|")
for line in k["fixed"]:
    m = re.match(r"fixed: property=(\S+) (\S+) (.*)", line)
    print(f"| {m.group(1)} | `{m.group(2)}` | {m.group(3)} |")
print("\n### Known findings (recorded, not repaired)\n")
print("| property | witness key | what fails and why it is not repaired |\n|---|---|---|")
for f in k["findings"]:
    print(f"| {f['property']} | `{f['key']}` | {f['what']} |")
print("\n### Seeded changes (independent sub-agents) and which checks catch them\n")
print("| id | change (abridged) | needs (abridged) | caught by | first run | what the check reported |\n|---|---|---|---|---|---|")
def cut(t, n):
    t = " ".join(str(t).split()).replace("|", "/")
    return t if len(t) <= n else t[:n].rsplit(" ", 1)[0] + " …"
for d in sorted(glob.glob(f"{V}/seeded/*/meta.json")):
    m = json.load(open(d)); v = m.get("verification", {})
    print(f"| {os.path.basename(os.path.dirname(d))} | {cut(m.get('summary',''), 230)} | {cut(m.get('needs',''), 200)} | {'; '.join(v.get('caught_by', [])) or '**not caught**'} | {'missed, check widened, now caught' if v.get('initially_missed') else 'caught'} | {cut(v.get('result',''), 200)} |")
