#!/venv/bin/python
"""Regenerates MANIFEST.json from the check modules present under checks/ (keeps it valid at all times)."""
import importlib, json, sys, subprocess
from pathlib import Path

V = Path(__file__).resolve().parent.parent
sys.path.insert(0, str(V))
props = [json.loads(l) for l in (V / "properties.jsonl").read_text().splitlines() if l.strip()]
checks, claimed = [], set()
for f in sorted((V / "checks").glob("c[0-9]*.py")):
    m = importlib.import_module(f"checks.{f.stem}")
    claimed.add(m.ID)
    checks.append({
        "property_id": m.ID,
        "quick_cmd": f"/venv/bin/python run_check.py {m.ID} --tier quick",
        "thorough_cmd": f"/venv/bin/python run_check.py {m.ID} --tier thorough",
        "evidence_file": f"/verif/evidence/{m.ID}.json",
        "replay_cmd_template": f"/venv/bin/python run_check.py {m.ID} --replay {{path}}",
        "engine": "runtime-monitor",
        "level_claimed": {
            "category": m.LEVEL,
            "text": getattr(m, "LEVEL_TEXT", m.RULE),
            "design_ref": f"DESIGN.md §3 {m.ID}",
        },
        "level_note": "; ".join(getattr(m, "ASSUMPTIONS", [])) or "CPython semantics and the check's own generators/reference model",
        "technique": getattr(m, "TECHNIQUE", "runtime monitoring: reference-model monitor over generated workloads"),
    })
NA_REASONS = json.loads((V / "tools" / "not_applicable.json").read_text()) if (V / "tools" / "not_applicable.json").exists() else {}
na = [{"property_id": p["id"], "reason": NA_REASONS.get(p["id"], "check not built yet in this round; design in DESIGN.md §3")}
      for p in props if p["id"] not in claimed]
hooks_commits = [l for l in (V / "tools" / "hook_commits.txt").read_text().split()] if (V / "tools" / "hook_commits.txt").exists() else []
man = {
    "version": 1,
    "setup_cmd": "sh bootstrap.sh",
    "hooks": {
        "guard": "SE2P_PYNGUIN_VERIF",
        "enable": "environment variable SE2P_PYNGUIN_VERIF=1 (set by run_check.py for every child); the repo is an editable install, no rebuild needed",
        "baseline_off_cmd": "cd /repo && env -u SE2P_PYNGUIN_VERIF /venv/bin/python -m pytest -ra -q -p no:cacheprovider --timeout=900 --continue-on-collection-errors -n 16",
        "source_commits": hooks_commits,
        "add_only": True,
    },
    "engines": [{
        "name": "runtime-monitor",
        "path": "/verif/run_check.py",
        "serves_properties": sorted(claimed),
        "kind_free_text": "runs the real pynguin code from /repo/src under generated/hostile workloads with reference-model monitors, invariant hooks and offline log checkers; three-valued verdicts; known findings keyed by mechanism",
    }],
    "checks": checks,
    "notes": "See DESIGN.md. Exit 0 held, 1 violation (VIOLATION line), 2 inconclusive (monitor not reached / watchdog). known_findings.json lists recorded defects and fixed: entries.",
    "not_applicable": na,
}
(V / "MANIFEST.json").write_text(json.dumps(man, indent=1) + "\n")
try:
    import jsonschema
    jsonschema.validate(man, json.loads(Path("/root/.vp/MANIFEST.schema.json").read_text()))
    print("MANIFEST valid;", len(checks), "checks;", len(na), "not claimed")
except ImportError:
    print("written (jsonschema not available here);", len(checks), "checks")
