"""Reproducer (C16): TestCaseExecutor.execute on an EMPTY test case is a race: thread.join(timeout=min(max, per_statement * size())) is join(0),
so the result is ExecutionResult(timeout=True) or a normal result depending on scheduling.  Usage: /venv/bin/python tools/repro_c16_empty_test_timeout.py"""
import sys, tempfile
sys.path.insert(0, "/verif")
from pathlib import Path
from vlib import sut_corpus
import pynguin.configuration as config
d = Path(tempfile.mkdtemp()); sut_corpus.copy_to(d, ["tri"]); sys.path.insert(0, str(d))
config.configuration = config.Configuration(algorithm=config.Algorithm.RANDOM, project_path=str(d), module_name="tri",
                                            test_case_output=config.TestCaseOutputConfiguration(output_path=str(d)))
from pynguin.instrumentation.tracer import SubjectProperties
from pynguin.instrumentation.machinery import install_import_hook
from pynguin.testcase.execution import TestCaseExecutor
import pynguin.testcase.testcase as tc
sp = SubjectProperties()
with install_import_hook("tri", sp):
    with sp.instrumentation_tracer:
        import tri
ex = TestCaseExecutor(sp)
import logging; logging.disable(logging.CRITICAL)
flags = [ex.execute(tc.TestCase()).timeout for _ in range(200)]
print("empty test case executed 200 times: timeout=True", sum(flags), "timeout=False", 200 - sum(flags))
