"""Seeded BREAK: attribute definitions (STORE_ATTR) are no longer matched against attribute uses."""
import os
from pathlib import Path

_p = Path(os.environ["VERIF_SELFTEST_PATCH"]).parent / "fix_all.py"
exec(compile(_p.read_text(), str(_p), "exec"), {"__name__": "selftest_patch"})  # noqa: S102  (baseline = silent tree)

from pynguin.slicer.dynamicslicer import DynamicSlicer
from pynguin.slicer.executedinstruction import ExecutedAttributeInstruction

_orig = DynamicSlicer.check_explicit_data_dependency


def check_explicit_data_dependency(self, context, traced_instr, instr):
    if isinstance(traced_instr, ExecutedAttributeInstruction):
        return False, set()
    return _orig(self, context, traced_instr, instr)


DynamicSlicer.check_explicit_data_dependency = check_explicit_data_dependency
