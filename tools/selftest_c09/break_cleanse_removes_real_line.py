"""Seeded BREAK: the 'explicit return None' detection loses its opcode/argument test, so
_cleanse_included_implicit_return_none removes the line of a real 'return <value>'."""
import os
from pathlib import Path

_p = Path(os.environ["VERIF_SELFTEST_PATCH"]).parent / "fix_all.py"
exec(compile(_p.read_text(), str(_p), "exec"), {"__name__": "selftest_patch"})  # noqa: S102  (baseline = silent tree)

import pynguin.instrumentation.version as version


def end_with_explicit_return_none(instructions):
    # lost: "instructions[-2].lineno != instructions[-1].lineno" and "instructions[-1].arg is None"; RETURN_VALUE accepted
    return len(instructions) >= 2 and instructions[-1].name in ("RETURN_CONST", "RETURN_VALUE")


version.end_with_explicit_return_none = end_with_explicit_return_none
