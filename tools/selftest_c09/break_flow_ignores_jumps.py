"""Seeded BREAK (slice ⊆ trace): the execution-flow builder no longer follows traced jumps backwards but always
continues in the textually previous basic block, so slices pick up instructions of blocks that never ran."""
import os
from pathlib import Path

_p = Path(os.environ["VERIF_SELFTEST_PATCH"]).parent / "fix_all.py"
exec(compile(_p.read_text(), str(_p), "exec"), {"__name__": "selftest_patch"})  # noqa: S102  (baseline = silent tree)

from pynguin.slicer.executionflowbuilder import ExecutionFlowBuilder


def _determine_previous_instruction(self, efb_state, previous_traced_instr, instr):
    if not self._decrease_instr_original_index(efb_state):
        self._continue_at_last_basic_block(efb_state)


def _handle_generator_and_exceptions(self, efb_state, previous_traced_instr):
    return


ExecutionFlowBuilder._determine_previous_instruction = _determine_previous_instruction
ExecutionFlowBuilder._handle_generator_and_exceptions = _handle_generator_and_exceptions
