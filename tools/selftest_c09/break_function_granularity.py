"""Seeded BREAK (soundness): mapping a slice to lines marks every line of the code object of an included instruction."""
import os
from pathlib import Path

_p = Path(os.environ["VERIF_SELFTEST_PATCH"]).parent / "fix_all.py"
exec(compile(_p.read_text(), str(_p), "exec"), {"__name__": "selftest_patch"})  # noqa: S102  (baseline = silent tree)

from pynguin.slicer.dynamicslicer import DynamicSlicer

_orig = DynamicSlicer.map_instructions_to_lines


def map_instructions_to_lines(instructions, subject_properties):
    out = set(_orig(instructions, subject_properties))
    cos = {i.code_object_id for i in instructions if i.file != "<ast>"}
    for line_id, meta in subject_properties.existing_lines.items():
        if meta.code_object_id in cos:
            out.add(line_id)
    return out


DynamicSlicer.map_instructions_to_lines = staticmethod(map_instructions_to_lines)
