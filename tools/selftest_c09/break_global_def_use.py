"""Seeded BREAK: STORE_GLOBAL definitions are no longer matched against global uses."""
import os
from pathlib import Path

_p = Path(os.environ["VERIF_SELFTEST_PATCH"]).parent / "fix_all.py"
exec(compile(_p.read_text(), str(_p), "exec"), {"__name__": "selftest_patch"})  # noqa: S102  (baseline = silent tree)

from pynguin.slicer.dynamicslicer import DynamicSlicer

_orig = DynamicSlicer._check_variables


def _check_variables(self, context, file, code_object_id, name, argument, arg_address, object_creation):
    if name in ("STORE_GLOBAL", "DELETE_GLOBAL"):
        return False
    return _orig(self, context, file, code_object_id, name, argument, arg_address, object_creation)


DynamicSlicer._check_variables = _check_variables
