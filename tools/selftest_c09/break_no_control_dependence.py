"""Seeded BREAK: the slicer ignores control dependencies (no conditional branch is ever claimed)."""
import os
from pathlib import Path

_p = Path(os.environ["VERIF_SELFTEST_PATCH"]).parent / "fix_all.py"
exec(compile(_p.read_text(), str(_p), "exec"), {"__name__": "selftest_patch"})  # noqa: S102  (baseline = silent tree)

from pynguin.slicer.dynamicslicer import DynamicSlicer

DynamicSlicer.check_control_dependency = lambda self, context, instr: False
