"""Seeded BREAK: _STORE_INSTRUCTION_OFFSET off by one (1 instead of 2): the criterion is the RETURN_CONST of the test statement."""
import os
from pathlib import Path

_p = Path(os.environ["VERIF_SELFTEST_PATCH"]).parent / "fix_all.py"
exec(compile(_p.read_text(), str(_p), "exec"), {"__name__": "selftest_patch"})  # noqa: S102  (baseline = silent tree)

from pynguin.slicer.statementslicingobserver import RemoteStatementSlicingObserver

RemoteStatementSlicingObserver._STORE_INSTRUCTION_OFFSET = 1
